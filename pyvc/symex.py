"""Forward symbolic executor over the `ast` of the real repository functions.

Calls are replaced by the callee's contract (never its body) unless the callee is marked
`inline` (properties and tiny helpers, which are real code too).  Loops are cut at their
invariants.  Every assertion becomes a named obligation.
"""
from __future__ import annotations

import ast
from dataclasses import dataclass, field
from fractions import Fraction

import z3

from . import vtypes as ty
from . import dsl
from .contracts_api import Registry, Contract, Clause, RaiseSpec, LoopSpec
from .source import RepoIndex, FuncInfo, ClassInfo
from .state import State, Frame, PyList, PyDict, PySet


_QCACHE = {}


def _has_quantifier(e):
    i = e.get_id()
    r = _QCACHE.get(i)
    if r is not None:
        return r
    seen, stack, found = set(), [e], False
    while stack:
        t = stack.pop()
        if t.get_id() in seen:
            continue
        seen.add(t.get_id())
        if z3.is_quantifier(t):
            found = True
            break
        if z3.is_app(t):
            stack.extend(t.children())
    _QCACHE[i] = found
    return found


def unwrap_view(x):
    from .views import unwrap
    return unwrap(x)


_SEQCACHE = {}


def _has_seq_term(e):
    """does the formula contain string / sequence-theory terms?  (left out of path pruning: the sequence solver is slow and pruning is optional)"""
    i = e.get_id()
    r = _SEQCACHE.get(i)
    if r is not None:
        return r
    seen, stack, found = set(), [e], False
    while stack:
        t = stack.pop()
        if t.get_id() in seen:
            continue
        seen.add(t.get_id())
        if z3.is_app(t):
            if t.sort().kind() == z3.Z3_SEQ_SORT:
                found = True
                break
            stack.extend(t.children())
        elif z3.is_quantifier(t):
            stack.append(t.body())
    _SEQCACHE[i] = found
    return found


class Unsupported(Exception):
    def __init__(self, msg, node=None):
        self.node = node
        where = f" at line {getattr(node, 'lineno', '?')}" if node is not None else ""
        super().__init__(msg + where)


@dataclass
class Obl:
    name: str
    hyps: list
    goal: object          # z3 Bool
    kind: str = "assert"  # assert | canary (expects sat of hyps)
    props: tuple = ()
    line: int = 0
    path: str = ""
    inputs: dict = field(default_factory=dict)    # name -> value (for model extraction)
    meta: dict = field(default_factory=dict)


class Out:
    __slots__ = ("kind", "val", "st")

    def __init__(self, kind, val, st):
        self.kind, self.val, self.st = kind, val, st     # kind: val|next|return|raise|break|continue

    def __repr__(self):
        return f"Out({self.kind}, {self.val!r})"


class ExcV:
    """A raised exception: class name (+ optional python-level base list)."""
    __slots__ = ("cls", "line", "origin")

    def __init__(self, cls, line=0, origin=None):
        self.cls, self.line, self.origin = cls, line, origin        # origin: the callee whose contract produced the exception (None: raised in the body)

    def __repr__(self):
        return f"Exc({self.cls}@{self.line})"


class FuncV:
    __slots__ = ("fi", "def_frame", "self_obj", "lam", "cls_obj")

    def __init__(self, fi=None, def_frame=None, self_obj=None, lam=None, cls_obj=None):
        self.fi, self.def_frame, self.self_obj, self.lam, self.cls_obj = fi, def_frame, self_obj, lam, cls_obj


class ClassV:
    __slots__ = ("name",)

    def __init__(self, name):
        self.name = name

    def __repr__(self):
        return f"<class {self.name}>"


class ModuleV:
    __slots__ = ("name",)

    def __init__(self, name):
        self.name = name


class Intrinsic:
    __slots__ = ("name", "fn", "recv")

    def __init__(self, name, fn, recv=None):
        self.name, self.fn, self.recv = name, fn, recv


class SuperV:
    __slots__ = ("cls", "obj")

    def __init__(self, cls, obj):
        self.cls, self.obj = cls, obj


BUILTIN_EXC = {
    "Exception": [], "ValueError": ["Exception"], "TypeError": ["Exception"], "KeyError": ["LookupError", "Exception"],
    "IndexError": ["LookupError", "Exception"], "LookupError": ["Exception"], "AttributeError": ["Exception"],
    "ZeroDivisionError": ["ArithmeticError", "Exception"], "ArithmeticError": ["Exception"],
    "NotImplementedError": ["RuntimeError", "Exception"], "RuntimeError": ["Exception"],
    "StopIteration": ["Exception"], "AssertionError": ["Exception"],
}


class Exec:
    def __init__(self, index: RepoIndex, reg: Registry, quick_timeout_ms=700):
        self.ix = index
        self.reg = reg
        self.obls: list[Obl] = []
        self.cur_fn = ""
        self.cur_props: tuple = ()
        self.path_counter = 0
        self.feas_timeout = quick_timeout_ms
        self.max_inline_depth = 12
        self.stats = dict(paths=0, forks=0, feas_checks=0, calls_by_contract=0, inlined=0)
        self.assumed_used: set = set()
        self.contracts_used: set = set()
        from . import lib
        self.lib = lib
        self.heap_decl: dict[str, z3.SortRef] = {}

    # =================================================================== heap
    def heap_keys(self, decl_cls, fname, t):
        return [f"{decl_cls}.{fname}#{k}" for k in range(len(t.comps()))]

    def heap_arr(self, st: State, key, sort):
        if key not in st.heap:
            st.heap[key] = z3.Const(f"H0:{key}", z3.ArraySort(ty.RefSort, sort))
        return st.heap[key]

    def field_info(self, cls, fname):
        r = self.reg.field(cls, fname)
        if r is None:
            # duck-typed read through a base-class reference (event.ev on an Event): the field of the unique declaring
            # subclass is used; that the object really carries it is assumption A-DUCK (recorded when used)
            cands = [(c, sc.fields[fname]) for c, sc in self.reg.schemas.items()
                     if fname in sc.fields and c != cls and self.reg.is_subclass(c, cls)]
            if len(cands) == 1:
                self.assumed_used.add(f"A-DUCK {cls}.{fname} read through a base-class reference (declared in {cands[0][0]})")
                return cands[0]
        return r

    def read_field(self, st: State, obj: ty.ObjV, fname, node=None):
        fi = self.field_info(obj.cls, fname)
        if fi is None:
            raise Unsupported(f"field {obj.cls}.{fname} has no declared sort in the schema", node)
        decl, t = fi
        cs = [z3.simplify(z3.Select(self.heap_arr(st, k, c), obj.ref)) for k, c in zip(self.heap_keys(decl, fname, t), t.comps())]
        v = ty.unpack(t, cs)
        self.assume_wf(st, t, v)
        return v

    def write_field(self, st: State, obj: ty.ObjV, fname, val, node=None):
        fi = self.field_info(obj.cls, fname)
        if fi is None:
            raise Unsupported(f"field {obj.cls}.{fname} has no declared sort in the schema", node)
        decl, t = fi
        if isinstance(val, ty.OptV) and not isinstance(t, ty.OptT):
            self.safety(st, "none-stored-in-non-optional", z3.Not(val.isnone), node)
            val = val.val
        try:
            cs = ty.pack(t, self.to_storable(val))
        except TypeError as e:
            raise Unsupported(f"cannot store {val!r} into {obj.cls}.{fname}: {t} ({e})", node)
        for k, srt, c in zip(self.heap_keys(decl, fname, t), t.comps(), cs):
            st.heap[k] = z3.simplify(z3.Store(self.heap_arr(st, k, srt), obj.ref, c))

    def assume_wf(self, st, t, v):
        """Heap well-formedness: references read out of the heap are null or allocated."""
        if isinstance(t, ty.RefT) and isinstance(v, ty.ObjV):
            st.assume(z3.Or(v.ref == ty.NULL, z3.Select(st.alloc, v.ref)) if t.nullable
                      else z3.And(v.ref != ty.NULL, z3.Select(st.alloc, v.ref)))
        elif isinstance(t, ty.SeqT) and isinstance(v, ty.SeqV):
            st.assume(v.len >= 0)                       # python lists / arrays have non-negative length
            if isinstance(t.elem, ty.SeqT) and len(v.arrs) >= 2:
                # a list of lists: every inner list has a non-negative length too (the inner length is the last component)
                wi = z3.Int(ty.fresh_name("wfi"))
                inner = z3.Select(v.arrs[-1], wi)
                if not (z3.is_quantifier(v.arrs[-1]) and v.arrs[-1].is_lambda()):
                    st.assume(ty.FA([wi], inner >= 0, patterns=[inner]))
        elif t is ty.Mat and isinstance(v, ty.MatV):
            st.assume(z3.And(v.rows >= 0, v.cols >= 0))
        elif t is ty.CMat and isinstance(v, ty.CMatV):
            st.assume(z3.And(v.re.rows >= 0, v.re.cols >= 0, v.im.rows == v.re.rows, v.im.cols == v.re.cols))
        elif isinstance(t, ty.MapT) and isinstance(v, ty.MapV) and v.keys is not None:
            st.assume(v.keys.len >= 0)
            from . import maplib
            maplib.assume_map_wf(st, v)

    def to_storable(self, v):
        if isinstance(v, PyList):
            return [self.to_storable(x) for x in v.items]
        if isinstance(v, PyDict):
            return {k: self.to_storable(x) for k, x in v.d.items()}
        if isinstance(v, tuple):
            return tuple(self.to_storable(x) for x in v)
        return v

    def alloc_obj(self, st: State, cls: str) -> ty.ObjV:
        r = z3.Const(ty.fresh_name(f"new_{cls}"), ty.RefSort)
        st.assume(z3.And(r != ty.NULL, z3.Not(z3.Select(st.alloc, r))))
        st.alloc = z3.Store(st.alloc, r, z3.BoolVal(True))
        return ty.ObjV(r, cls, nullable=False, exact=True)

    # =================================================================== obligations
    def oblige(self, st: State, name, goal, node=None, props=None, kind="assert", meta=None):
        if isinstance(goal, bool):
            goal = z3.BoolVal(goal)
        o = Obl(name=f"{self.cur_fn}/{name}", hyps=list(st.pc), goal=goal, kind=kind,
                props=tuple(props) if props is not None else self.cur_props,
                line=getattr(node, "lineno", 0), path="; ".join(st.trace[-12:]),
                inputs=dict(st.ghost.get("__inputs__", {})), meta=meta or {})
        self.obls.append(o)
        return o

    def safety(self, st: State, what, cond, node):
        """Emit a safety obligation and continue under the assumption that it holds."""
        if isinstance(cond, bool):
            if cond:
                return
            cond = z3.BoolVal(False)
        if z3.is_true(z3.simplify(cond)):
            return
        self.oblige(st, f"safety/{what}@L{getattr(node, 'lineno', 0)}", cond, node)
        st.assume(cond)

    def feasible(self, st: State, extra=None) -> bool:
        """Path pruning only: an over-approximation is sound, so the quantified hypotheses are left out (they make the
        solver answer `unknown` after the full timeout) and only the quantifier-free part of the path condition is used."""
        self.stats["feas_checks"] += 1
        s = z3.Solver()
        # a deterministic resource limit (not wall time) so that the set of explored paths does not depend on machine load
        s.set("rlimit", 2000000)
        s.set("timeout", 20000)
        qf = [h for h in st.pc if not _has_quantifier(h) and not _has_seq_term(h)]
        fs = qf + ([extra] if extra is not None and not _has_seq_term(extra) else [])
        for h in self.lib.theory_axioms(fs):
            if not _has_quantifier(h):
                s.add(h)
        s.add(*fs)
        return s.check() != z3.unsat

    # =================================================================== truthiness / forks
    def truth(self, v, st, node=None):
        """-> python bool or z3 Bool"""
        if isinstance(v, bool):
            return v
        if v is None:
            return False
        if isinstance(v, (int, Fraction)):
            return v != 0
        if isinstance(v, str):
            return len(v) > 0
        if ty.is_z3(v):
            if z3.is_bool(v):
                return v
            if z3.is_int(v) or z3.is_real(v):
                return v != 0
            if v.sort() == ty.IdSort:
                return v != ty.id_const("")         # a string is falsy exactly when it is empty
            raise Unsupported(f"truth value of {v.sort()}", node)
        if isinstance(v, ty.SeqV):
            return v.len > 0
        if isinstance(v, (PyList,)):
            return len(v.items) > 0
        if isinstance(v, PyDict):
            return len(v.d) > 0
        if isinstance(v, (tuple, list)):
            return len(v) > 0
        if isinstance(v, ty.OptV):
            # Optional scalar: None is falsy, otherwise the inner truth value
            inner = self.truth(v.val, st, node)
            return z3.And(z3.Not(v.isnone), ty.to_bool(inner))
        if isinstance(v, ty.ObjV):
            return v.ref != ty.NULL if v.nullable else True
        if isinstance(v, (FuncV, ClassV, Intrinsic)):
            return True
        raise Unsupported(f"truth value of {v!r}", node)

    def branch(self, st: State, cond, label=""):
        """-> list of (bool taken, State).  Concrete conditions do not fork; infeasible sides are pruned."""
        if isinstance(cond, bool):
            return [(cond, st)]
        cond = z3.simplify(cond)
        if z3.is_true(cond):
            return [(True, st)]
        if z3.is_false(cond):
            return [(False, st)]
        out = []
        t_ok = self.feasible(st, cond)
        f_ok = self.feasible(st, z3.Not(cond))
        if t_ok and f_ok:
            self.stats["forks"] += 1
            st2 = st.fork()
            st.assume(cond)
            st.decisions.append(cond)
            st.trace.append(f"{label}=T")
            st2.assume(z3.Not(cond))
            st2.decisions.append(z3.Not(cond))
            st2.trace.append(f"{label}=F")
            return [(True, st), (False, st2)]
        if t_ok:
            st.assume(cond)
            return [(True, st)]
        if f_ok:
            st.assume(z3.Not(cond))
            return [(False, st)]
        return []

    # =================================================================== function entry points
    def run_function(self, fi: FuncInfo, argvals: dict, st: State, self_obj=None, def_frame=None, cls_ctx=None):
        """Symbolically execute the real body.  -> list of Out(kind in return|raise)"""
        if st.depth > self.max_inline_depth:
            raise Unsupported(f"inline depth exceeded in {fi.qualname}")
        fr = Frame(dict(argvals), parent=def_frame, fi=fi, label=fi.qualname)
        fr.env["__class__"] = cls_ctx or fi.cls
        st.frames.append(fr)
        st.depth += 1
        outs = self.exec_block(fi.node.body, st)
        res = []
        for o in outs:
            o.st.frames.pop()
            o.st.depth -= 1
            if o.kind == "next":
                res.append(Out("return", None, o.st))
            elif o.kind in ("return", "raise"):
                res.append(o)
            else:
                raise Unsupported(f"{o.kind} escaped function {fi.qualname}")
        return res

    def bind_args(self, fi: FuncInfo, args, kwargs, st, node=None, skip_self=False):
        a = fi.node.args
        names = [x.arg for x in a.posonlyargs + a.args]
        if skip_self:
            names = names[1:]
        bound = {}
        if len(args) > len(names):
            if a.vararg is None:
                raise Unsupported(f"too many positional arguments for {fi.qualname}", node)
        for n, v in zip(names, args):
            bound[n] = v
        for k, v in kwargs.items():
            if k in bound:
                raise Unsupported(f"duplicate argument {k}", node)
            bound[k] = v
        defaults = a.defaults
        dnames = [x.arg for x in a.posonlyargs + a.args][len(a.posonlyargs + a.args) - len(defaults):]
        for n, d in zip(dnames, defaults):
            if n not in bound and not (skip_self and n == names[0] and False):
                bound[n] = self.eval_const(d, fi)
        for kw, d in zip(a.kwonlyargs, a.kw_defaults):
            if kw.arg not in bound and d is not None:
                bound[kw.arg] = self.eval_const(d, fi)
        all_names = names + [x.arg for x in a.kwonlyargs]
        for n in all_names:
            if n not in bound:
                raise Unsupported(f"missing argument {n} for {fi.qualname}", node)
        extra = [k for k in bound if k not in all_names]
        if extra:
            if a.kwarg is not None:
                bound[a.kwarg.arg] = PyDict({k: bound.pop(k) for k in extra})
            else:
                raise Unsupported(f"unexpected keyword {extra} for {fi.qualname}", node)
        elif a.kwarg is not None:
            bound[a.kwarg.arg] = PyDict({})
        return bound

    def eval_const(self, node, fi):
        """Evaluate a default-argument expression (no state)."""
        st = State()
        st.frames.append(Frame({}, None, fi, "const"))
        outs = self.eval(node, st)
        if len(outs) != 1 or outs[0].kind != "val":
            raise Unsupported("non-constant default argument", node)
        return outs[0].val

    # =================================================================== statements
    def exec_block(self, stmts, st: State):
        outs = [Out("next", None, st)]
        for s in stmts:
            nxt = []
            for o in outs:
                if o.kind != "next":
                    nxt.append(o)
                    continue
                nxt.extend(self.exec_stmt(s, o.st))
            outs = nxt
            if not any(o.kind == "next" for o in outs):
                break
        return outs

    def exec_stmt(self, s, st: State):
        m = getattr(self, "stmt_" + s.__class__.__name__, None)
        if m is None:
            raise Unsupported(f"statement {s.__class__.__name__}", s)
        return m(s, st)

    def stmt_Pass(self, s, st):
        return [Out("next", None, st)]

    def stmt_Expr(self, s, st):
        if isinstance(s.value, ast.Constant):
            return [Out("next", None, st)]       # docstring
        if isinstance(s.value, ast.Yield):
            # generator: the yielded value is appended to the ghost output sequence (`yielded`)
            from . import weblib
            res = []
            for o in (self.eval(s.value.value, st) if s.value.value is not None else [Out("val", None, st)]):
                if o.kind != "val":
                    res.append(o)
                    continue
                weblib.do_yield(self, o.st, o.val, s)
                res.append(Out("next", None, o.st))
            return res
        return [Out("next", None, o.st) if o.kind == "val" else o for o in self.eval(s.value, st)]

    def stmt_Return(self, s, st):
        if s.value is None:
            return [Out("return", None, st)]
        return [Out("return", o.val, o.st) if o.kind == "val" else o for o in self.eval(s.value, st)]

    def stmt_Raise(self, s, st):
        if s.exc is None:
            cur = st.ghost.get("__handling__")
            if cur is None:
                raise Unsupported("bare raise outside handler", s)
            return [Out("raise", cur, st)]
        res = []
        # exception expression: Call(Name(...)) or Name
        e = s.exc
        if isinstance(e, ast.Call):
            name = self.exc_name(e.func)
            # evaluate the arguments for their safety obligations only when they are not plain messages
            res.append(Out("raise", ExcV(name, s.lineno), st))
        else:
            res.append(Out("raise", ExcV(self.exc_name(e), s.lineno), st))
        return res

    def exc_name(self, node):
        if isinstance(node, ast.Name):
            return node.id
        if isinstance(node, ast.Attribute):
            return node.attr
        raise Unsupported("exception expression", node)

    def exc_matches(self, exc: ExcV, handler_type) -> bool:
        if handler_type is None:
            return True
        names = []
        if isinstance(handler_type, ast.Tuple):
            names = [self.exc_name(e) for e in handler_type.elts]
        else:
            names = [self.exc_name(handler_type)]
        return any(self.exc_is(exc.cls, n) for n in names)

    def is_exception_class(self, name):
        if name in BUILTIN_EXC or name in ("Exception", "BaseException", "UserWarning", "DeprecationWarning", "Warning"):
            return True
        ci = self.ix.cls(name)
        return ci is not None and any(self.is_exception_class(b) for b in ci.bases)

    def exc_is(self, cls, base):
        if cls == base or base in ("Exception", "BaseException"):
            return True
        if cls in BUILTIN_EXC:
            return base in BUILTIN_EXC[cls]
        ci = self.ix.cls(cls)
        if ci is not None:
            return any(self.exc_is(b, base) for b in ci.bases)
        return False

    def stmt_Assign(self, s, st):
        res = []
        for o in self.eval(s.value, st):
            if o.kind != "val":
                res.append(o)
                continue
            outs = [Out("next", None, o.st)]
            for tgt in s.targets:
                nxt = []
                for o2 in outs:
                    if o2.kind != "next":
                        nxt.append(o2)
                    else:
                        nxt.extend(self.assign_target(tgt, o.val, o2.st))
                outs = nxt
            res.extend(outs)
        return res

    def stmt_AnnAssign(self, s, st):
        if s.value is None:
            return [Out("next", None, st)]
        res = []
        for o in self.eval(s.value, st):
            if o.kind != "val":
                res.append(o)
            else:
                res.extend(self.assign_target(s.target, o.val, o.st))
        return res

    def stmt_AugAssign(self, s, st):
        # target op= value   ==>  target = target op value   (targets here have no side effects)
        load = self.as_load(s.target)
        binop = ast.BinOp(left=load, op=s.op, right=s.value)
        ast.copy_location(binop, s)
        ast.fix_missing_locations(binop)
        res = []
        for o in self.eval(binop, st):
            if o.kind != "val":
                res.append(o)
            else:
                res.extend(self.assign_target(s.target, o.val, o.st))
        return res

    @staticmethod
    def as_load(t):
        import copy as _c
        n = _c.deepcopy(t)
        for x in ast.walk(n):
            if hasattr(x, "ctx"):
                x.ctx = ast.Load()
        return n

    def assign_target(self, tgt, val, st: State):
        if isinstance(tgt, ast.Name):
            st.assign(tgt.id, val)
            return [Out("next", None, st)]
        if isinstance(tgt, (ast.Tuple, ast.List)):
            items = self.unpack_iter(val, len(tgt.elts), st, tgt)
            outs = [Out("next", None, st)]
            for t, v in zip(tgt.elts, items):
                nxt = []
                for o in outs:
                    nxt.extend(self.assign_target(t, v, o.st) if o.kind == "next" else [o])
                outs = nxt
            return outs
        if isinstance(tgt, ast.Attribute):
            res = []
            for o in self.eval(tgt.value, st):
                if o.kind != "val":
                    res.append(o)
                    continue
                res.extend(self.set_attr(o.val, tgt.attr, val, o.st, tgt))
            return res
        if isinstance(tgt, ast.Subscript):
            return self.assign_subscript(tgt, val, st)
        raise Unsupported(f"assignment target {tgt.__class__.__name__}", tgt)

    def unpack_iter(self, val, n, st, node):
        if isinstance(val, tuple):
            items = list(val)
        elif isinstance(val, PyList):
            items = list(val.items)
        elif isinstance(val, list):
            items = list(val)
        elif isinstance(val, ty.SeqV) and not isinstance(val.elem, ty.RefT):
            # a, b, c = row  for a symbolic vector: its length must be n (ValueError otherwise - a safety obligation), the targets are its entries
            self.safety(st, "unpack-arity", val.len == n, node)
            items = [val.at(z3.IntVal(k)) for k in range(n)]
        else:
            raise Unsupported(f"unpacking of {val!r}", node)
        if len(items) != n:
            raise Unsupported("unpack arity mismatch", node)
        return items

    def set_attr(self, obj, attr, val, st, node):
        if isinstance(obj, ty.ObjV):
            if obj.nullable:
                self.safety(st, "none-deref", obj.ref != ty.NULL, node)
            setter = self.ix.lookup_setter(obj.cls, attr)
            if setter is not None:
                outs = self.run_function(setter, {setter.node.args.args[0].arg: obj, setter.node.args.args[1].arg: val}, st)
                return [Out("next", None, o.st) if o.kind == "return" else o for o in outs]
            self.write_field(st, obj, attr, val, node)
            return [Out("next", None, st)]
        raise Unsupported(f"attribute assignment on {obj!r}", node)

    def assign_subscript(self, tgt, val, st):
        res = []
        for o in self.eval(tgt.value, st):
            if o.kind != "val":
                res.append(o)
                continue
            for o2 in self.eval_index(tgt.slice, o.st):
                if o2.kind != "val":
                    res.append(o2)
                    continue
                st2 = o2.st
                newc = self.store_item(o.val, o2.val, val, st2, tgt)
                if newc is not None:
                    # value-semantic container: rebind the place it came from
                    res.extend(self.assign_target(self.as_store(tgt.value), newc, st2))
                else:
                    res.append(Out("next", None, st2))
        return res

    @staticmethod
    def as_store(t):
        import copy as _c
        n = _c.deepcopy(t)
        n.ctx = ast.Store()
        return n

    def store_item(self, cont, idx, val, st, node):
        """In-place for concrete containers (returns None); returns the new value for value-semantic ones."""
        if isinstance(cont, PyList):
            if not isinstance(idx, int):
                raise Unsupported("symbolic index into concrete list", node)
            if not (-len(cont.items) <= idx < len(cont.items)):
                self.safety(st, "index", False, node)
            cont.items[idx] = val
            return None
        if isinstance(cont, PyDict):
            k = self.dict_key(idx, node)
            cont.d[k] = val
            return None
        if isinstance(cont, ty.SeqV) and isinstance(idx, ty.SeqV) and idx.elem is ty.Bool:
            from . import nplib
            return nplib.seq_mask_store(self, st, cont, idx, val, node)
        if isinstance(cont, ty.SeqV):
            i = ty.to_z3num(idx)
            i = self.norm_index(i, cont.len)
            self.safety(st, "index", z3.And(i >= 0, i < cont.len), node)
            from . import nplib
            if isinstance(val, nplib.MaskedV):          # rows[i] = rows[i][mask]: the selection is materialised as an order-preserving subsequence
                val = val.to_seq(self, st)
            return cont.with_at(i, self.coerce(cont.elem, val, node))
        if isinstance(cont, ty.OptV):
            self.safety(st, "none-subscript-store", z3.Not(cont.isnone), node)
            inner = self.store_item(cont.val, idx, val, st, node)
            return ty.OptV(z3.BoolVal(False), inner, cont.t)
        if isinstance(cont, ty.MapV):
            return self.lib.map_store(self, st, cont, idx, val, node)
        if isinstance(cont, ty.MatV):
            return self.lib.mat_store(self, st, cont, idx, val, node)
        from . import pdlib
        if isinstance(cont, pdlib.FrameV):
            return pdlib.frame_setitem(self, st, cont, idx, val, node)
        raise Unsupported(f"item assignment on {cont!r}", node)

    @staticmethod
    def norm_index(i, n):
        if z3.is_int_value(i):
            return i + n if i.as_long() < 0 else i
        return i

    def dict_key(self, k, node):
        if isinstance(k, (str, int, tuple)) and not isinstance(k, bool):
            return k
        raise Unsupported(f"symbolic key {k!r} in concrete dict", node)

    def coerce(self, t, v, node=None):
        try:
            return ty.unpack(t, ty.pack(t, self.to_storable(v)))
        except TypeError as e:
            raise Unsupported(f"cannot coerce {v!r} to {t}: {e}", node)

    def stmt_If(self, s, st):
        res = []
        for o in self.eval(s.test, st):
            if o.kind != "val":
                res.append(o)
                continue
            c = self.truth(o.val, o.st, s.test)
            for taken, st2 in self.branch(o.st, c, f"L{s.lineno}"):
                res.extend(self.exec_block(s.body if taken else s.orelse, st2))
        return res

    def stmt_Delete(self, s, st):
        outs = [Out("next", None, st)]
        for t in s.targets:
            nxt = []
            for o in outs:
                if o.kind != "next":
                    nxt.append(o)
                    continue
                nxt.extend(self.delete_target(t, o.st))
            outs = nxt
        return outs

    def delete_target(self, t, st):
        if isinstance(t, ast.Subscript):
            res = []
            for o in self.eval(t.value, st):
                if o.kind != "val":
                    res.append(o)
                    continue
                for o2 in self.eval_index(t.slice, o.st):
                    if o2.kind != "val":
                        res.append(o2)
                        continue
                    newc = self.lib.del_item(self, o2.st, o.val, o2.val, t)
                    if newc is not None:
                        res.extend(self.assign_target(self.as_store(t.value), newc, o2.st))
                    else:
                        res.append(Out("next", None, o2.st))
            return res
        raise Unsupported("del target", t)

    def stmt_Assert(self, s, st):
        res = []
        for o in self.eval(s.test, st):
            if o.kind != "val":
                res.append(o)
                continue
            c = self.truth(o.val, o.st, s)
            for taken, st2 in self.branch(o.st, c, f"assert@L{s.lineno}"):
                res.append(Out("next", None, st2) if taken else Out("raise", ExcV("AssertionError", s.lineno), st2))
        return res

    def stmt_FunctionDef(self, s, st):
        fi_parent = st.frame.fi
        fi = fi_parent.nested.get(s.name) if fi_parent else None
        if fi is None:
            raise Unsupported("nested def not indexed", s)
        st.assign(s.name, FuncV(fi=fi, def_frame=len(st.frames) - 1))
        return [Out("next", None, st)]

    def stmt_Break(self, s, st):
        return [Out("break", None, st)]

    def stmt_Continue(self, s, st):
        return [Out("continue", None, st)]

    def stmt_Try(self, s, st):
        if s.finalbody:
            raise Unsupported("try/finally", s)
        res = []
        for o in self.exec_block(s.body, st):
            if o.kind == "raise":
                handled = False
                for h in s.handlers:
                    if self.exc_matches(o.val, h.type):
                        handled = True
                        if h.name:
                            o.st.assign(h.name, ty.OpaqueV("exception"))
                        prev = o.st.ghost.get("__handling__")
                        o.st.ghost["__handling__"] = o.val
                        for o2 in self.exec_block(h.body, o.st):
                            o2.st.ghost["__handling__"] = prev
                            res.append(o2)
                        break
                if not handled:
                    res.append(o)
            elif o.kind == "next" and s.orelse:
                res.extend(self.exec_block(s.orelse, o.st))
            else:
                res.append(o)
        return res

    def stmt_With(self, s, st):
        """`with open(path) as f:` only: the file handle is an opaque value (what is read from it comes from the contract's `json_load` builder);
        the body runs once; closing the file has no modelled effect"""
        if len(s.items) != 1:
            raise Unsupported("with statement with several items", s)
        it = s.items[0]
        ce = it.context_expr
        if not (isinstance(ce, ast.Call) and isinstance(ce.func, ast.Name) and ce.func.id == "open"):
            raise Unsupported("with statement other than `with open(...)`", s)
        if it.optional_vars is not None:
            if not isinstance(it.optional_vars, ast.Name):
                raise Unsupported("with ... as <pattern>", s)
            st.assign(it.optional_vars.id, ty.OpaqueV("file"))
        return self.exec_block(s.body, st)

    def stmt_Global(self, s, st):
        raise Unsupported("global statement", s)

    # ------------------------------------------------------------------ loops
    def loop_ordinal(self, st, node):
        fi = st.frame.fi
        k = 0
        for n in ast.walk(fi.node):
            if isinstance(n, (ast.While, ast.For)):
                if n is node:
                    return k
                k += 1
        raise Unsupported("loop not found in its function", node)

    def loop_spec(self, st, node) -> LoopSpec | None:
        fi = st.frame.fi
        c = self.reg.get(fi.qualname, st.frame.env.get("__recv__")) or self.reg.get(fi.qualname)
        if c is None:
            return None
        return c.loops.get(self.loop_ordinal(st, node))

    def stmt_While(self, s, st):
        if s.orelse:
            raise Unsupported("while/else", s)
        spec = self.loop_spec(st, s)
        if spec is None:
            # try bounded concrete unrolling only when the guard is concretely decidable
            return self.unroll_while(s, st)
        return self.cut_loop(s, st, spec, kind="while")

    def unroll_while(self, s, st, limit=64):
        res = []
        work = [st]
        for _ in range(limit):
            nxt = []
            for st1 in work:
                for o in self.eval(s.test, st1):
                    if o.kind != "val":
                        res.append(o)
                        continue
                    c = self.truth(o.val, o.st, s.test)
                    if not isinstance(c, bool):
                        c2 = z3.simplify(c)
                        if z3.is_true(c2):
                            c = True
                        elif z3.is_false(c2):
                            c = False
                        else:
                            raise Unsupported("while loop without invariant (guard is symbolic)", s)
                    if not c:
                        res.append(Out("next", None, o.st))
                        continue
                    for o2 in self.exec_block(s.body, o.st):
                        if o2.kind in ("next", "continue"):
                            nxt.append(o2.st)
                        elif o2.kind == "break":
                            res.append(Out("next", None, o2.st))
                        else:
                            res.append(o2)
            work = nxt
            if not work:
                return res
        raise Unsupported("while loop unrolling limit", s)

    def assigned_names(self, stmts):
        names = []

        def tgt(t):
            if isinstance(t, ast.Name):
                names.append(t.id)
            elif isinstance(t, (ast.Tuple, ast.List)):
                for e in t.elts:
                    tgt(e)
            elif isinstance(t, ast.Subscript):
                # value-semantic containers are rebound
                b = t.value
                while isinstance(b, ast.Subscript):
                    b = b.value
                if isinstance(b, ast.Name):
                    names.append(b.id)
            elif isinstance(t, ast.Starred):
                tgt(t.value)

        for n in stmts:
            for x in ast.walk(n):
                if isinstance(x, ast.Assign):
                    for t in x.targets:
                        tgt(t)
                elif isinstance(x, (ast.AugAssign, ast.AnnAssign)):
                    tgt(x.target)
                elif isinstance(x, ast.For):
                    tgt(x.target)
                elif isinstance(x, ast.NamedExpr):
                    tgt(x.target)
                elif isinstance(x, ast.Call) and isinstance(x.func, ast.Attribute) and isinstance(x.func.value, ast.Name) \
                        and x.func.attr in ("append", "extend", "pop", "popleft", "add", "remove", "insert", "sort", "clear", "update", "popitem", "move_to_end"):
                    names.append(x.func.value.id)
                elif isinstance(x, ast.Delete):
                    for t in x.targets:
                        tgt(t)
        seen, out = set(), []
        for n in names:
            if n not in seen:
                seen.add(n)
                out.append(n)
        return out

    def view(self, st, extra=None):
        from .views import StateView
        return StateView(self, st, extra or {})

    def eval_clauses(self, fn, *views):
        """A clause function returns a Bool, a (tag, Bool) pair, a dsl.With(goal, facts), or a list of those
        -> list of (tag, Bool).  `With` facts become separate obligations first (see oblige_clause)."""
        try:
            r = fn(*views)
        except (AttributeError, TypeError, KeyError, IndexError) as e:
            # a clause written for values of one shape meets a value of another (the code under verification re-bound a name to something else):
            # the sidecar contract does not fit this version of the function - undecided, never "checker broken"
            raise Unsupported(f"contract clause cannot be evaluated on this version of the function ({e.__class__.__name__}: {e}); the sidecar "
                              f"contract no longer matches the code")
        out = []

        def add(x):
            if isinstance(x, tuple) and len(x) == 2 and isinstance(x[0], str):
                out.append((x[0], x[1]))
            elif isinstance(x, (list,)):
                for y in x:
                    add(y)
            else:
                out.append((f"#{len(out)}", x))
        add(r)
        return [(t, (z3.BoolVal(g) if isinstance(g, bool) else g)) for t, g in out]

    @staticmethod
    def goal_of(g):
        if isinstance(g, dsl.Given):
            return z3.And(*g.axioms, g.goal) if g.axioms else g.goal
        return g.goal if isinstance(g, dsl.With) else g

    def oblige_clause(self, st, name, g, node, props=None):
        """Emit the obligation(s) for one clause value; a dsl.With carries helper facts that are proved
        first (as their own obligations) and then made available to the main goal."""
        if isinstance(g, dsl.Given):
            s2 = st.fork()
            for a in g.axioms:
                s2.assume(a)
            return self.oblige(s2, name, g.goal, node, props=props)
        if isinstance(g, dsl.With):
            s2 = st
            for k, f in enumerate(g.facts):
                self.oblige(s2, f"{name}/using{k}", f, node, props=props)
            if g.facts:
                s2 = st.fork()
                for f in g.facts:
                    s2.assume(f)
            return self.oblige(s2, name, g.goal, node, props=props)
        return self.oblige(st, name, g, node, props=props)

    def havoc_heap(self, st, fields):
        for f in fields:
            cls, fname = f.split(".", 1)
            fi = self.field_info(cls, fname)
            if fi is None:
                raise Unsupported(f"modifies names unknown field {f}")
            decl, t = fi
            for k, srt in zip(self.heap_keys(decl, fname, t), t.comps()):
                st.heap[k] = z3.Const(ty.fresh_name(f"H:{k}"), z3.ArraySort(ty.RefSort, srt))

    def havoc_loop_heap(self, st, mods):
        """modifies entries of a loop: "Class.field" (all receivers), ("Class.field", fn(view) -> [receivers]), "warnings", "alloc"."""
        from .views import unwrap
        pre = self.view(st)
        entry_alloc = st.alloc
        for m in mods:
            fld, who = (m if isinstance(m, tuple) else (m, None))
            if fld in ("warnings", "alloc", "yielded", "requests"):
                continue
            if who is None or who == "ALL":
                self.havoc_heap(st, [fld])
                continue
            cls, fname = fld.split(".", 1)
            decl, t = self.field_info(cls, fname)
            if who in ("FRESH", "NEW"):
                # FRESH: only objects allocated inside the loop are written; NEW: only objects allocated since the FUNCTION was entered (objects that
                # existed before the call keep the values they have at the loop head)
                keep = entry_alloc if who == "FRESH" else st.ghost.get("__alloc_entry__", entry_alloc)
                for k, srt in zip(self.heap_keys(decl, fname, t), t.comps()):
                    a = self.heap_arr(st, k, srt)
                    na = z3.Const(ty.fresh_name(f"H:{k}"), z3.ArraySort(ty.RefSort, srt))
                    r = z3.Const(ty.fresh_name("fr"), ty.RefSort)
                    st.assume(ty.FA([r], z3.Implies(z3.Select(keep, r), z3.Select(na, r) == z3.Select(a, r)),
                                        patterns=[z3.Select(na, r)]))
                    st.heap[k] = na
                continue
            refs = [unwrap(x) for x in who(pre)]
            for k, srt in zip(self.heap_keys(decl, fname, t), t.comps()):
                a = self.heap_arr(st, k, srt)
                for r in refs:
                    a = z3.Store(a, r.ref, z3.Const(ty.fresh_name(f"hv:{k}"), srt))
                st.heap[k] = a

    def cut_loop(self, s, st, spec: LoopSpec, kind, iter_seq=None, target=None):
        """Invariant-cut loop.  For `for` loops over a symbolic sequence, a ghost index `spec.index`
        (default '_k') counts completed iterations; target = seq[_k]."""
        label = f"loop{self.loop_ordinal(st, s)}@L{s.lineno}"
        kname = spec.index or "_k"
        res = []
        if kind == "for":
            st.assign(kname, 0)
            st.ghost["_iter"] = iter_seq        # the sequence being iterated (often an anonymous expression): visible to invariants as s._iter
        if spec.ghost is not None:
            st.ghost.update(spec.ghost(self.view(st)))
        for gname, gt in spec.ghost_vars.items():
            if gname not in st.ghost:
                raise Unsupported(f"ghost loop variable {gname} has no initial value (LoopSpec.ghost)", s)
            st.ghost[gname] = self.coerce(gt, self.to_storable(unwrap_view(st.ghost[gname])), s)
        for ln, lt_ in spec.locals.items():
            found, cur = st.lookup(ln)
            if found:
                st.assign(ln, self.coerce(lt_, self.to_storable(cur), s))
        # 1. invariant holds on entry
        for tag, g in self.eval_clauses(spec.invariant, self.view(st)):
            self.oblige_clause(st, f"{label}/inv-entry/{tag}", g, s)
        # 2. arbitrary iteration
        mod_names = self.assigned_names(s.body) + ([kname] if kind == "for" else [])
        if kind == "for" and target is not None:
            mod_names += self.assigned_names([ast.Assign(targets=[target], value=ast.Constant(0))])
        h = st.fork()
        h.trace.append(f"{label}:iter")
        for n in mod_names:
            found, cur = h.lookup(n)
            if not found:
                continue
            t = ty.type_of(self.to_storable(cur))
            if t is None:
                from . import pdlib
                if isinstance(cur, pdlib.FrameV):
                    h.assign(n, pdlib.fresh_frame(n))
                    continue
                if hasattr(cur, "havoc"):
                    h.assign(n, cur.havoc(n))
                    continue
                raise Unsupported(f"cannot havoc loop-modified local {n}={cur!r}", s)
            h.assign(n, ty.fresh(t, n))
        for gname in ("yielded", "requests"):
            if gname in h.ghost and gname in spec.modifies:
                h.ghost[gname] = z3.Const(ty.fresh_name(gname), h.ghost[gname].sort())
        for gname, gt in spec.ghost_vars.items():
            # ghost loop variables: arbitrary at the loop head (constrained by the invariant), updated by ghost_step at the end of an iteration
            gv = ty.fresh(gt, gname)
            self.assume_wf(h, gt, gv)
            h.ghost[gname] = gv
        self.havoc_loop_heap(h, spec.modifies)
        if "alloc" in spec.modifies:
            h.alloc = z3.Const(ty.fresh_name("alloc"), z3.ArraySort(ty.RefSort, z3.BoolSort()))
            # allocation only grows
            r = z3.Const(ty.fresh_name("r"), ty.RefSort)
            h.assume(ty.FA([r], z3.Implies(z3.Select(st.alloc, r), z3.Select(h.alloc, r))))
        if "warnings" in spec.modifies:
            wc = z3.Int(ty.fresh_name("warns"))
            h.assume(wc >= ty.to_z3num(st.warn_count))
            h.warn_count = wc
        if kind == "for":
            k = h.lookup(kname)[1]
            h.assume(z3.And(k >= 0, k <= iter_seq.len))
        for tag, g in self.eval_clauses(spec.invariant, self.view(h)):
            h.assume(self.goal_of(g))
        exit_st = h.fork()
        exit_st.trace.append(f"{label}:exit")
        # guard
        if kind == "while":
            gouts = self.eval(s.test, h)
        else:
            gouts = [Out("val", h.lookup(kname)[1] < iter_seq.len, h)]
        dec0 = None
        for o in gouts:
            if o.kind != "val":
                res.append(o)
                continue
            c = self.truth(o.val, o.st, s)
            for taken, st2 in self.branch(o.st, c, f"{label}:guard"):
                if not taken:
                    continue
                if kind == "for":
                    k = st2.lookup(kname)[1]
                    for o3 in self.assign_target(target, iter_seq.at(k), st2):
                        pass
                    self.assume_wf(st2, iter_seq.elem, iter_seq.at(k))
                if spec.decreases is not None:
                    dec0 = spec.decreases(self.view(st2))
                head_st = st2.fork()
                for o2 in self.exec_block(s.body, st2):
                    if o2.kind in ("next", "continue"):
                        if kind == "for":
                            o2.st.assign(kname, o2.st.lookup(kname)[1] + 1)
                        if spec.ghost_step is not None:
                            upd = spec.ghost_step(self.view(head_st), self.view(o2.st))
                            for gname, gval in upd.items():
                                o2.st.ghost[gname] = self.coerce(spec.ghost_vars[gname], self.to_storable(unwrap_view(gval)), s)
                        if spec.step is not None:
                            for tag, g in self.eval_clauses(spec.step, self.view(head_st), self.view(o2.st)):
                                self.oblige_clause(o2.st, f"{label}/step/{tag}", g, s)
                        for tag, g in self.eval_clauses(spec.invariant, self.view(o2.st)):
                            self.oblige_clause(o2.st, f"{label}/inv-preserved/{tag}", g, s)
                        if spec.decreases is not None:
                            dec1 = spec.decreases(self.view(o2.st))
                            self.oblige(o2.st, f"{label}/decreases", z3.And(dec0 >= 0, dec1 < dec0), s)
                    elif o2.kind == "break":
                        self.oblige_at_exit(spec, o2.st, label, "break", s)
                        res.append(Out("next", None, o2.st))
                    else:
                        res.append(o2)
        # 3. exit: invariant and negated guard
        if kind == "while":
            for o in self.eval(s.test, exit_st):
                if o.kind != "val":
                    continue
                c = self.truth(o.val, o.st, s)
                for taken, st2 in self.branch(o.st, c, f"{label}:exitguard"):
                    if not taken:
                        self.oblige_at_exit(spec, st2, label, "guard", s)
                        res.append(Out("next", None, st2))
        else:
            k = exit_st.lookup(kname)[1]
            exit_st.assume(k == iter_seq.len)
            self.oblige_at_exit(spec, exit_st, label, "exhausted", s)
            res.append(Out("next", None, exit_st))
        return res

    def oblige_at_exit(self, spec, st, label, how, node):
        """LoopSpec.at_exit: clauses over the locals that must hold wherever control leaves the loop and continues after it (guard false, iterable
        exhausted, or a `break`) - this is where 'the loop stops only when ...' is stated, since a function's postcondition does not see locals."""
        if getattr(spec, "at_exit", None) is None:
            return
        for tag, g in self.eval_clauses(spec.at_exit, self.view(st)):
            self.oblige_clause(st, f"{label}/at-exit({how})/{tag}", g, node)

    def stmt_For(self, s, st):
        if s.orelse:
            raise Unsupported("for/else", s)
        res = []
        for o in self.eval(s.iter, st):
            if o.kind != "val":
                res.append(o)
                continue
            it = o.val
            items = self.concrete_items(it)
            if items is not None:
                res.extend(self.unroll_for(s, items, o.st))
                continue
            seq = self.lib.as_seq(self, o.st, it, s)
            spec = self.loop_spec(o.st, s)
            if spec is None:
                raise Unsupported("for loop over a symbolic sequence without invariant", s)
            res.extend(self.cut_loop(s, o.st, spec, kind="for", iter_seq=seq, target=s.target))
        return res

    def concrete_items(self, it):
        if isinstance(it, PyList):
            return list(it.items)
        if isinstance(it, (list, tuple)):
            return list(it)
        if isinstance(it, PyDict):
            return list(it.d.keys())
        if isinstance(it, PySet):
            return list(it.items)
        if isinstance(it, range):
            return list(it)
        if isinstance(it, str):
            return list(it)
        return None

    def unroll_for(self, s, items, st):
        res = []
        work = [st]
        for item in items:
            nxt = []
            for st1 in work:
                for o0 in self.assign_target(s.target, item, st1):
                    if o0.kind != "next":
                        res.append(o0)
                        continue
                    for o in self.exec_block(s.body, o0.st):
                        if o.kind in ("next", "continue"):
                            nxt.append(o.st)
                        elif o.kind == "break":
                            res.append(Out("next", None, o.st))
                        else:
                            res.append(o)
            work = nxt
        res.extend(Out("next", None, w) for w in work)
        return res

    # =================================================================== expressions
    def eval(self, e, st: State):
        m = getattr(self, "expr_" + e.__class__.__name__, None)
        if m is None:
            raise Unsupported(f"expression {e.__class__.__name__}", e)
        return m(e, st)

    def eval_many(self, nodes, st):
        """-> list of (vals list | None, Out)  : sequential evaluation, raises propagate."""
        acc = [([], st)]
        raises = []
        for n in nodes:
            nxt = []
            for vals, st1 in acc:
                for o in self.eval(n, st1):
                    if o.kind != "val":
                        raises.append(o)
                    else:
                        nxt.append((vals + [o.val], o.st))
            acc = nxt
        return acc, raises

    def expr_Constant(self, e, st):
        v = e.value
        if isinstance(v, float):
            v = Fraction(repr(v)) if v == v and v not in (float("inf"), float("-inf")) else v
        if isinstance(v, complex):
            from .cplx import CplxV
            return [Out("val", CplxV(Fraction(repr(v.real)), Fraction(repr(v.imag))), st)]
        return [Out("val", v, st)]

    def expr_JoinedStr(self, e, st):
        return [Out("val", ty.OpaqueV("fstring"), st)]

    def expr_Name(self, e, st):
        found, v = st.lookup(e.id)
        if found:
            return [Out("val", v, st)]
        return [Out("val", self.global_name(e.id, st, e), st)]

    def global_name(self, name, st, node):
        fi = st.frame.fi
        r = self.ix.resolve_global(fi.module, name) if fi else None
        if r is not None:
            if r[0] == "func":
                return FuncV(fi=r[1])
            if r[0] == "class":
                return ClassV(r[1].name)
            if r[0] == "const":
                return self.eval_const(r[1], self.fake_fi(r[2]))
            if r[0] == "module":
                if r[1] in self.lib.MODULE_FUNCS:
                    return Intrinsic(r[1], self.lib.MODULE_FUNCS[r[1]])
                return ModuleV(r[1])
        b = self.lib.builtin(name)
        if b is not None:
            return b
        raise Unsupported(f"unknown name {name}", node)

    def fake_fi(self, module):
        return FuncInfo(qualname=module + ".<module>", module=module, cls=None, node=None, path="")

    def expr_Tuple(self, e, st):
        acc, raises = self.eval_many(e.elts, st)
        return [Out("val", tuple(vals), s) for vals, s in acc] + raises

    def expr_List(self, e, st):
        acc, raises = self.eval_many(e.elts, st)
        return [Out("val", PyList(vals), s) for vals, s in acc] + raises

    def expr_Set(self, e, st):
        acc, raises = self.eval_many(e.elts, st)
        res = []
        for vals, s in acc:
            if any(ty.is_z3(v) for v in vals) and all(ty.is_z3(v) or ty.is_num_const(v) for v in vals):
                # a set display of symbolic numbers: the set of the listed values (its size is 1 iff they are all equal)
                t = ty.Real if any((ty.is_z3(v) and z3.is_real(v)) or isinstance(v, Fraction) for v in vals) else ty.Int
                res.extend(self.lib.b_set(self, s, [ty.seq_from_list(t, list(vals))], {}, e))
            else:
                res.append(Out("val", PySet(vals), s))
        return res + raises

    def expr_Dict(self, e, st):
        if any(k is None for k in e.keys):
            raise Unsupported("dict unpacking", e)
        acc, raises = self.eval_many(list(e.keys) + list(e.values), st)
        res = []
        n = len(e.keys)
        for vals, s in acc:
            if any(ty.is_z3(k) for k in vals[:n]):
                # a dict literal with symbolic (identifier) keys: built as an ordered map by successive item assignment
                vt = ty.type_of(self.to_storable(vals[n]))
                m = self.coerce(ty.Map(ty.Id, vt if vt is not ty.Int else ty.Real, ordered=True), PyDict({}), e)
                for k, v in zip(vals[:n], vals[n:]):
                    m = self.lib.map_store(self, s, m, k, v, e)
                res.append(Out("val", m, s))
                continue
            res.append(Out("val", PyDict({self.dict_key(k, e): v for k, v in zip(vals[:n], vals[n:])}), s))
        return res + raises

    def expr_UnaryOp(self, e, st):
        res = []
        for o in self.eval(e.operand, st):
            if o.kind != "val":
                res.append(o)
                continue
            v = o.val
            if isinstance(e.op, ast.Not):
                t = self.truth(v, o.st, e)
                res.append(Out("val", (not t) if isinstance(t, bool) else z3.Not(t), o.st))
            elif isinstance(e.op, ast.USub):
                res.append(Out("val", self.lib.neg(self, o.st, v, e), o.st))
            elif isinstance(e.op, ast.UAdd):
                res.append(Out("val", v, o.st))
            else:
                raise Unsupported("unary op", e)
        return res

    def expr_BinOp(self, e, st):
        acc, raises = self.eval_many([e.left, e.right], st)
        res = list(raises)
        for (a, b), s in acc:
            res.extend(self.lib.binop(self, s, e.op, a, b, e))
        return res

    def expr_BoolOp(self, e, st):
        """Short-circuit and/or.  Pure scalar operands are merged into one formula; otherwise paths fork."""
        is_and = isinstance(e.op, ast.And)
        results = []
        work = [(None, st)]          # (accumulated condition so far, state)
        for idx, operand in enumerate(e.values):
            last = idx == len(e.values) - 1
            nxt = []
            for _, s1 in work:
                for o in self.eval(operand, s1):
                    if o.kind != "val":
                        results.append(o)
                        continue
                    if last:
                        results.append(o)
                        continue
                    t = self.truth(o.val, o.st, operand)
                    for taken, s2 in self.branch(o.st, t, f"{'and' if is_and else 'or'}@L{e.lineno}.{idx}"):
                        if taken != is_and:
                            # short-circuit: the value of the expression is this operand
                            results.append(Out("val", o.val if not isinstance(t, z3.ExprRef) else (not is_and), s2))
                        else:
                            nxt.append((None, s2))
            work = nxt
        return results

    def expr_IfExp(self, e, st):
        res = []
        for o in self.eval(e.test, st):
            if o.kind != "val":
                res.append(o)
                continue
            c = self.truth(o.val, o.st, e.test)
            for taken, s2 in self.branch(o.st, c, f"ifexp@L{e.lineno}"):
                res.extend(self.eval(e.body if taken else e.orelse, s2))
        return res

    def expr_Compare(self, e, st):
        acc, raises = self.eval_many([e.left] + list(e.comparators), st)
        res = list(raises)
        for vals, s in acc:
            conj = []
            if len(e.ops) == 1 and not isinstance(e.ops[0], (ast.In, ast.NotIn, ast.Is, ast.IsNot, ast.Eq, ast.NotEq)) \
                    and any(isinstance(x, (ty.SeqV, ty.MatV)) for x in vals):
                # numpy: an ordering comparison with an array operand is elementwise and yields a boolean array
                from . import cplx
                res.append(Out("val", cplx.compare_arrays(self, s, e.ops[0], vals[0], vals[1], e), s))
                continue
            for op, a, b in zip(e.ops, vals[:-1], vals[1:]):
                conj.append(self.lib.compare(self, s, op, a, b, e))
            if all(isinstance(c, bool) for c in conj):
                res.append(Out("val", all(conj), s))
            else:
                res.append(Out("val", z3.And(*[ty.to_bool(c) for c in conj]) if len(conj) > 1 else conj[0], s))
        return res

    def expr_Attribute(self, e, st):
        res = []
        for o in self.eval(e.value, st):
            if o.kind != "val":
                res.append(o)
                continue
            res.extend(self.get_attr(o.val, e.attr, o.st, e))
        return res

    def get_attr(self, obj, attr, st, node):
        if isinstance(obj, ty.ObjV):
            if obj.nullable:
                self.safety(st, "none-deref", obj.ref != ty.NULL, node)
                obj = ty.ObjV(obj.ref, obj.cls, False, obj.exact)
            if self.field_info(obj.cls, attr) is not None:
                return [Out("val", self.read_field(st, obj, attr, node), st)]
            m = self.ix.lookup_method(obj.cls, attr)
            if m is not None:
                if m.is_property:
                    return self.call_function(m, [obj], {}, st, node, is_prop=True)
                if m.is_static:
                    return [Out("val", FuncV(fi=m), st)]
                if m.is_classmethod:
                    return [Out("val", FuncV(fi=m, cls_obj=ClassV(obj.cls)), st)]
                return [Out("val", FuncV(fi=m, self_obj=obj), st)]
            cc = self.ix.lookup_class_const(obj.cls, attr)
            if cc is not None:
                return [Out("val", self.eval_const(cc, self.fake_fi(self.ix.cls(obj.cls).module)), st)]
            ext = self.lib.obj_attr(self, st, obj, attr, node)
            if ext is not None:
                return ext
            for cname in [obj.cls] + [ci.name for ci in self.ix.mro(obj.cls)]:
                cc = self.reg.get(f"callable:{cname}.{attr}")
                if cc is not None:
                    return [Out("val", Intrinsic(cc.qualname, lambda ex_, st_, a, k, n, _c=cc: ex_.apply_callable_contract(_c, a, k, st_, n)), st)]
            raise Unsupported(f"attribute {obj.cls}.{attr} (no schema field, method or class constant)", node)
        if isinstance(obj, SuperV):
            ci = self.ix.cls(obj.cls)
            for b in ci.bases:
                m = self.ix.lookup_method(b, attr)
                if m is not None:
                    return [Out("val", FuncV(fi=m, self_obj=obj.obj), st)]
            if self.ix.is_subclass(obj.cls, "Current") or obj.cls == "Current":
                from . import pdlib
                r = pdlib.super_attr(self, st, obj.obj, attr, node)
                if r is not None:
                    return r
            raise Unsupported(f"super().{attr}", node)
        if isinstance(obj, ClassV):
            m = self.ix.lookup_method(obj.name, attr)
            if m is not None:
                if m.is_classmethod:
                    return [Out("val", FuncV(fi=m, cls_obj=obj), st)]
                return [Out("val", FuncV(fi=m), st)]
            cc = self.ix.lookup_class_const(obj.name, attr)
            if cc is not None:
                return [Out("val", self.eval_const(cc, self.fake_fi(self.ix.cls(obj.name).module)), st)]
            raise Unsupported(f"class attribute {obj.name}.{attr}", node)
        if isinstance(obj, ModuleV):
            full = f"{obj.name}.{attr}"
            if full in self.ix.modules:
                return [Out("val", ModuleV(full), st)]
            if obj.name in self.ix.modules:
                r = self.ix.resolve_global(obj.name, attr)
                if r is not None and r[0] == "func":
                    return [Out("val", FuncV(fi=r[1]), st)]
                if r is not None and r[0] == "class":
                    return [Out("val", ClassV(r[1].name), st)]
            v = self.lib.module_attr(self, full, node)
            return [Out("val", v, st)]
        v = self.lib.value_attr(self, st, obj, attr, node)
        return v

    def expr_Subscript(self, e, st):
        res = []
        for o in self.eval(e.value, st):
            if o.kind != "val":
                res.append(o)
                continue
            for o2 in self.eval_index(e.slice, o.st):
                if o2.kind != "val":
                    res.append(o2)
                    continue
                res.extend(self.lib.get_item(self, o2.st, o.val, o2.val, e))
        return res

    def eval_index(self, sl, st):
        if isinstance(sl, ast.Slice):
            parts = [sl.lower, sl.upper, sl.step]
            acc, raises = self.eval_many([p for p in parts if p is not None], st)
            res = list(raises)
            for vals, s in acc:
                it = iter(vals)
                res.append(Out("val", slice(*[next(it) if p is not None else None for p in parts]), s))
            return res
        if isinstance(sl, ast.Tuple):
            acc = [([], st)]
            raises = []
            for el in sl.elts:
                nxt = []
                for vals, s1 in acc:
                    for o in self.eval_index(el, s1):
                        if o.kind != "val":
                            raises.append(o)
                        else:
                            nxt.append((vals + [o.val], o.st))
                acc = nxt
            return [Out("val", tuple(vals), s) for vals, s in acc] + raises
        return self.eval(sl, st)

    def expr_Lambda(self, e, st):
        return [Out("val", FuncV(lam=e, def_frame=len(st.frames) - 1), st)]

    def expr_ListComp(self, e, st):
        return self.lib.comprehension(self, st, e, "list")

    def expr_GeneratorExp(self, e, st):
        return self.lib.comprehension(self, st, e, "gen")

    def expr_SetComp(self, e, st):
        return self.lib.comprehension(self, st, e, "set")

    def expr_DictComp(self, e, st):
        return self.lib.comprehension(self, st, e, "dict")

    def expr_Call(self, e, st):
        # super() special form
        if isinstance(e.func, ast.Name) and e.func.id == "super" and not e.args:
            found, selfv = st.lookup(st.frame.fi.node.args.args[0].arg)
            cls_ctx = st.frame.env.get("__class__")
            return [Out("val", SuperV(cls_ctx, selfv), st)]
        if isinstance(e.func, ast.Attribute) and e.func.attr in ("heappush", "heappop", "heapify") and isinstance(e.func.value, ast.Name) \
                and e.func.value.id == "heapq" and e.args:
            return self.call_heapq(e, st)
        if isinstance(e.func, ast.Attribute) and e.func.attr in self.lib.MUTATORS:
            r = self.call_mutator(e, st)
            if r is not None:
                return r
        res = []
        for o in self.eval(e.func, st):
            if o.kind != "val":
                res.append(o)
                continue
            fv = o.val
            argnodes = list(e.args)
            if any(isinstance(a, ast.Starred) for a in argnodes):
                raise Unsupported("star-args call", e)
            kwnodes = [k for k in e.keywords]
            acc, raises = self.eval_many(argnodes + [k.value for k in kwnodes], o.st)
            res.extend(raises)
            for vals, s in acc:
                args = vals[:len(argnodes)]
                kwargs = {}
                for k, v in zip(kwnodes, vals[len(argnodes):]):
                    if k.arg is None:
                        if isinstance(v, PyDict):
                            kwargs.update(v.d)
                        else:
                            raise Unsupported("**kwargs with symbolic mapping", e)
                    else:
                        kwargs[k.arg] = v
                res.extend(self.call_value(fv, args, kwargs, s, e))
        return res

    def call_heapq(self, e, st):
        """heapq.heappush(<place>, item) / heapq.heappop(<place>): value-semantic update of the place."""
        from . import heaplib
        res = []
        acc, raises = self.eval_many(list(e.args), st)
        res.extend(raises)
        for vals, s in acc:
            h = vals[0]
            if e.func.attr in ("heappush", "heapify"):
                new = heaplib.heappush(self, s, h, vals[1], e) if e.func.attr == "heappush" else heaplib.heapify(self, s, h, e)
                for o3 in self.assign_target(self.as_store(e.args[0]), new, s):
                    res.append(Out("val", None, o3.st) if o3.kind == "next" else o3)
            else:
                for (new, retv, s2, exc) in heaplib.heappop(self, s, h, e):
                    if exc is not None:
                        res.append(Out("raise", exc, s2))
                        continue
                    for o3 in self.assign_target(self.as_store(e.args[0]), new, s2):
                        res.append(Out("val", retv, o3.st) if o3.kind == "next" else o3)
        return res

    def call_mutator(self, e, st):
        """x.append(v) / d.popitem() / s.add(v) ... on a value-semantic symbolic container: compute the new
        container value and rebind the place the receiver came from.  None = not applicable."""
        outs0 = self.eval(e.func.value, st)
        if len(outs0) != 1 or outs0[0].kind != "val":
            return None if all(o.kind == "val" and not self.lib.is_symbolic_container(o.val) for o in outs0) else \
                self._mut_multi(e, outs0)
        return self._mut_multi(e, outs0)

    def _mut_multi(self, e, outs0):
        res = []
        for o in outs0:
            if o.kind != "val":
                res.append(o)
                continue
            recv = o.val
            if not self.lib.is_symbolic_container(recv):
                # ordinary path: bound method of a concrete container or object
                bm = self.get_attr(recv, e.func.attr, o.st, e) if not isinstance(recv, (PyList, PyDict, PySet)) else \
                    self.lib.value_attr(self, o.st, recv, e.func.attr, e)
                for ob in bm:
                    if ob.kind != "val":
                        res.append(ob)
                        continue
                    acc, raises = self.eval_many(list(e.args) + [k.value for k in e.keywords], ob.st)
                    res.extend(raises)
                    for vals, s in acc:
                        kwargs = {k.arg: v for k, v in zip(e.keywords, vals[len(e.args):])}
                        res.extend(self.call_value(ob.val, vals[:len(e.args)], kwargs, s, e))
                continue
            acc, raises = self.eval_many(list(e.args) + [k.value for k in e.keywords], o.st)
            res.extend(raises)
            for vals, s in acc:
                kwargs = {k.arg: v for k, v in zip(e.keywords, vals[len(e.args):])}
                for (newc, retv, s2, exc) in self.lib.mutate(self, s, recv, e.func.attr, vals[:len(e.args)], kwargs, e):
                    if exc is not None:
                        res.append(Out("raise", exc, s2))
                        continue
                    for o3 in self.assign_target(self.as_store(e.func.value), newc, s2):
                        res.append(Out("val", retv, o3.st) if o3.kind == "next" else o3)
        return res

    # =================================================================== calls
    def call_value(self, fv, args, kwargs, st, node):
        if isinstance(fv, Intrinsic):
            r = fv.fn(self, st, args, kwargs, node) if fv.recv is None else fv.fn(self, st, fv.recv, args, kwargs, node)
            return r
        if isinstance(fv, FuncV):
            if fv.lam is not None:
                return self.call_lambda(fv, args, kwargs, st, node)
            pre = []
            if fv.self_obj is not None:
                pre = [fv.self_obj]
            elif fv.cls_obj is not None:
                pre = [fv.cls_obj]
            return self.call_function(fv.fi, pre + list(args), kwargs, st, node, def_frame=fv.def_frame)
        if isinstance(fv, ClassV):
            return self.construct(fv, args, kwargs, st, node)
        raise Unsupported(f"call of {fv!r}", node)

    def call_lambda(self, fv, args, kwargs, st, node):
        lam = fv.lam
        names = [a.arg for a in lam.args.args]
        if len(names) != len(args) or kwargs:
            raise Unsupported("lambda arity", node)
        fr = Frame(dict(zip(names, args)), parent=fv.def_frame, fi=st.frames[fv.def_frame].fi if fv.def_frame is not None else st.frame.fi, label="<lambda>")
        fr.env["__class__"] = st.frames[fv.def_frame].env.get("__class__") if fv.def_frame is not None else None
        st.frames.append(fr)
        outs = self.eval(lam.body, st)
        for o in outs:
            o.st.frames.pop()
        return outs

    def contract_for(self, fi: FuncInfo, args):
        """-> (contract | None, iface_only).  Receiver-specialised contracts apply to exact receivers only."""
        recv = args[0] if args and isinstance(args[0], ty.ObjV) and fi.cls and not fi.is_static else None
        if recv is not None and recv.exact:
            for ci in self.ix.mro(recv.cls):
                c = self.reg.get(fi.qualname, ci.name)
                if c is not None:
                    return c, False
        c = self.reg.get(fi.qualname)
        if c is None:
            return None, False
        iface_only = False
        if recv is not None and not recv.exact and fi.node.name != "__init__":
            ov = [ci for ci in self.ix.subclasses(recv.cls) if fi.node.name in ci.methods]
            iface_only = bool(ov)
        return c, iface_only

    def call_function(self, fi: FuncInfo, args, kwargs, st, node, def_frame=None, is_prop=False):
        c, iface_only = self.contract_for(fi, args)
        if c is not None and not c.inline:
            return self.apply_contract(c, fi, args, kwargs, st, node, iface_only=iface_only, def_frame=def_frame)
        # dynamic dispatch guard: a method called on a receiver whose exact class is unknown and that is
        # overridden somewhere must go through a contract
        if args and isinstance(args[0], ty.ObjV) and fi.cls and not fi.is_static and not args[0].exact \
                and fi.node.name != "__init__":
            ov = [ci for ci in self.ix.subclasses(args[0].cls) if fi.node.name in ci.methods]
            if ov:
                raise Unsupported(f"polymorphic {'property' if is_prop else 'call'} {args[0].cls}.{fi.node.name} needs a contract "
                                  f"(overridden in {[x.name for x in ov]})", node)
        bound = self.bind_args(fi, args, kwargs, st, node)
        self.stats["inlined"] += 1
        outs = self.run_function(fi, bound, st, def_frame=def_frame, cls_ctx=fi.cls)
        return [Out("val", o.val, o.st) if o.kind == "return" else o for o in outs]

    def construct(self, cv: ClassV, args, kwargs, st, node):
        ext = self.lib.construct_external(self, st, cv, args, kwargs, node)
        if ext is not None:
            return ext
        ci = self.ix.cls(cv.name)
        if ci is None:
            raise Unsupported(f"constructor of unknown class {cv.name}", node)
        if self.is_exception_class(cv.name):
            return [Out("val", ExcV(cv.name, getattr(node, "lineno", 0)), st)]
        init = self.ix.lookup_method(cv.name, "__init__")
        obj = self.alloc_obj(st, cv.name)
        if init is None:
            return [Out("val", obj, st)]
        c, _ = self.contract_for(init, [obj])
        if c is not None and not c.inline:
            outs = self.apply_contract(c, init, [obj] + list(args), kwargs, st, node)
        else:
            bound = self.bind_args(init, [obj] + list(args), kwargs, st, node)
            outs = self.run_function(init, bound, st, cls_ctx=init.cls)
        res = []
        for o in outs:
            if o.kind in ("return", "val"):
                res.append(Out("val", obj, o.st))
            else:
                res.append(o)
        return res

    # ------------------------------------------------------------------ contract application
    def typed_args(self, c: Contract, fi: FuncInfo, bound: dict, node):
        out = {}
        for n, v in bound.items():
            t = c.params.get(n)
            if t is None:
                out[n] = v
            else:
                vv = self.to_storable(v)
                if isinstance(vv, ty.OptV) and not isinstance(t, ty.OptT):
                    self.safety(self._cur_call_state, f"none-passed-as-{n}", z3.Not(vv.isnone), node)
                    vv = vv.val
                if isinstance(t, ty.RefT) and isinstance(vv, ty.ObjV):
                    # keep the (possibly more precise) class of the actual
                    if not (self.reg.is_subclass(vv.cls, t.cls) or self.ix.is_subclass(vv.cls, t.cls)):
                        raise Unsupported(f"argument {n} of {fi.qualname}: {vv.cls} is not a {t.cls}", node)
                    out[n] = vv
                else:
                    out[n] = self.coerce(t, vv, node)
        return out

    def apply_callable_contract(self, c: Contract, args, kwargs, st, node):
        """A call through a field that holds user-supplied code (sort function, estimator): the assumed contract registered as
        "callable:<Class>.<field>" is applied; parameters are bound positionally in declaration order."""
        names = list(c.params)
        if len(args) > len(names):
            raise Unsupported(f"too many arguments for {c.qualname}", node)
        bound = dict(zip(names, args))
        bound.update(kwargs)
        fi = FuncInfo(qualname=c.qualname, module="", cls=None, node=ast.parse(f"def {c.qualname.split('.')[-1]}(): pass").body[0], path="")
        return self.apply_contract(c, fi, args, kwargs, st, node, bound=bound)

    def apply_contract(self, c: Contract, fi: FuncInfo, args, kwargs, st, node, iface_only=False, def_frame=None, bound=None):
        self.stats["calls_by_contract"] += 1
        self.contracts_used.add(c.qualname + (f"@{c.extra.get('recv')}" if c.extra.get("recv") else ""))
        if c.assumed:
            self.assumed_used.add(c.qualname)
        if bound is None:
            bound = self.bind_args(fi, args, kwargs, st, node)
        self._cur_call_state = st
        targs = self.typed_args(c, fi, bound, node)
        for cn, ct in (c.extra.get("closure") or {}).items():
            # free variables of a nested function: read from the frame it was defined in
            if def_frame is None or cn not in st.frames[def_frame].env:
                raise Unsupported(f"closure variable {cn} of {fi.qualname} not found at the call site", node)
            targs[cn] = self.coerce(ct, self.to_storable(st.frames[def_frame].env[cn]), node)
        name = fi.qualname.split("acnportal.")[-1]
        pre = self.view(st, targs)
        # 1. preconditions
        for cl in c.requires:
            for tag, g in self.eval_clauses(cl.fn, pre):
                self.oblige_clause(st, f"call@L{getattr(node, 'lineno', 0)}/{name}/requires/{cl.tag}{'' if tag.startswith('#') else '.' + tag}", g, node)
                st.assume(self.goal_of(g))
        res = []
        # 2. exceptional outcomes
        not_raised = []
        never = [excs for callee, excs in getattr(self, "cur_never_raises", {}).items() if callee in name]
        for rs in c.raises:
            cond = rs.when(pre)
            if isinstance(cond, bool):
                cond = z3.BoolVal(cond)
            if any(rs.exc in excs for excs in never):
                # the function under verification promises that this callee never raises this exception here: a named obligation at the call
                # site (always generated, so a change that makes the exception reachable fails an obligation that discharged before)
                self.oblige(st, f"call@L{getattr(node, 'lineno', 0)}/{name}/never-raises-{rs.exc}", z3.Not(cond), node)
                st.assume(z3.Not(cond))
                continue
            if self.feasible(st, cond):
                s2 = st.fork()
                s2.assume(cond)
                s2.trace.append(f"{name} raises {rs.exc}")
                if not rs.unchanged:
                    self.havoc_modifies(c, s2, targs)
                res.append(Out("raise", ExcV(rs.exc, getattr(node, "lineno", 0), origin=name), s2))
            if rs.iff:
                not_raised.append(z3.Not(cond))
        for nr in not_raised:
            st.assume(nr)
        if not self.feasible(st):
            return res
        # 3. normal outcome
        old = st.fork()
        self.havoc_modifies(c, st, targs)
        ret = None
        oldv = self.view(old, targs)
        if c.ret is not None:
            if callable(c.ret) and not isinstance(c.ret, ty.T):
                ret = c.ret(self, st)            # custom result builder (python-level tuples / dictionaries of an assumed library-like contract)
            elif c.fresh_ret and isinstance(c.ret, ty.RefT):
                ret = self.alloc_obj(st, c.ret.cls)
            elif c.extra.get("returns") is not None:
                # functional contract: the result is *defined* by a term over the pre-state (the body is proved equal to it,
                # obligation ensures/returns); the caller computes with the definition instead of an opaque constant
                from .views import unwrap as _unwrap
                ret = self.coerce(c.ret, _unwrap(c.extra["returns"](oldv)), node)
                self.assume_wf(st, c.ret, ret)
            else:
                ret = ty.fresh(c.ret, f"ret_{fi.node.name}")
                self.assume_wf(st, c.ret, ret)
        newv = self.view(st, targs)
        from .views import wrap
        # callers may be shown a weaker contract: only the sub-clauses with these tag prefixes (chosen by the callee - export_tags - or by
        # the function under verification for one of its callees - callee_views)
        export = getattr(self, "cur_views", {}).get(c.qualname, c.extra.get("export_tags"))
        for cl in (c.iface if iface_only else c.ensures):
            for tag, g in self.eval_clauses(cl.fn, oldv, newv, wrap(self, st, ret)):
                if export is not None and not any(tag.startswith(x) for x in export):
                    continue
                st.assume(self.goal_of(g))
        self.oblige(st, f"call@L{getattr(node, 'lineno', 0)}/{name}/canary", z3.BoolVal(False), node, kind="canary")
        if ret is not None:
            st.ghost["ret_" + fi.node.name] = ret       # ghost: the latest result of this callee (a witness postconditions may name)
        res.append(Out("val", ret, st))
        return res

    def havoc_modifies(self, c: Contract, st, targs):
        if not c.modifies:
            return
        pre = self.view(st, targs)
        pre_alloc = st.alloc
        for m in c.modifies:
            if isinstance(m, tuple):
                fld, who = m
            else:
                fld, who = m, None
            if fld in ("yielded", "requests"):
                if fld in st.ghost:
                    st.ghost[fld] = z3.Const(ty.fresh_name(fld), st.ghost[fld].sort())
                continue
            if fld == "warnings":
                wc = z3.Int(ty.fresh_name("warns"))
                st.assume(wc >= ty.to_z3num(st.warn_count))
                st.warn_count = wc
                continue
            if fld == "alloc":
                old_alloc = st.alloc
                st.alloc = z3.Const(ty.fresh_name("alloc"), z3.ArraySort(ty.RefSort, z3.BoolSort()))
                r = z3.Const(ty.fresh_name("r"), ty.RefSort)
                st.assume(ty.FA([r], z3.Implies(z3.Select(old_alloc, r), z3.Select(st.alloc, r))))
                continue
            cls, fname = fld.split(".", 1)
            fi = self.field_info(cls, fname)
            if fi is None:
                raise Unsupported(f"modifies names unknown field {fld}")
            decl, t = fi
            if who is None:
                first = next(iter(targs.values()), None)
                refs = [first] if isinstance(first, ty.ObjV) else "ALL"
            elif who in ("ALL", "FRESH"):
                refs = who
            else:
                from .views import unwrap
                refs = [unwrap(x) for x in who(pre)]
            for k, srt in zip(self.heap_keys(decl, fname, t), t.comps()):
                a = self.heap_arr(st, k, srt)
                if refs == "ALL":
                    st.heap[k] = z3.Const(ty.fresh_name(f"H:{k}"), z3.ArraySort(ty.RefSort, srt))
                elif refs == "FRESH":
                    # only objects allocated by the callee may differ
                    na = z3.Const(ty.fresh_name(f"H:{k}"), z3.ArraySort(ty.RefSort, srt))
                    r = z3.Const(ty.fresh_name("fr"), ty.RefSort)
                    st.assume(ty.FA([r], z3.Implies(z3.Select(pre_alloc, r), z3.Select(na, r) == z3.Select(a, r)),
                                        patterns=[z3.Select(na, r), z3.Select(a, r)]))
                    st.heap[k] = na
                else:
                    for r in refs:
                        if r is None:
                            continue
                        if isinstance(r, tuple):          # (object, condition): modified only if the condition holds
                            r, cnd = r
                            a = z3.Store(a, r.ref, z3.If(cnd, z3.Const(ty.fresh_name(f"hv:{k}"), srt), z3.Select(a, r.ref)))
                        else:
                            a = z3.Store(a, r.ref, z3.Const(ty.fresh_name(f"hv:{k}"), srt))
                    st.heap[k] = a

    # =================================================================== verifying one function
    def initial_state(self, c: Contract, fi: FuncInfo):
        st = State()
        st.frames.append(Frame({}, None, fi, "<entry>"))
        a = fi.node.args
        names = [x.arg for x in a.posonlyargs + a.args + a.kwonlyargs]
        args = {}
        is_method = fi.cls is not None and not fi.is_static
        for i, n in enumerate(names):
            t = c.params.get(n)
            if t is None and i == 0 and is_method and not fi.is_classmethod:
                rc = c.extra.get("recv")
                t = ty.Ref(rc, exact=True) if rc else ty.Ref(fi.cls)
            if t is None and i == 0 and fi.is_classmethod:
                args[n] = ClassV(c.extra.get("cls", fi.cls))
                continue
            if t is None:
                # undeclared parameter: take its default if it has one
                continue
            if callable(t) and not isinstance(t, ty.T):
                args[n] = t(self, st)      # custom builder
                continue
            v = ty.named(t, n)
            if isinstance(t, ty.RefT):
                st.assume(z3.Select(st.alloc, v.ref))
                if not t.nullable:
                    st.assume(v.ref != ty.NULL)
            else:
                self.assume_wf(st, t, v)
            args[n] = v
        # defaults for the rest
        try:
            bound = self.bind_args(fi, [], args, st)
        except Unsupported as e:
            raise Unsupported(f"contract for {fi.qualname} must declare sorts for parameters without defaults ({e})")
        st.frames.pop()
        return st, bound

    def verify_function(self, qualname: str, props=(), recv=None):
        """Symbolically execute the real function and emit the obligations of its contract."""
        if "@" in qualname:
            qualname, recv = qualname.split("@")
        try:
            fi = self.ix.func(qualname)
        except KeyError:
            # the function a sidecar contract was written for is gone from this tree (removed / renamed): the contract is detached - undecided,
            # never "checker broken"
            raise Unsupported(f"{qualname} is under contract but does not exist in this tree (the sidecar contract no longer matches the code)")
        c = self.reg.get(qualname, recv)
        if c is None:
            raise Unsupported(f"no contract for {qualname}" + (f" @ {recv}" if recv else ""))
        self.cur_fn = qualname.split("acnportal.")[-1] + (f"@{recv}" if recv else "")
        self.cur_views = c.extra.get("callee_views", {})
        self.cur_never_raises = c.extra.get("callee_never_raises", {})
        self.cur_canonical_filters = bool(c.extra.get("canonical_filters"))
        self.cur_extra = c.extra
        self.cur_props = tuple(props)
        n0 = len(self.obls)
        st, bound = self.initial_state(c, fi)
        closure = {cn: ty.named(ct, cn) for cn, ct in (c.extra.get("closure") or {}).items()}
        st.ghost["__inputs__"] = {k: v for k, v in list(bound.items()) + list(closure.items())}
        st.ghost["__alloc_entry__"] = st.alloc
        pre = self.view(st, dict(bound, **closure))
        for cl in c.requires:
            for tag, g in self.eval_clauses(cl.fn, pre):
                st.assume(self.goal_of(g))
        ge = c.extra.get("ghost_entry")
        if ge:
            st.ghost.update(ge(self, st, pre))
        # vacuity: the precondition must be satisfiable
        self.oblige(st, "requires/satisfiable", z3.BoolVal(False), fi.node, kind="canary")
        entry = st.fork()
        bound["__recv__"] = recv
        def_frame = None
        if closure:
            st.frames.append(Frame(dict(closure), None, fi, "<closure>"))
            entry.frames.append(Frame(dict(closure), None, fi, "<closure>"))
            def_frame = len(st.frames) - 1
            # a nested function may call itself: its own name lives in the frame it was defined in
            st.frames[def_frame].env[fi.node.name] = FuncV(fi=fi, def_frame=def_frame)
        outs = self.run_function(fi, bound, st, cls_ctx=fi.cls, def_frame=def_frame)
        bound.pop("__recv__")
        if closure:
            for o in outs:
                o.st.frames.pop()
            bound.update(closure)
        from .views import wrap
        n_paths = 0
        for o in outs:
            n_paths += 1
            self.stats["paths"] += 1
            pid = f"p{n_paths}"
            o.st.trace.append(pid)
            oldv = self.view(entry, bound)
            newv = self.view(o.st, bound)
            if o.kind == "return":
                if c.ret is not None and (o.val is not None or isinstance(c.ret, ty.OptT)) and not isinstance(c.ret, ty.RefT):
                    o.val = self.coerce(c.ret, self.to_storable(o.val), fi.node)
                if c.extra.get("returns") is not None:
                    from .views import unwrap as _unwrap
                    spec_val = self.coerce(c.ret, _unwrap(c.extra["returns"](oldv)), fi.node)
                    for tag, g in self.value_equal_clauses(c.ret, o.val, spec_val):
                        self.oblige(o.st, f"ensures/returns.{tag}/{pid}", g, fi.node, props=tuple(c.extra.get("returns_props", ())) or self.cur_props)
                for cl in c.ensures:
                    for tag, g in self.eval_clauses(cl.fn, oldv, newv, wrap(self, o.st, o.val)):
                        nm = cl.tag if tag.startswith("#") else f"{cl.tag}.{tag}"
                        self.oblige_clause(o.st, f"ensures/{nm}/{pid}", g, fi.node, props=cl.prop_ids() or self.cur_props)
                for rs in c.raises:
                    if rs.iff:
                        cond = rs.when(oldv)
                        self.oblige(o.st, f"raises/{rs.exc}/must-raise/{pid}", dsl.Not(cond), fi.node)
                self.frame_obligations(c, entry, o.st, bound, pid, fi.node)
            elif o.kind == "raise":
                specs = [rs for rs in c.raises if self.exc_is(o.val.cls, rs.exc)]
                # a clause that names the callee the exception comes from ("origin") takes precedence over the general ones, an exact class
                # over a base class: "no StationOccupiedError out of _process_event" next to "the scheduler may raise anything"
                org = getattr(o.val, "origin", None) or ""
                by_origin = [rs for rs in specs if getattr(rs, "origin", None) and rs.origin in org]
                if by_origin:
                    specs = by_origin
                else:
                    specs = [rs for rs in specs if not getattr(rs, "origin", None)]
                    exact = [rs for rs in specs if rs.exc == o.val.cls]
                    if exact:
                        specs = exact
                if not specs:
                    self.oblige(o.st, f"raises/unexpected-{o.val.cls}@L{o.val.line}/{pid}", z3.BoolVal(False), fi.node)
                    continue
                conds = [rs.when(oldv) for rs in specs]
                self.oblige(o.st, f"raises/{o.val.cls}/only-when/{pid}", dsl.Or(*conds), fi.node)
                if all(rs.unchanged for rs in specs):
                    self.unchanged_obligations(entry, o.st, f"raises/{o.val.cls}/frame", pid, fi.node)
                for rs in specs:
                    if rs.post is not None:
                        for tag, g in self.eval_clauses(rs.post, oldv, newv):
                            self.oblige_clause(o.st, f"raises/{o.val.cls}/post/{tag}/{pid}", g, fi.node)
        if n_paths == 0:
            self.oblige(entry, "no-feasible-path", z3.BoolVal(False), fi.node)
        return self.obls[n0:]

    def value_equal_clauses(self, t, a, b):
        """observable equality of two values of type t: same shape, equal entries inside the shape"""
        if t is ty.Mat:
            i, j = z3.Int(ty.fresh_name("ei")), z3.Int(ty.fresh_name("ej"))
            return [("rows", a.rows == b.rows), ("cols", a.cols == b.cols),
                    ("entries", ty.FA([i, j], z3.Implies(z3.And(i >= 0, i < b.rows, j >= 0, j < b.cols), a.at(i, j) == b.at(i, j))))]
        if t is ty.CMat:
            return [("re." + k, g) for k, g in self.value_equal_clauses(ty.Mat, a.re, b.re)] + \
                   [("im." + k, g) for k, g in self.value_equal_clauses(ty.Mat, a.im, b.im)]
        if isinstance(t, ty.SeqT) and len(t.elem.comps()) == 1:
            i = z3.Int(ty.fresh_name("ei"))
            return [("len", a.len == b.len),
                    ("entries", ty.FA([i], z3.Implies(z3.And(i >= 0, i < b.len), ty.sel(a.arrs[0], i) == ty.sel(b.arrs[0], i))))]
        return [("value", ty.eq_values(t, a, b))]

    def unchanged_obligations(self, old: State, new: State, label, pid, node):
        for k, a in new.heap.items():
            a0 = old.heap.get(k)
            if a0 is None:
                a0 = z3.Const(f"H0:{k}", a.sort())
            if a0.eq(a):
                continue
            self.oblige(new, f"{label}/{k}/{pid}", a == a0, node)

    def frame_obligations(self, c: Contract, old: State, new: State, bound, pid, node):
        """Everything not named in `modifies` is unchanged (and for named fields, only on the listed receivers)."""
        allowed = {}
        pre = self.view(old, bound)
        for m in (c.modifies or []):
            fld, who = (m if isinstance(m, tuple) else (m, None))
            if fld in ("warnings", "alloc", "yielded", "requests"):
                allowed[fld] = "ALL"
                continue
            cls, fname = fld.split(".", 1)
            fi = self.field_info(cls, fname)
            decl, t = fi
            if who is None:
                first = next(iter(bound.values()), None)
                refs = [first] if isinstance(first, ty.ObjV) else "ALL"
            elif who == "ALL":
                refs = "ALL"
            elif who == "FRESH":
                refs = []
            else:
                from .views import unwrap
                refs = [unwrap(x) for x in who(pre)]
            for k in self.heap_keys(decl, fname, t):
                allowed[k] = refs if k not in allowed or allowed[k] != "ALL" else "ALL"
        for k, a in new.heap.items():
            a0 = old.heap.get(k)
            if a0 is None:
                a0 = z3.Const(f"H0:{k}", a.sort())
            if a0.eq(a):
                continue
            refs = allowed.get(k)
            if refs == "ALL":
                continue
            r = z3.Const(ty.fresh_name("fr"), ty.RefSort)
            cond = [z3.Select(old.alloc, r)]
            for x in (refs or []):
                if isinstance(x, tuple):
                    cond.append(z3.Not(z3.And(x[1], r == x[0].ref)))
                elif x is not None:
                    cond.append(r != x.ref)
            self.oblige(new, f"frame/{k}/{pid}", z3.Implies(z3.And(*cond), z3.Select(a, r) == z3.Select(a0, r)), node)
        if "warnings" not in allowed:
            w0, w1 = ty.to_z3num(old.warn_count), ty.to_z3num(new.warn_count)
            if not w0.eq(w1):
                self.oblige(new, f"frame/no-warning/{pid}", w1 == w0, node)


# ======================================================================= operator overloading on objects
_CMP_DUNDER = {ast.Lt: "__lt__", ast.LtE: "__le__", ast.Gt: "__gt__", ast.GtE: "__ge__"}
_BIN_DUNDER = {ast.Add: ("__add__", "__radd__"), ast.Sub: ("__sub__", "__rsub__"), ast.Mult: ("__mul__", "__rmul__"),
               ast.Div: ("__truediv__", "__rtruediv__")}


def _single_val(outs, node, what):
    vals = [o for o in outs if o.kind in ("val", "return")]
    if len(outs) != 1 or len(vals) != 1:
        raise Unsupported(f"{what}: operator method forks or raises", node)
    return vals[0].val


def ObjV_compare(ex, st, op, a, b, node):
    if not isinstance(a, ty.ObjV) and not isinstance(b, ty.ObjV):
        return None
    name = _CMP_DUNDER[type(op)]
    if isinstance(a, ty.ObjV):
        m = ex.ix.lookup_method(a.cls, name)
        if m is not None:
            return _single_val(ex.call_function(m, [a, b], {}, st, node), node, name)
    # reflected
    refl = {"__lt__": "__gt__", "__gt__": "__lt__", "__le__": "__ge__", "__ge__": "__le__"}[name]
    if isinstance(b, ty.ObjV):
        m = ex.ix.lookup_method(b.cls, refl)
        if m is not None:
            return _single_val(ex.call_function(m, [b, a], {}, st, node), node, refl)
    raise Unsupported(f"ordering comparison on objects without {name}", node)


def ObjV_eq(ex, st, a, b, node):
    m = ex.ix.lookup_method(a.cls, "__eq__")
    if m is not None:
        return _single_val(ex.call_function(m, [a, b], {}, st, node), node, "__eq__")
    return a.ref == b.ref        # default object equality is identity


def ObjV_binop(ex, st, op, a, b, node):
    if not isinstance(a, ty.ObjV) and not isinstance(b, ty.ObjV):
        return None
    names = _BIN_DUNDER.get(type(op))
    if names is None:
        raise Unsupported("operator on objects", node)
    if isinstance(a, ty.ObjV):
        m = ex.ix.lookup_method(a.cls, names[0])
        if m is not None:
            return ex.call_function(m, [a, b], {}, st, node)
    if isinstance(b, ty.ObjV):
        m = ex.ix.lookup_method(b.cls, names[1])
        if m is not None:
            return ex.call_function(m, [b, a], {}, st, node)
    raise Unsupported(f"operator {names[0]} on {a!r}, {b!r}: no method in the repository class", node)
