"""heapq model (assumed contracts on the dependency, A-LIB) and the abstraction functions the queue
contracts are written in.

A heap is the Python list `_queue` of (timestamp, event) tuples = SeqV(Tup(Int, Ref Event)) with component
arrays (ts, ref) and a length.  Abstractions:

  cnt(ref_arr, n, e)     multiplicity of event e among ref_arr[0..n)        (uninterpreted + axioms below)
  Heap(ts, ref, n, P)    "the list is a binary heap under Python's tuple order", P = the current heap array of
                         Event.precedence (so a write to any precedence invalidates the fact, soundly)
  lt(P, (t1,e1), (t2,e2)) = t1 < t2  or  (t1 == t2 and e1 != e2 and P[e1] < P[e2])
                         Python's tuple `<`: first position that differs by `==` (Event defines no __eq__, so identity),
                         then Event.__lt__, which is itself proved equal to `precedence <`.

heapq axioms (Heap(h) is an *obligation* at every call, the library does not check it):
  heappush(h, x): len' = len+1, Heap', cnt' = cnt + [x], every element of h' is x or an element of h
  heappop(h)    : IndexError iff len = 0; ret = h[0]; len' = len-1, Heap', cnt' = cnt - [ret], every element of h' is
                  an element of h
  minimum       : Heap(h) and len > 0  =>  forall i < len. not lt(h[i], h[0])
  membership    : cnt(a, n, e) > 0  <=>  exists i in [0, n). a[i] = e         (Skolem witness function)
  append        : cnt(store(a, n, x), n+1, e) = cnt(a, n, e) + [x = e]        (python list.append)
  empty         : n <= 0 => cnt = 0 ;   cnt >= 0
"""
from __future__ import annotations

import z3

from . import vtypes as ty
from .lib import _U, _out, _raise

R = ty.RefSort
ArrIR = z3.ArraySort(z3.IntSort(), R)
ArrII = z3.ArraySort(z3.IntSort(), z3.IntSort())
ArrRR = z3.ArraySort(R, z3.RealSort())

CNT = z3.Function("cnt", ArrIR, z3.IntSort(), R, z3.IntSort())
WIT = z3.Function("cnt_wit", ArrIR, z3.IntSort(), R, z3.IntSort())
HEAP = z3.Function("Heap", ArrII, ArrIR, z3.IntSort(), ArrRR, z3.BoolSort())


def lt(P, t1, e1, t2, e2):
    return z3.Or(t1 < t2, z3.And(t1 == t2, e1 != e2, z3.Select(P, e1) < z3.Select(P, e2)))


def cnt(seq: ty.SeqV, e):
    """multiplicity of reference e in a Seq(Ref) or in the event component of a Seq(Tup(Int, Ref))"""
    arr = seq.arrs[-1]
    return CNT(arr, seq.len, e)


def cnt_axioms(st, seq: ty.SeqV):
    """Ground-trigger axioms for one sequence value: non-negativity, emptiness, membership witnesses."""
    arr, n = seq.arrs[-1], seq.len
    x = z3.Const(ty.fresh_name("cx"), R)
    i = z3.Int(ty.fresh_name("ci"))
    st.assume(ty.FA([x], z3.And(CNT(arr, n, x) >= 0, z3.Implies(n <= 0, CNT(arr, n, x) == 0)), patterns=[CNT(arr, n, x)]))
    st.assume(ty.FA([x], z3.Implies(CNT(arr, n, x) > 0, z3.And(WIT(arr, n, x) >= 0, WIT(arr, n, x) < n,
                                                                 z3.Select(arr, WIT(arr, n, x)) == x)), patterns=[CNT(arr, n, x)]))
    st.assume(ty.FA([i], z3.Implies(z3.And(i >= 0, i < n), CNT(arr, n, z3.Select(arr, i)) > 0), patterns=[z3.Select(arr, i)]))


def prec_array(ex, st):
    return ex.heap_arr(st, "Event.precedence#0", z3.RealSort())


def heap_pred(ex, st, seq: ty.SeqV):
    return HEAP(seq.arrs[0], seq.arrs[1], seq.len, prec_array(ex, st))


def heap_min_axiom(ex, st, seq):
    P = prec_array(ex, st)
    i = z3.Int(ty.fresh_name("hi"))
    ts, rf, n = seq.arrs[0], seq.arrs[1], seq.len
    st.assume(z3.Implies(z3.And(heap_pred(ex, st, seq), n > 0),
                         ty.FA([i], z3.Implies(z3.And(i >= 0, i < n),
                                                   z3.Not(lt(P, z3.Select(ts, i), z3.Select(rf, i), z3.Select(ts, 0), z3.Select(rf, 0)))),
                                   patterns=[z3.Select(rf, i)])))
    st.assume(z3.Implies(n <= 0, heap_pred(ex, st, seq)))


def _is_heap_seq(v):
    return isinstance(v, ty.SeqV) and isinstance(v.elem, ty.TupT) and len(v.elem.items) == 2 and isinstance(v.elem.items[1], ty.RefT)


def _fresh_heap(h: ty.SeqV, n):
    return ty.SeqV(h.elem, [z3.Const(ty.fresh_name("heap_ts"), ArrII), z3.Const(ty.fresh_name("heap_ev"), ArrIR)], n)


def _from_old(st, new: ty.SeqV, old: ty.SeqV, extra=None):
    """every element of `new` is an element of `old` (or the pair `extra`)"""
    i = z3.Int(ty.fresh_name("fi"))
    src = z3.Function(ty.fresh_name("heap_src"), z3.IntSort(), z3.IntSort())
    same = z3.And(src(i) >= 0, src(i) < old.len, z3.Select(new.arrs[0], i) == z3.Select(old.arrs[0], src(i)),
                  z3.Select(new.arrs[1], i) == z3.Select(old.arrs[1], src(i)))
    if extra is not None:
        same = z3.Or(same, z3.And(z3.Select(new.arrs[0], i) == extra[0], z3.Select(new.arrs[1], i) == extra[1]))
    st.assume(ty.FA([i], z3.Implies(z3.And(i >= 0, i < new.len), same), patterns=[z3.Select(new.arrs[1], i)]))
    st.assume(ty.FA([i], z3.Implies(z3.And(i >= 0, i < new.len), same), patterns=[z3.Select(new.arrs[0], i)]))


def heapify(ex, st, h, node):
    """heapq.heapify(list of (timestamp, event) pairs): SOME rearrangement of the same entries that satisfies the heap property (which one is not
    specified - entries that compare equal may change places)"""
    if not _is_heap_seq(h):
        raise _U(f"heapify on {h!r}", node)
    cnt_axioms(st, h)
    new = _fresh_heap(h, h.len)
    x = z3.Const(ty.fresh_name("px"), R)
    st.assume(heap_pred(ex, st, new))
    st.assume(ty.FA([x], CNT(new.arrs[1], new.len, x) == CNT(h.arrs[1], h.len, x), patterns=[CNT(new.arrs[1], new.len, x)]))
    _from_old(st, new, h)
    cnt_axioms(st, new)
    heap_min_axiom(ex, st, new)
    return new


def heappush(ex, st, h, item, node):
    """value-semantic: returns [(new heap, None, st, None)]"""
    if not _is_heap_seq(h):
        raise _U(f"heappush on {h!r}", node)
    ts, e = item
    ts = ty.to_z3num(ts)
    if not isinstance(e, ty.ObjV):
        raise _U("heappush of a non-object", node)
    ex.safety(st, "heap-invariant(heappush)", heap_pred(ex, st, h), node)
    cnt_axioms(st, h)
    new = _fresh_heap(h, h.len + 1)
    x = z3.Const(ty.fresh_name("px"), R)
    st.assume(heap_pred(ex, st, new))
    st.assume(ty.FA([x], CNT(new.arrs[1], new.len, x) == CNT(h.arrs[1], h.len, x) + z3.If(x == e.ref, 1, 0),
                        patterns=[CNT(new.arrs[1], new.len, x)]))
    st.assume(CNT(new.arrs[1], new.len, e.ref) == CNT(h.arrs[1], h.len, e.ref) + 1)
    _from_old(st, new, h, extra=(ts, e.ref))
    cnt_axioms(st, new)
    heap_min_axiom(ex, st, new)
    return new


def heappop(ex, st, h, node):
    """-> list of (new heap, return value, state, exception)"""
    from .symex import ExcV
    if not _is_heap_seq(h):
        raise _U(f"heappop on {h!r}", node)
    out = []
    for taken, s2 in ex.branch(st, h.len > 0, f"heap-nonempty@L{getattr(node, 'lineno', 0)}"):
        if not taken:
            out.append((h, None, s2, ExcV("IndexError", getattr(node, "lineno", 0))))
            continue
        ex.safety(s2, "heap-invariant(heappop)", heap_pred(ex, s2, h), node)
        cnt_axioms(s2, h)
        heap_min_axiom(ex, s2, h)
        new = _fresh_heap(h, h.len - 1)
        top = h.at(z3.IntVal(0))
        x = z3.Const(ty.fresh_name("px"), R)
        s2.assume(heap_pred(ex, s2, new))
        s2.assume(ty.FA([x], CNT(new.arrs[1], new.len, x) == CNT(h.arrs[1], h.len, x) - z3.If(x == top[1].ref, 1, 0),
                            patterns=[CNT(new.arrs[1], new.len, x)]))
        s2.assume(CNT(new.arrs[1], new.len, top[1].ref) == CNT(h.arrs[1], h.len, top[1].ref) - 1)
        _from_old(s2, new, h)
        cnt_axioms(s2, new)
        heap_min_axiom(ex, s2, new)
        ex.assume_wf(s2, h.elem.items[1], top[1])
        out.append((new, top, s2, None))
    return out


def append_axiom(st, old: ty.SeqV, new: ty.SeqV, e):
    """python list.append on a Seq(Ref): cnt of the extended list."""
    x = z3.Const(ty.fresh_name("ax"), R)
    st.assume(ty.FA([x], CNT(new.arrs[-1], new.len, x) == CNT(old.arrs[-1], old.len, x) + z3.If(x == e, 1, 0),
                        patterns=[CNT(new.arrs[-1], new.len, x)]))
    st.assume(CNT(new.arrs[-1], new.len, e) == CNT(old.arrs[-1], old.len, e) + 1)
