"""Library model: Python builtins and the numpy / heapq / warnings / copy operations that the
verified functions use.  Every entry here is an *assumed contract on a dependency* (A-LIB);
pyvc/xcheck.py runs each of them against the real library on generated inputs at every run.
"""
from __future__ import annotations

import ast
from fractions import Fraction

import z3

from . import vtypes as ty
from . import dsl
from .state import PyList, PyDict, PySet


def _U(msg, node=None):
    from .symex import Unsupported
    return Unsupported(msg, node)


def _out(v, st):
    from .symex import Out
    return [Out("val", v, st)]


def _raise(cls, st, node):
    from .symex import Out, ExcV
    return Out("raise", ExcV(cls, getattr(node, "lineno", 0)), st)


# ============================================================================ theory axioms
def collect_apps(exprs, decl_name):
    seen, out, stack = set(), [], list(exprs)
    while stack:
        e = stack.pop()
        if not isinstance(e, z3.ExprRef):
            continue
        i = e.get_id()
        if i in seen:
            continue
        seen.add(i)
        if z3.is_app(e):
            if e.decl().name() == decl_name and e.num_args() >= 1:
                out.append(e)
            stack.extend(e.children())
        elif z3.is_quantifier(e):
            stack.append(e.body())
    return out


def theory_axioms(formulas):
    """Instantiate the exp axioms at every argument that occurs (no quantifier is handed to the solver)."""
    ax = []
    apps = collect_apps(formulas, "exp")
    args = []
    for a in apps:
        x = a.arg(0)
        args.append(x)
        ex = dsl.EXP(x)
        ax.append(ex > 0)
        ax.append(z3.Implies(x <= 0, ex <= 1))
        ax.append(z3.Implies(x < 0, ex < 1))
        ax.append(z3.Implies(x > 0, ex > 1))
        ax.append(z3.Implies(x >= 0, ex >= 1))
        ax.append(ex >= 1 + x)
        ax.append(z3.Implies(x == 0, ex == 1))
    for i in range(len(args)):
        for j in range(i + 1, len(args)):
            x, y = args[i], args[j]
            ax.append(z3.Implies(x <= y, dsl.EXP(x) <= dsl.EXP(y)))
            ax.append(z3.Implies(y <= x, dsl.EXP(y) <= dsl.EXP(x)))
    ax.extend(ty.id_axioms())
    ax.extend(cnt_unfold_axioms(formulas))
    ax.extend(bag_heap_axioms(formulas))
    ax.extend(inf_axioms(formulas))
    ax.extend(sum_axioms(formulas))
    from .cplx import cabs_axioms
    ax.extend(cabs_axioms(formulas))
    ax.extend(chain_axioms(formulas))
    return ax


def chain_axioms(formulas):
    """defining equations of the paged result set (srv_chain / srv_urls, see contracts/dataclient.py), instantiated at the ground URLs that occur"""
    apps = collect_apps(formulas, "srv_chain") + collect_apps(formulas, "srv_urls")
    if not apps:
        return []
    from .weblib import SRV_ITEMS, SRV_HASNEXT, SRV_HREF, RefSeq, StrSeq
    out, seen = [], set()
    # prefix lemma of the sequence theory (the solver finds it only slowly): s[0:k+1] = s[0:k] ++ [s[k]] for 0 <= k < |s|
    stack, vis = [f for f in formulas if isinstance(f, z3.ExprRef)], set()
    while stack:
        t = stack.pop()
        if t.get_id() in vis:
            continue
        vis.add(t.get_id())
        if z3.is_quantifier(t):
            continue
        if z3.is_app(t):
            if t.decl().kind() == z3.Z3_OP_SEQ_EXTRACT and _is_ground(t) and z3.is_int_value(z3.simplify(t.arg(1))) and z3.simplify(t.arg(1)).as_long() == 0:
                sq, k = t.arg(0), t.arg(2)
                out.append(z3.Implies(z3.And(k >= 0, k < z3.Length(sq)), z3.Extract(sq, 0, k + 1) == z3.Concat(t, z3.Unit(sq[k]))))
                out.append(z3.Implies(k == z3.Length(sq), t == sq))
                out.append(z3.Implies(k == 0, z3.Length(t) == 0))
            stack.extend(t.children())
    for a in apps:
        b, u = a.arg(0), a.arg(1)
        key = (a.decl().name(), b.get_id(), u.get_id())
        if key in seen or not (_is_ground(b) and _is_ground(u)):
            continue
        seen.add(key)
        f = a.decl()
        nxt = z3.Concat(b, SRV_HREF(u))
        if a.decl().name() == "srv_chain":
            out.append(a == z3.Concat(SRV_ITEMS(u), z3.If(SRV_HASNEXT(u), f(b, nxt), z3.Empty(RefSeq))))
        else:
            out.append(a == z3.Concat(z3.Unit(u), z3.If(SRV_HASNEXT(u), f(b, nxt), z3.Empty(StrSeq))))
    return out


def sum_axioms(formulas):
    """Sum(a, n) = a[0] + .. + a[n-1]: Sum(a, n) = 0 for n <= 0; unfolding Sum(a, k+1) = Sum(a, k) + a[k] for the ground terms whose
    length is syntactically k+1 (and for small numeral lengths)."""
    from .nplib import SUM
    out = []
    for app in collect_apps(formulas, "Sum"):
        a, n = app.arg(0), app.arg(1)
        if not (_is_ground(a) and _is_ground(n)):
            continue
        out.append(z3.Implies(n <= 0, app == 0))
        nn = z3.simplify(n)
        if z3.is_int_value(nn) and 0 < nn.as_long() <= 12:
            out.append(app == sum((z3.Select(a, k) for k in range(nn.as_long())), z3.RealVal(0)))
        elif z3.is_add(n) and n.num_args() == 2:
            c0, c1 = n.arg(0), n.arg(1)
            k = c1 if z3.is_int_value(c0) and c0.as_long() == 1 else c0 if z3.is_int_value(c1) and c1.as_long() == 1 else None
            if k is not None:
                out.append(z3.Implies(k >= 0, app == SUM(a, k) + z3.Select(a, k)))
    # congruence: equal summands on [0, n) give equal sums (the antecedent is a quantified hypothesis the solver has to establish)
    apps = [x for x in collect_apps(formulas, "Sum") if _is_ground(x.arg(0)) and _is_ground(x.arg(1))]
    done = set()
    for x in apps:
        for y in apps:
            if x.get_id() >= y.get_id() or (x.get_id(), y.get_id()) in done or x.arg(0).get_id() == y.arg(0).get_id():
                continue
            done.add((x.get_id(), y.get_id()))
            i = z3.Int("sc!ax")
            same = ty.FA([i], z3.Implies(z3.And(i >= 0, i < x.arg(1)), z3.Select(x.arg(0), i) == z3.Select(y.arg(0), i)))
            out.append(z3.Implies(z3.And(x.arg(1) == y.arg(1), same), x == y))
    return out


def inf_axioms(formulas):
    return [ty.INF > z3.RealVal("1" + "0" * 30)]


def bag_heap_axioms(formulas):
    """The (quantified, pattern-guarded) axioms of cnt and Heap for every ground (array, length) pair that occurs."""
    from . import heaplib as H
    out, seen = [], set()
    for app in collect_apps(formulas, "cnt"):
        a, n = app.arg(0), app.arg(1)
        key = (a.get_id(), n.get_id())
        if key in seen or not (_is_ground(a) and _is_ground(n)):
            continue
        seen.add(key)
        x = z3.Const("cx!ax", H.R)
        i = z3.Int("ci!ax")
        out.append(ty.FA([x], z3.And(H.CNT(a, n, x) >= 0, z3.Implies(n <= 0, H.CNT(a, n, x) == 0)), patterns=[H.CNT(a, n, x)]))
        out.append(ty.FA([x], z3.Implies(H.CNT(a, n, x) > 0, z3.And(H.WIT(a, n, x) >= 0, H.WIT(a, n, x) < n,
                                                                         z3.Select(a, H.WIT(a, n, x)) == x)), patterns=[H.CNT(a, n, x)]))
        out.append(ty.FA([i], z3.Implies(z3.And(i >= 0, i < n), H.CNT(a, n, z3.Select(a, i)) > 0), patterns=[z3.Select(a, i)]))
    for app in collect_apps(formulas, "Heap"):
        ts, rf, n, P = app.arg(0), app.arg(1), app.arg(2), app.arg(3)
        key = ("H", app.get_id())
        if key in seen or not all(_is_ground(t) for t in (ts, rf, n, P)):
            continue
        seen.add(key)
        i = z3.Int("hi!ax")
        out.append(z3.Implies(z3.And(app, n > 0),
                              ty.FA([i], z3.Implies(z3.And(i >= 0, i < n),
                                                        z3.Not(H.lt(P, z3.Select(ts, i), z3.Select(rf, i), z3.Select(ts, 0), z3.Select(rf, 0)))),
                                        patterns=[z3.Select(rf, i)])))
        out.append(z3.Implies(n <= 0, app))
    # frame: Heap depends on the precedence array only at the members of the list
    heaps = [a for a in collect_apps(formulas, "Heap") if all(_is_ground(a.arg(k)) for k in range(4))]
    done = set()
    for a in heaps:
        for b in heaps:
            if a.get_id() >= b.get_id() or (a.get_id(), b.get_id()) in done:
                continue
            if all(a.arg(k).get_id() == b.arg(k).get_id() for k in range(3)) and a.arg(3).get_id() != b.arg(3).get_id():
                done.add((a.get_id(), b.get_id()))
                i = z3.Int("hf!ax")
                rf, n = a.arg(1), a.arg(2)
                same = ty.FA([i], z3.Implies(z3.And(i >= 0, i < n),
                                                 z3.Select(a.arg(3), z3.Select(rf, i)) == z3.Select(b.arg(3), z3.Select(rf, i))))
                out.append(z3.Implies(same, a == b))
    return out


def cnt_unfold_axioms(formulas):
    """cnt(a, n, x) is defined by recursion on n: cnt(a, k+1, x) = cnt(a, k, x) + [a[k] = x] for k >= 0.  Instantiated for the
    cnt terms whose length argument is syntactically k+1 (no quantifier is handed to the solver)."""
    out = []
    for app in collect_apps(formulas, "cnt"):
        a, n, x = app.arg(0), app.arg(1), app.arg(2)
        if z3.is_add(n) and n.num_args() == 2:
            c0, c1 = n.arg(0), n.arg(1)
            k = c1 if z3.is_int_value(c0) and c0.as_long() == 1 else c0 if z3.is_int_value(c1) and c1.as_long() == 1 else None
            if k is not None and not z3.is_quantifier(k) and _is_ground(k) and _is_ground(a):
                from .heaplib import CNT, R
                if _is_ground(x):
                    out.append(z3.Implies(k >= 0, app == CNT(a, k, x) + z3.If(z3.Select(a, k) == x, 1, 0)))
                else:
                    y = z3.Const("cu!ax", R)
                    out.append(ty.FA([y], z3.Implies(k >= 0, CNT(a, n, y) == CNT(a, k, y) + z3.If(z3.Select(a, k) == y, 1, 0)),
                                         patterns=[CNT(a, n, y)]))
    return out


def _is_ground(e):
    """no free (de Bruijn) variable: variables bound by a quantifier / lambda *inside* e do not count"""
    seen, stack = set(), [(e, 0)]
    while stack:
        t, depth = stack.pop()
        key = (t.get_id(), depth)
        if key in seen:
            continue
        seen.add(key)
        if z3.is_var(t):
            if z3.get_var_index(t) >= depth:
                return False
        elif z3.is_quantifier(t):
            stack.append((t.body(), depth + t.num_vars()))
        elif z3.is_app(t):
            stack.extend((c, depth) for c in t.children())
    return True


# ============================================================================ arithmetic
def _isnum(v):
    return ty.is_num_const(v) or (ty.is_z3(v) and (z3.is_int(v) or z3.is_real(v)))


def _num(ex, st, v, node):
    """Numeric view of a value; an Optional scalar is checked non-None (safety)."""
    if isinstance(v, bool):
        return int(v)
    if isinstance(v, ty.OptV):
        ex.safety(st, "none-as-number", z3.Not(v.isnone), node)
        return v.val
    if v is None:
        ex.safety(st, "none-as-number", False, node)
        return 0
    if isinstance(v, float):
        if v in (float("inf"), float("-inf")):
            raise _U("arithmetic on infinity", node)
        return Fraction(repr(v))
    if ty.is_z3(v) and z3.is_bool(v):
        return z3.If(v, z3.IntVal(1), z3.IntVal(0))
    if _isnum(v):
        return v
    raise _U(f"not a number: {v!r}", node)


def _both(a, b):
    a, b = ty.to_z3num(a), ty.to_z3num(b)
    if z3.is_int(a) != z3.is_int(b):
        a, b = ty.to_real(a), ty.to_real(b)
    return a, b


def neg(ex, st, v, node):
    from . import cplx
    if isinstance(v, cplx.CplxV):
        return cplx.CplxV(-v.re if not cplx.is_zero(v.re) else v.re, -v.im if not cplx.is_zero(v.im) else v.im)
    if isinstance(v, ty.MatV) or isinstance(v, ty.SeqV):
        return seq_map(ex, st, v, lambda x: -x, node)
    v = _num(ex, st, v, node)
    return -v


def binop(ex, st, op, a, b, node):
    # sequences / strings / lists first
    if isinstance(op, ast.Add) and isinstance(a, PyList) and isinstance(b, PyList):
        return _out(PyList(a.items + b.items), st)
    from . import weblib
    if isinstance(op, ast.Add) and (weblib.is_str(a) and weblib.is_str(b)) and not (isinstance(a, str) and isinstance(b, str)):
        return _out(weblib.concat(a, b), st)
    if isinstance(op, ast.Add) and ty.is_z3(a) and a.sort() == ty.IdSort and isinstance(b, str):
        return _out(id_concat(ex, st, a, b, node), st)
    if isinstance(op, ast.Add) and isinstance(a, ty.OptV) and ty.is_z3(a.val) and a.val.sort() == ty.IdSort and isinstance(b, str):
        ex.safety(st, "none-in-string-concatenation", z3.Not(a.isnone), node)
        return _out(id_concat(ex, st, a.val, b, node), st)
    if isinstance(op, ast.Add) and isinstance(a, (str, ty.OpaqueV)) and isinstance(b, (str, ty.OpaqueV)):
        if isinstance(a, str) and isinstance(b, str):
            return _out(a + b, st)
        return _out(ty.OpaqueV("str"), st)
    if isinstance(op, ast.Mult) and isinstance(a, PyList) and isinstance(b, int):
        return _out(PyList(a.items * b), st)
    if isinstance(op, ast.Mult) and isinstance(a, PyList) and ty.is_z3(b):
        if len(a.items) != 1:
            raise _U("list * symbolic int", node)
        item = a.items[0]
        t = ty.type_of(item)
        if t is None and (ty.is_num_const(item) or isinstance(item, float)):
            t = ty.Real                       # [0] * n, [float("inf")] * n: a constant real vector
            item = ex.coerce(ty.Real, item, node)
        (c,) = ty.pack(t, item)
        return _out(ty.SeqV(t, [z3.K(z3.IntSort(), c)], z3.If(b >= 0, b, 0)), st)
    if isinstance(op, ast.Mod) and isinstance(a, (str, ty.OpaqueV)):
        return _out(ty.OpaqueV("str"), st)
    from . import cplx
    if isinstance(op, ast.MatMult) or cplx.is_cplx(a) or cplx.is_cplx(b):
        r = cplx.binop(ex, st, op, a, b, node)
        if r is not None:
            return _out(r, st)
    if isinstance(a, (ty.SeqV, ty.MatV)) or isinstance(b, (ty.SeqV, ty.MatV)):
        return _out(array_binop(ex, st, op, a, b, node), st)
    from . import timelib
    if isinstance(a, timelib.TimedeltaV) or isinstance(b, timelib.TimedeltaV):
        return _out(timelib.binop(ex, st, op, a, b, node), st)
    from .symex import ObjV_binop
    r = ObjV_binop(ex, st, op, a, b, node)
    if r is not None:
        return r
    a = _num(ex, st, a, node)
    b = _num(ex, st, b, node)
    return _out(scalar_binop(ex, st, op, a, b, node), st)


def scalar_binop(ex, st, op, a, b, node):
    conc = ty.is_num_const(a) and ty.is_num_const(b)
    if isinstance(op, ast.Add):
        return a + b if conc else (lambda x, y: x + y)(*_both(a, b))
    if isinstance(op, ast.Sub):
        return a - b if conc else (lambda x, y: x - y)(*_both(a, b))
    if isinstance(op, ast.Mult):
        return a * b if conc else (lambda x, y: x * y)(*_both(a, b))
    if isinstance(op, ast.Div):
        if conc:
            if b == 0:
                ex.safety(st, "div-by-zero", False, node)
                return Fraction(0)
            return Fraction(a) / Fraction(b)
        x, y = ty.to_real(a), ty.to_real(b)
        ex.safety(st, "div-by-zero", y != 0, node)
        return x / y
    if isinstance(op, ast.FloorDiv):
        if conc:
            if b == 0:
                ex.safety(st, "div-by-zero", False, node)
                return 0
            return a // b
        x, y = _both(a, b)
        ex.safety(st, "div-by-zero", y != 0, node)
        if z3.is_int(x):
            # python floor division == z3 div for positive divisor
            return z3.If(y > 0, x / y, -((-x) / (-y)) if False else z3.If(x % y == 0, x / y, (x / y)))
        return z3.ToReal(z3.ToInt(x / y))
    if isinstance(op, ast.Mod):
        if conc:
            return a % b
        x, y = _both(a, b)
        if not z3.is_int(x):
            raise _U("real modulo", node)
        ex.safety(st, "div-by-zero", y != 0, node)
        ex.safety(st, "mod-positive-divisor (encoding)", y > 0, node)
        return x % y
    if isinstance(op, ast.Pow):
        if conc:
            return a ** b
        if isinstance(b, int) and 0 <= b <= 4:
            x = ty.to_z3num(a)
            r = ty.to_z3num(1)
            for _ in range(b):
                r, x2 = _both(r, x)
                r = r * x2
            return r
        raise _U("symbolic power", node)
    raise _U(f"binary operator {op.__class__.__name__}", node)


def compare(ex, st, op, a, b, node):
    """-> python bool or z3 Bool"""
    if isinstance(op, (ast.Is, ast.IsNot)):
        r = is_same(ex, st, a, b, node)
        return negate(r) if isinstance(op, ast.IsNot) else r
    if isinstance(op, (ast.In, ast.NotIn)):
        r = contains(ex, st, b, a, node)
        return negate(r) if isinstance(op, ast.NotIn) else r
    if isinstance(op, (ast.Eq, ast.NotEq)):
        r = equals(ex, st, a, b, node)
        return negate(r) if isinstance(op, ast.NotEq) else r
    # ordering
    if isinstance(a, tuple) and isinstance(b, tuple):
        return tuple_order(ex, st, op, a, b, node)
    if isinstance(a, str) and isinstance(b, str):
        return {ast.Lt: a < b, ast.LtE: a <= b, ast.Gt: a > b, ast.GtE: a >= b}[type(op)]
    if isinstance(a, (ty.SeqV, ty.MatV)) or isinstance(b, (ty.SeqV, ty.MatV)):
        raise _U("elementwise comparison in scalar context", node)
    from .symex import ObjV_compare
    r = ObjV_compare(ex, st, op, a, b, node)
    if r is not None:
        return r
    if isinstance(a, float) or isinstance(b, float):
        return inf_compare(ex, st, op, a, b, node)
    a = _num(ex, st, a, node)
    b = _num(ex, st, b, node)
    if ty.is_num_const(a) and ty.is_num_const(b):
        return {ast.Lt: a < b, ast.LtE: a <= b, ast.Gt: a > b, ast.GtE: a >= b}[type(op)]
    x, y = _both(a, b)
    return {ast.Lt: x < y, ast.LtE: x <= y, ast.Gt: x > y, ast.GtE: x >= y}[type(op)]


def inf_compare(ex, st, op, a, b, node):
    INF = float("inf")
    fa, fb = isinstance(a, float), isinstance(b, float)
    if fa and a == INF and not fb:
        return isinstance(op, (ast.Gt, ast.GtE))
    if fb and b == INF and not fa:
        return isinstance(op, (ast.Lt, ast.LtE))
    if fa and a == -INF and not fb:
        return isinstance(op, (ast.Lt, ast.LtE))
    if fb and b == -INF and not fa:
        return isinstance(op, (ast.Gt, ast.GtE))
    if fa and fb:
        return {ast.Lt: a < b, ast.LtE: a <= b, ast.Gt: a > b, ast.GtE: a >= b}[type(op)]
    # a finite python float against a symbolic number: the float as an exact rational
    from fractions import Fraction
    import math
    if (fa and math.isfinite(a)) or (fb and math.isfinite(b)):
        a2 = Fraction(a) if fa else _num(ex, st, a, node)
        b2 = Fraction(b) if fb else _num(ex, st, b, node)
        x, y = _both(a2, b2)
        return {ast.Lt: x < y, ast.LtE: x <= y, ast.Gt: x > y, ast.GtE: x >= y}[type(op)]
    raise _U("comparison with float constant", node)


def tuple_order(ex, st, op, a, b, node):
    """Lexicographic order on equal-length tuples of numbers."""
    if len(a) != len(b):
        raise _U("tuple comparison of different lengths", node)
    strict = isinstance(op, (ast.Lt, ast.Gt))
    less = isinstance(op, (ast.Lt, ast.LtE))
    res = (not strict)
    for x, y in reversed(list(zip(a, b))):
        lt = compare(ex, st, ast.Lt() if less else ast.Gt(), x, y, node)
        eq = equals(ex, st, x, y, node)
        if isinstance(lt, bool) and isinstance(eq, bool) and isinstance(res, bool):
            res = lt or (eq and res)
        else:
            res = z3.Or(ty.to_bool(lt), z3.And(ty.to_bool(eq), ty.to_bool(res)))
    return res


def negate(r):
    return (not r) if isinstance(r, bool) else z3.Not(r)


def is_same(ex, st, a, b, node):
    if b is None:
        a, b = b, a
    if a is None:
        if b is None:
            return True
        if isinstance(b, ty.OptV):
            return b.isnone
        if isinstance(b, ty.ObjV):
            return b.ref == ty.NULL if b.nullable else False
        return False
    if isinstance(a, ty.ObjV) and isinstance(b, ty.ObjV):
        return a.ref == b.ref
    if isinstance(a, bool) and isinstance(b, bool):
        return a is b
    raise _U(f"`is` on {a!r}, {b!r}", node)


def equals(ex, st, a, b, node):
    if a is None or b is None:
        return is_same(ex, st, a, b, node)
    from . import weblib
    if (ty.is_z3(a) and a.sort() == weblib.S) or (ty.is_z3(b) and b.sort() == weblib.S):
        if weblib.is_str(a) and weblib.is_str(b):
            return weblib.to_str(a) == weblib.to_str(b)
        return False
    if isinstance(a, str) and isinstance(b, str):
        return a == b
    if isinstance(a, str) and ty.is_z3(b) and b.sort() == ty.IdSort:
        return ty.id_const(a) == b
    if isinstance(b, str) and ty.is_z3(a) and a.sort() == ty.IdSort:
        return a == ty.id_const(b)
    if ty.is_z3(a) and ty.is_z3(b) and a.sort() == ty.IdSort and b.sort() == ty.IdSort:
        return a == b
    if isinstance(a, str) != isinstance(b, str) and (isinstance(a, str) or isinstance(b, str)):
        other = b if isinstance(a, str) else a
        if _isnum(other) or isinstance(other, bool):
            return False
    if isinstance(a, ty.ObjV) and isinstance(b, ty.ObjV):
        from .symex import ObjV_eq
        r = ObjV_eq(ex, st, a, b, node)
        return r
    if isinstance(a, tuple) and isinstance(b, tuple):
        if len(a) != len(b):
            return False
        rs = [equals(ex, st, x, y, node) for x, y in zip(a, b)]
        if all(isinstance(r, bool) for r in rs):
            return all(rs)
        return z3.And(*[ty.to_bool(r) for r in rs])
    if isinstance(a, ty.OptV) or isinstance(b, ty.OptV):
        oa = a if isinstance(a, ty.OptV) else ty.OptV(z3.BoolVal(False), a, None)
        ob = b if isinstance(b, ty.OptV) else ty.OptV(z3.BoolVal(False), b, None)
        inner = equals(ex, st, oa.val, ob.val, node)
        return z3.Or(z3.And(oa.isnone, ob.isnone), z3.And(z3.Not(oa.isnone), z3.Not(ob.isnone), ty.to_bool(inner)))
    if isinstance(a, bool) and isinstance(b, bool):
        return a == b
    if (isinstance(a, bool) or (ty.is_z3(a) and z3.is_bool(a))) and (isinstance(b, bool) or (ty.is_z3(b) and z3.is_bool(b))):
        return ty.to_bool(a) == ty.to_bool(b)
    if isinstance(a, float) or isinstance(b, float):
        if isinstance(a, float) and isinstance(b, float):
            return a == b
        return False     # a finite number is never equal to +-inf
    if _isnum(a) and _isnum(b):
        if ty.is_num_const(a) and ty.is_num_const(b):
            return a == b
        x, y = _both(a, b)
        return x == y
    if isinstance(a, PyList) and isinstance(b, PyList):
        if len(a.items) != len(b.items):
            return False
        rs = [equals(ex, st, x, y, node) for x, y in zip(a.items, b.items)]
        return all(rs) if all(isinstance(r, bool) for r in rs) else z3.And(*[ty.to_bool(r) for r in rs])
    raise _U(f"== on {a!r}, {b!r}", node)


def contains(ex, st, cont, x, node):
    from . import weblib
    if isinstance(cont, weblib.ResponseV):
        r = weblib.web_contains(ex, st, cont, x, node)
        if r is not None:
            return r
        raise _U(f"`in` on an HTTP payload ({x!r})", node)
    if isinstance(cont, (PyList, PySet, list, tuple, frozenset, set)):
        items = cont.items if isinstance(cont, (PyList, PySet)) else list(cont)
        rs = [equals(ex, st, x, y, node) for y in items]
        if all(isinstance(r, bool) for r in rs):
            return any(rs)
        return z3.Or(*[ty.to_bool(r) for r in rs])
    if isinstance(cont, PyDict):
        rs = [equals(ex, st, x, y, node) for y in cont.d.keys()]
        if all(isinstance(r, bool) for r in rs):
            return any(rs)
        return z3.Or(*[ty.to_bool(r) for r in rs])
    if isinstance(cont, ty.MapV):
        if isinstance(x, ty.OptV) and not isinstance(cont.key, ty.OptT):
            return z3.And(z3.Not(x.isnone), cont.has(ex.coerce(cont.key, x.val, node)))
        if x is None:
            return False
        return cont.has(ex.coerce(cont.key, x, node))
    if isinstance(cont, ty.SeqV):
        return seq_contains(ex, st, cont, x, node)
    from . import pdlib
    if isinstance(cont, pdlib.FrameV):
        return z3.Select(cont.hascol, ex.coerce(ty.Id, x, node))
    if isinstance(cont, ty.OptV):
        return z3.And(z3.Not(cont.isnone), ty.to_bool(contains(ex, st, cont.val, x, node)))
    raise _U(f"`in` on {cont!r}", node)


def seq_contains(ex, st, seq, x, node):
    if isinstance(x, ty.OptV) and not isinstance(seq.elem, ty.OptT):
        return z3.And(z3.Not(x.isnone), seq_contains(ex, st, seq, x.val, node))
    xs = ty.pack(seq.elem, ex.to_storable(x))
    i = z3.Int(ty.fresh_name("mi"))
    return z3.Exists([i], z3.And(i >= 0, i < seq.len, *[z3.Select(a, i) == c for a, c in zip(seq.arrs, xs)]))


# ============================================================================ sequences
def as_seq(ex, st, v, node):
    from . import nplib as _np
    if isinstance(v, _np.MaskedV):
        return v.to_seq(ex, st)
    if isinstance(v, ty.OptV):
        ex.safety(st, "none-iterated", z3.Not(v.isnone), node)
        return as_seq(ex, st, v.val, node)
    if isinstance(v, ty.SeqV):
        return v
    if isinstance(v, ty.MapV) and v.keys is not None:
        return v.keys
    if isinstance(v, SymRange):
        return v.as_seq()
    if isinstance(v, Enumerated):
        return v.as_seq()
    if isinstance(v, ty.MatV):
        from . import cplx
        return cplx.mat_rows_seq(v)
    from . import pdlib
    if isinstance(v, pdlib.FrameV):
        return v.cols
    if isinstance(v, pdlib.SeriesV) or pdlib.is_series(ex, v):
        # iterating a Series yields its values
        m = pdlib.series_map(ex, st, v, node)
        from . import maplib
        if m.keys is None:
            m = ty.MapV(m.key, m.val, m.dom, m.arrs, pdlib.enumerate_domain(ex, st, m.dom))
        return maplib.values_seq(m)
    if isinstance(v, SymSet):
        # iterating a set (also list(set(...))): SOME enumeration of its members - each member exactly once, in an order the language leaves unspecified
        # (for strings it changes with the interpreter's hash seed).  One enumeration per set value and state.
        cache = st.ghost.setdefault("__setenum__", {})
        key = v.mem.get_id()
        if key not in cache:
            esort = v.mem.sort().domain()
            arr = z3.Const(ty.fresh_name("setenum"), z3.ArraySort(z3.IntSort(), esort))
            n = z3.Int(ty.fresh_name("setenum_n"))
            pos = z3.Function(ty.fresh_name("setenum_pos"), esort, z3.IntSort())
            i, j = z3.Int(ty.fresh_name("ei")), z3.Int(ty.fresh_name("ej"))
            x = z3.Const(ty.fresh_name("ex"), esort)
            st.assume(n >= 0)
            st.assume(ty.FA([i], z3.Implies(z3.And(i >= 0, i < n), z3.And(z3.Select(v.mem, z3.Select(arr, i)), pos(z3.Select(arr, i)) == i)), patterns=[z3.Select(arr, i)]))
            st.assume(ty.FA([x], z3.Implies(z3.Select(v.mem, x), z3.And(pos(x) >= 0, pos(x) < n, z3.Select(arr, pos(x)) == x)), patterns=[z3.Select(v.mem, x)]))
            cache[key] = ty.SeqV(v.elem, [arr], n)
        return cache[key]
    raise _U(f"iteration over {v!r}", node)


class SymRange:
    """range(lo, hi) with symbolic bounds."""

    def __init__(self, lo, hi):
        self.lo, self.hi = ty.to_z3num(lo), ty.to_z3num(hi)

    def as_seq(self):
        i = z3.Int(ty.fresh_name("ri"))
        n = self.hi - self.lo
        return ty.SeqV(ty.Int, [z3.Lambda([i], i + self.lo)], z3.If(n >= 0, n, 0))


class Enumerated:
    def __init__(self, seq: ty.SeqV, start=0):
        self.seq, self.start = seq, start

    def as_seq(self):
        i = z3.Int(ty.fresh_name("ei"))
        return ty.SeqV(ty.Tup(ty.Int, self.seq.elem), [z3.Lambda([i], i + self.start)] + list(self.seq.arrs), self.seq.len)


def seq_map(ex, st, v, f, node):
    if isinstance(v, ty.SeqV):
        i = z3.Int(ty.fresh_name("mi"))
        (a,) = v.arrs
        return ty.SeqV(v.elem, [z3.Lambda([i], f(z3.Select(a, i)))], v.len)
    if isinstance(v, ty.MatV):
        i, j = z3.Int(ty.fresh_name("mi")), z3.Int(ty.fresh_name("mj"))
        return ty.MatV(z3.Lambda([i], z3.Lambda([j], f(v.at(i, j)))), v.rows, v.cols)
    raise _U("seq_map", node)


def array_binop(ex, st, op, a, b, node):
    from . import nplib
    return nplib.array_binop(ex, st, op, a, b, node)


def get_item(ex, st, cont, idx, node):
    from . import nplib as _np
    from . import weblib
    if isinstance(cont, weblib.ResponseV):
        r = weblib.web_getitem(ex, st, cont, idx, node)
        if r is not None:
            return r
        raise _U(f"subscript {idx!r} of an HTTP payload", node)
    if isinstance(cont, _np.MaskedV):
        cont = cont.to_seq(ex, st)
    if isinstance(cont, PyList) or isinstance(cont, (list, tuple)):
        items = cont.items if isinstance(cont, PyList) else list(cont)
        if isinstance(idx, slice):
            if all(x is None or isinstance(x, int) for x in (idx.start, idx.stop, idx.step)):
                r = items[idx]
                return _out(PyList(r) if isinstance(cont, (PyList, list)) else tuple(r), st)
            raise _U("symbolic slice of concrete list", node)
        if isinstance(idx, int):
            if not (-len(items) <= idx < len(items)):
                ex.safety(st, "index", False, node)
                return [_raise("IndexError", st, node)]
            return _out(items[idx], st)
        if ty.is_z3(idx):
            # symbolic index into a concrete list: case split (small lists only)
            if len(items) > 16:
                raise _U("symbolic index into long concrete list", node)
            ex.safety(st, "index", z3.And(idx >= -len(items), idx < len(items)), node)
            res = []
            for k, it in enumerate(items):
                for taken, s2 in ex.branch(st.fork(), z3.Or(idx == k, idx == k - len(items)), f"idx{k}"):
                    if taken:
                        res.extend(_out(it, s2))
            return res
        raise _U(f"index {idx!r}", node)
    if isinstance(cont, PyDict):
        k = ex.dict_key(idx, node)
        if k not in cont.d:
            return [_raise("KeyError", st, node)]
        return _out(cont.d[k], st)
    if isinstance(cont, ty.SeqV):
        if isinstance(idx, slice):
            from . import nplib
            return _out(nplib.seq_slice(ex, st, cont, idx, node), st)
        if isinstance(idx, (ty.SeqV,)):
            from . import nplib
            return _out(nplib.seq_fancy(ex, st, cont, idx, node), st)
        i = ty.to_z3num(_num(ex, st, idx, node))
        if z3.is_int_value(i) and i.as_long() < 0:
            i = cont.len + i
        ex.safety(st, "index", z3.And(i >= 0, i < cont.len), node)
        v = cont.at(i)
        ex.assume_wf(st, cont.elem, v)
        return _out(v, st)
    if isinstance(cont, ty.MapV):
        if isinstance(idx, ty.OptV) and not isinstance(cont.key, ty.OptT):
            res = []
            for taken, s2 in ex.branch(st, idx.isnone, f"nonekey@L{getattr(node, 'lineno', 0)}"):
                if taken:
                    res.append(_raise("KeyError", s2, node))
                else:
                    res.extend(get_item(ex, s2, cont, idx.val, node))
            return res
        k = ex.coerce(cont.key, idx, node)
        res = []
        for taken, s2 in ex.branch(st, cont.has(k), f"key@L{getattr(node, 'lineno', 0)}"):
            if taken:
                v = cont.at(k)
                ex.assume_wf(s2, cont.val, v)
                res.extend(_out(v, s2))
            else:
                res.append(_raise("KeyError", s2, node))
        return res
    if isinstance(cont, ty.MatV):
        from . import nplib, cplx
        if isinstance(idx, ty.SeqV) and idx.elem is ty.Int:
            return _out(cplx.rows_by_index(ex, st, cont, idx, node), st)
        if isinstance(idx, tuple) and len(idx) == 2 and isinstance(idx[0], slice) and idx[0].start is None and idx[0].stop is None \
                and isinstance(idx[1], ty.SeqV) and idx[1].elem is ty.Int:
            return _out(cplx.cols_by_index(ex, st, cont, idx[1], node), st)
        if isinstance(idx, tuple) and len(idx) == 2 and isinstance(idx[1], ty.OptV):
            ex.safety(st, "none-as-index", z3.Not(idx[1].isnone), node)
            return get_item(ex, st, cont, (idx[0], idx[1].val), node)
        return nplib.mat_getitem(ex, st, cont, idx, node)
    if isinstance(cont, ty.OptV):
        ex.safety(st, "none-subscript", z3.Not(cont.isnone), node)
        return get_item(ex, st, cont.val, idx, node)
    raise _U(f"subscript of {cont!r}", node)


def map_store(ex, st, m: ty.MapV, k, v, node):
    kk = ex.coerce(m.key, k, node)
    (kc,) = ty.pack(m.key, kk)
    vc = ty.pack(m.val, ex.to_storable(v))
    keys = m.keys
    if keys is not None:
        # insertion order: a new key is appended, an existing key keeps its place
        had = m.has(kk)
        keys = ty.SeqV(keys.elem, [z3.If(had, keys.arrs[0], z3.Store(keys.arrs[0], keys.len, kc))],
                       z3.If(had, keys.len, keys.len + 1))
    new = ty.MapV(m.key, m.val, z3.Store(m.dom, kc, z3.BoolVal(True)),
                  [z3.Store(a, kc, c) for a, c in zip(m.arrs, vc)], keys)
    from . import maplib
    maplib.assume_map_wf(st, new)
    return new


def mat_store(ex, st, m, idx, v, node):
    from . import nplib
    return nplib.mat_store(ex, st, m, idx, v, node)


def del_item(ex, st, cont, idx, node):
    if isinstance(cont, PyDict):
        k = ex.dict_key(idx, node)
        if k not in cont.d:
            raise _U("del of missing key", node)
        del cont.d[k]
        return None
    if isinstance(cont, ty.MapV):
        if isinstance(idx, ty.OptV) and not isinstance(cont.key, ty.OptT):
            ex.safety(st, "del-none-key", z3.Not(idx.isnone), node)
            idx = idx.val
        kk = ex.coerce(cont.key, idx, node)
        (kc,) = ty.pack(cont.key, kk)
        ex.safety(st, "del-missing-key", cont.has(kk), node)
        keys = cont.keys
        if keys is not None:
            keys = seq_remove_value(ex, st, keys, kc)
        new = ty.MapV(cont.key, cont.val, z3.Store(cont.dom, kc, z3.BoolVal(False)), cont.arrs, keys)
        from . import maplib
        maplib.assume_map_wf(st, new)
        return new
    raise _U(f"del on {cont!r}", node)


def seq_remove_value(ex, st, seq: ty.SeqV, c):
    """Remove the first occurrence of c (assumed present) from a single-component sequence."""
    (a,) = seq.arrs
    p = z3.Int(ty.fresh_name("rmpos"))
    st.assume(z3.And(p >= 0, p < seq.len, z3.Select(a, p) == c))
    j = z3.Int(ty.fresh_name("j"))
    st.assume(ty.FA([j], z3.Implies(z3.And(j >= 0, j < p), z3.Select(a, j) != c)))
    i = z3.Int(ty.fresh_name("i"))
    return ty.SeqV(seq.elem, [z3.Lambda([i], z3.If(i < p, z3.Select(a, i), z3.Select(a, i + 1)))], seq.len - 1)


# ============================================================================ attributes of non-object values
def value_attr(ex, st, v, attr, node):
    from .symex import Intrinsic
    from . import pdlib
    if isinstance(v, (pdlib.FrameV, pdlib.ToFrameV)):
        r = pdlib.frame_attr(ex, st, v, attr, node)
        if r is not None:
            return r
    if attr in ("tolist", "item") and (ty.is_z3(v) or isinstance(v, (int, bool, Fraction))):
        # a numpy scalar (one entry of an array): .tolist() / .item() is the python value itself
        return _out(Intrinsic("numpy_scalar." + attr, lambda ex_, st_, recv, a, k, n: _out(recv, st_), recv=v), st)
    meths = VALUE_METHODS.get(type(v).__name__, {})
    if attr in meths:
        return _out(Intrinsic(f"{type(v).__name__}.{attr}", meths[attr], recv=v), st)
    if isinstance(v, ty.MatV) and attr == "shape":
        return _out((v.rows, v.cols), st)
    if isinstance(v, ty.MatV) and attr == "T":
        from . import nplib
        return _out(nplib.transpose(v), st)
    if isinstance(v, ty.CMatV) and attr == "T":
        from . import cplx
        return _out(cplx.ctranspose(v), st)
    if isinstance(v, ty.CMatV) and attr == "shape":
        return _out((v.re.rows, v.re.cols), st)
    if isinstance(v, ty.MatV) and attr == "astype":
        from . import cplx
        return _out(Intrinsic("ndarray.astype", cplx.astype, recv=v), st)
    if isinstance(v, ty.OptV) and isinstance(v.val, (ty.MatV, ty.SeqV)):
        ex.safety(st, "none-deref", z3.Not(v.isnone), node)
        return value_attr(ex, st, v.val, attr, node)
    if isinstance(v, ty.SeqV) and attr == "T":
        return _out(v, st)
    if isinstance(v, ty.SeqV) and attr == "shape":
        return _out((v.len,), st)
    if isinstance(v, (ty.SeqV, ty.MatV)) and attr in ("sum", "dot"):
        from . import nplib
        return _out(Intrinsic("ndarray." + attr, nplib.nd_sum if attr == "sum" else nplib.nd_dot, recv=v), st)
    if isinstance(v, ty.SeqV) and attr == "dtype":
        return _out({"Bool": "bool", "Int": "int64", "Real": "float64"}.get(repr(v.elem), "object"), st)
    if isinstance(v, str) and attr == "format":
        return _out(Intrinsic("str.format", str_format, recv=v), st)
    if isinstance(v, str) and attr == "join":
        return _out(Intrinsic("str.join", str_join, recv=v), st)
    from . import weblib
    if isinstance(v, weblib.ResponseV):
        r = weblib.web_attr(ex, st, v, attr, node)
        if r is not None:
            return r
    if isinstance(v, (str, ty.OpaqueV)) and attr in ("format", "join", "split"):
        return _out(Intrinsic("str." + attr, lambda ex_, st_, recv, a, k, n: _out(ty.OpaqueV("str"), st_), recv=v), st)
    raise _U(f"attribute .{attr} of {v!r}", node)


_FMT = {}


def str_join(ex, st, recv, args, kwargs, node):
    from . import weblib
    items = _items_of(ex, st, args[0], node)
    if items is None or not all(weblib.is_str(x) for x in items):
        return _out(ty.OpaqueV("str"), st)
    if all(isinstance(x, str) for x in items):
        return _out(recv.join(items), st)
    parts = []
    for k, x in enumerate(items):
        if k:
            parts.append(recv)
        parts.append(x)
    return _out(weblib.concat(*parts), st)


def str_format(ex, st, recv, args, kwargs, node):
    from . import weblib
    args = list(args)
    for k_, a_ in enumerate(args):
        if isinstance(a_, ty.OptV) and ty.is_z3(a_.val) and a_.val.sort() == weblib.S:
            ex.safety(st, "none-formatted-into-a-url", z3.Not(a_.isnone), node)     # "where=None" would be sent to the server
            args[k_] = a_.val
    for k_, a_ in enumerate(args):
        if isinstance(a_, ty.OptV) and ty.is_z3(a_.val) and z3.is_real(a_.val):
            ex.safety(st, "none-formatted-into-a-query", z3.Not(a_.isnone), node)
            args[k_] = a_.val
    if len(args) == 1 and not kwargs and isinstance(recv, str) and ty.is_z3(args[0]) and z3.is_real(args[0]):
        return _out(weblib.fmt(recv, args), st)          # "... {0}".format(x) for a real x: the text around str(x) (an unspecified function of x)
    if args and not kwargs and any(ty.is_z3(a) and a.sort() == weblib.S for a in args) or (args and isinstance(recv, str) and recv.endswith("={0}") and all(isinstance(a, int) or weblib.is_str(a) for a in args)):
        if all(isinstance(a, (int, str)) and not ty.is_z3(a) for a in args):
            return _out(recv.format(*args), st)
        return _out(weblib.fmt(recv, args), st)
    """"<template>".format(n) with one integer argument: an identifier that is an injective function of n (one function per template);
    any other use yields an opaque string"""
    if len(args) == 1 and not kwargs and (isinstance(args[0], int) or (ty.is_z3(args[0]) and z3.is_int(args[0]))):
        f = _FMT.setdefault(recv, z3.Function(f"fmt[{recv}]", z3.IntSort(), ty.IdSort))
        return _out(f(ty.to_z3num(args[0])), st)
    return _out(ty.OpaqueV("str"), st)


_SUFFIX = {}


def id_concat(ex, st, a, b, node):
    """identifier + "literal suffix": an identifier that is a function of the prefix (one uninterpreted function per suffix)"""
    f = _SUFFIX.setdefault(b, z3.Function(f"suffix[{b}]", ty.IdSort, ty.IdSort))
    return f(a)


def obj_attr(ex, st, obj, attr, node):
    """Attributes of library objects that are modelled as schema objects (A-LIB):
    datetime: `.timestamp()` is the real number stored in the ghost field `theta` (seconds since the epoch)."""
    from .symex import Intrinsic
    if obj.cls == "Current" or ex.ix.is_subclass(obj.cls, "Current"):
        from . import pdlib
        r = pdlib.current_attr(ex, st, obj, attr, node)
        if r is not None:
            return r
    if obj.cls == "datetime":
        from . import timelib
        r = timelib.datetime_attr(ex, st, obj, attr, node)
        if r is not None:
            return r
    if obj.cls == "datetime" and attr == "timestamp":
        return _out(Intrinsic("datetime.timestamp", lambda ex_, st_, recv, a, k, n: _out(ex_.read_field(st_, recv, "theta", n), st_), recv=obj), st)
    return None


def module_attr(ex, full, node):
    from .symex import Intrinsic
    if full == "pandas.Series":
        return PyTypeV("Series")
    if full == "pandas.__version__":
        import pandas            # the version of the library this check runs against (the code branches on it)
        return pandas.__version__
    if full in MODULE_FUNCS:
        return Intrinsic(full, MODULE_FUNCS[full])
    if full in MODULE_CONSTS:
        return MODULE_CONSTS[full]
    from .symex import ModuleV
    if full in ("numpy.random", "numpy.linalg", "os.path"):
        return ModuleV(full)
    raise _U(f"library name {full} has no model", node)


def construct_external(ex, st, cv, args, kwargs, node):
    return None


# ============================================================================ builtins
def builtin(name):
    from .symex import Intrinsic, ClassV
    if name in BUILTINS:
        return Intrinsic(name, BUILTINS[name])
    if name in ("ValueError", "TypeError", "KeyError", "IndexError", "Exception", "NotImplementedError",
                "AttributeError", "UserWarning", "DeprecationWarning", "RuntimeError", "StopIteration"):
        return ClassV(name)
    if name in ("True", "False", "None"):
        return {"True": True, "False": False, "None": None}[name]
    return None


def b_print(ex, st, args, kwargs, node):
    return _out(None, st)


def b_len(ex, st, args, kwargs, node):
    (v,) = args
    from . import nplib as _np
    if isinstance(v, _np.MaskedV):
        v = v.to_seq(ex, st)
    if isinstance(v, (PyList, PySet)):
        return _out(len(v.items), st)
    if isinstance(v, PyDict):
        return _out(len(v.d), st)
    if isinstance(v, (list, tuple, str)):
        return _out(len(v), st)
    if isinstance(v, ty.SeqV):
        return _out(v.len, st)
    if isinstance(v, ty.MapV):
        if v.keys is not None:
            return _out(v.keys.len, st)
        raise _U("len of unordered symbolic map", node)
    if isinstance(v, ty.MatV):
        return _out(v.rows, st)
    if isinstance(v, SymSet):
        return _out(symset_card(ex, st, v, node), st)
    from . import pdlib
    if isinstance(v, pdlib.FrameV):
        return _out(v.index.len, st)
    if isinstance(v, ty.ObjV):
        m = ex.ix.lookup_method(v.cls, "__len__")
        if m is not None:
            return ex.call_function(m, [v], {}, st, node)
    raise _U(f"len of {v!r}", node)


def _items_of(ex, st, v, node):
    if isinstance(v, (PyList, PySet)):
        return list(v.items)
    if isinstance(v, (list, tuple)):
        return list(v)
    if isinstance(v, GenV) and v.items is not None:
        return list(v.items)
    return None


def b_min(ex, st, args, kwargs, node):
    return _minmax(ex, st, args, kwargs, node, True)


def b_max(ex, st, args, kwargs, node):
    return _minmax(ex, st, args, kwargs, node, False)


def _minmax(ex, st, args, kwargs, node, is_min):
    if "key" in kwargs:
        from . import seqlib
        return seqlib.minmax_key(ex, st, args, kwargs, node, is_min)
    if len(args) == 1:
        items = _items_of(ex, st, args[0], node)
        if items is None:
            from . import seqlib
            return seqlib.minmax_seq(ex, st, args[0], node, is_min)
    else:
        items = list(args)
    if not items:
        return [_raise("ValueError", st, node)]
    vals = [_num(ex, st, x, node) if not isinstance(x, float) else x for x in items]
    if any(isinstance(v, float) for v in vals):
        # +-inf never wins a min (resp. max) against finite values
        fin = [v for v in vals if not isinstance(v, float)]
        INF = float("inf")
        if is_min and all(v == INF for v in vals if isinstance(v, float)) and fin:
            vals = fin
        elif (not is_min) and all(v == -INF for v in vals if isinstance(v, float)) and fin:
            vals = fin
        elif not fin:
            return _out(min(vals) if is_min else max(vals), st)
        else:
            return _out(-INF if is_min else INF, st)
    if all(ty.is_num_const(v) for v in vals):
        return _out(min(vals) if is_min else max(vals), st)
    return _out(dsl.Min(*vals) if is_min else dsl.Max(*vals), st)


def b_abs(ex, st, args, kwargs, node):
    (v,) = args
    if isinstance(v, (ty.SeqV, ty.MatV)):
        return _out(seq_map(ex, st, v, lambda x: z3.If(x >= 0, x, -x), node), st)
    v = _num(ex, st, v, node)
    if ty.is_num_const(v):
        return _out(abs(v), st)
    return _out(z3.If(v >= 0, v, -v), st)


def b_int(ex, st, args, kwargs, node):
    (v,) = args
    v = _num(ex, st, v, node)
    if ty.is_num_const(v):
        return _out(int(v), st)
    if z3.is_int(v):
        return _out(v, st)
    # truncation toward zero
    return _out(z3.If(v >= 0, z3.ToInt(v), -z3.ToInt(-v)), st)


def b_float(ex, st, args, kwargs, node):
    (v,) = args
    if isinstance(v, str):
        if v in ("inf", "+inf", "Infinity"):
            return _out(float("inf"), st)
        if v in ("-inf", "-Infinity"):
            return _out(float("-inf"), st)
        return _out(Fraction(v), st)
    v = _num(ex, st, v, node)
    if ty.is_num_const(v):
        return _out(Fraction(v), st)
    return _out(ty.to_real(v), st)


def b_bool(ex, st, args, kwargs, node):
    (v,) = args
    return _out(ex.truth(v, st, node), st)


def b_isinstance(ex, st, args, kwargs, node):
    from .symex import ClassV
    v, c = args
    classes = list(c) if isinstance(c, tuple) else [c]
    names = []
    for k in classes:
        if isinstance(k, ClassV):
            names.append(k.name)
        elif isinstance(k, PyTypeV):
            names.append(k.name)
        elif k.__class__.__name__ == "Intrinsic" and k.name in ("dict", "str", "list", "int", "float", "tuple", "bool", "set"):
            names.append(k.name)
        else:
            raise _U(f"isinstance against {k!r}", node)
    r = False
    for n in names:
        r = r or _isinstance1(ex, st, v, n, node)
    return _out(r, st)


class PyTypeV:
    def __init__(self, name):
        self.name = name


def _isinstance1(ex, st, v, n, node):
    if n == "Series":
        from . import pdlib
        return pdlib.is_series(ex, v)
    if n == "dict":
        return isinstance(v, (PyDict, ty.MapV))
    if n == "str":
        return isinstance(v, str) or (ty.is_z3(v) and v.sort() == ty.IdSort)
    if n in ("list",):
        return isinstance(v, (PyList,)) or (isinstance(v, ty.SeqV))
    if n in ("int",):
        return (isinstance(v, int) and not isinstance(v, bool)) or (ty.is_z3(v) and z3.is_int(v))
    if n in ("float",):
        return isinstance(v, (Fraction, float)) or (ty.is_z3(v) and z3.is_real(v))
    if isinstance(v, ty.ObjV):
        if ex.ix.is_subclass(v.cls, n) or ex.reg.is_subclass(v.cls, n):
            return True
        if v.exact:
            return False
        if ex.ix.is_subclass(n, v.cls):
            raise _U(f"isinstance({v.cls}, {n}) needs dynamic class information", node)
        return False
    return False


def b_range(ex, st, args, kwargs, node):
    vals = [_num(ex, st, a, node) for a in args]
    if all(isinstance(v, int) for v in vals):
        return _out(range(*vals), st)
    if len(vals) == 1:
        return _out(SymRange(0, vals[0]), st)
    if len(vals) == 2:
        return _out(SymRange(vals[0], vals[1]), st)
    raise _U("range with symbolic step", node)


def b_enumerate(ex, st, args, kwargs, node):
    v = args[0]
    start = args[1] if len(args) > 1 else kwargs.get("start", 0)
    items = _items_of(ex, st, v, node)
    if items is not None:
        return _out(PyList([(i + start, x) for i, x in enumerate(items)]), st)
    if isinstance(v, PyDict):
        return _out(PyList([(i + start, k) for i, k in enumerate(v.d.keys())]), st)
    return _out(Enumerated(as_seq(ex, st, v, node), start), st)


def b_zip(ex, st, args, kwargs, node):
    lists = [_items_of(ex, st, a, node) for a in args]
    if any(l is None for l in lists):
        raise _U("zip of symbolic sequences", node)
    return _out(PyList([tuple(t) for t in zip(*lists)]), st)


def b_list(ex, st, args, kwargs, node):
    if not args:
        return _out(PyList([]), st)
    (v,) = args
    items = _items_of(ex, st, v, node)
    if items is not None:
        return _out(PyList(items), st)
    if isinstance(v, PyDict):
        return _out(PyList(list(v.d.keys())), st)
    if isinstance(v, range):
        return _out(PyList(list(v)), st)
    if isinstance(v, (ty.SeqV, SymRange, Enumerated)):
        s = as_seq(ex, st, v, node)
        return _out(ty.SeqV(s.elem, s.arrs, s.len), st)
    if isinstance(v, ty.MapV) and v.keys is not None:
        return _out(v.keys, st)
    if isinstance(v, GenV):
        return _out(v.seq, st)
    if isinstance(v, SymSet):
        return _out(v, st)          # a list in unspecified order: only sorted()/membership are modelled on it
    raise _U(f"list({v!r})", node)


def b_tuple(ex, st, args, kwargs, node):
    if not args:
        return _out((), st)
    items = _items_of(ex, st, args[0], node)
    if items is None:
        raise _U("tuple of symbolic", node)
    return _out(tuple(items), st)


def b_set(ex, st, args, kwargs, node):
    if not args:
        return _out(PySet([]), st)
    (v,) = args
    items = _items_of(ex, st, v, node)
    if items is not None:
        out = []
        for x in items:
            r = contains(ex, st, PyList(out), x, node)
            if isinstance(r, bool):
                if not r:
                    out.append(x)
            else:
                raise _U("set() of symbolic elements", node)
        return _out(PySet(out), st)
    from . import seqlib
    return seqlib.set_of(ex, st, v, node)


def b_dict(ex, st, args, kwargs, node):
    if not args and not kwargs:
        return _out(PyDict({}), st)
    raise _U("dict(...) constructor", node)


def b_sum(ex, st, args, kwargs, node):
    v = args[0]
    items = _items_of(ex, st, v, node)
    if items is not None:
        acc = args[1] if len(args) > 1 else 0
        for x in items:
            acc = scalar_binop(ex, st, ast.Add(), _num(ex, st, acc, node), _num(ex, st, x, node), node)
        return _out(acc, st)
    from . import seqlib
    return seqlib.sum_seq(ex, st, v, args[1] if len(args) > 1 else 0, node)


def b_any(ex, st, args, kwargs, node):
    return _anyall(ex, st, args, node, True)


def b_all(ex, st, args, kwargs, node):
    return _anyall(ex, st, args, node, False)


def _anyall(ex, st, args, node, is_any):
    (v,) = args
    from . import cplx
    if isinstance(v, cplx.BMatV):
        return _out(cplx.np_all_bmat(ex, st, v, is_any), st)
    if isinstance(v, bool) or (ty.is_z3(v) and z3.is_bool(v)):
        return _out(v, st)              # np.all / np.any of a scalar boolean
    items = _items_of(ex, st, v, node)
    if items is not None:
        ts = [ex.truth(x, st, node) for x in items]
        if all(isinstance(t, bool) for t in ts):
            return _out(any(ts) if is_any else all(ts), st)
        ts = [ty.to_bool(t) for t in ts]
        return _out(z3.Or(*ts) if is_any else z3.And(*ts), st)
    if isinstance(v, GenV):
        v = v.seq
    if isinstance(v, ty.SeqV) and v.elem is ty.Bool:
        i = z3.Int(ty.fresh_name("qi"))
        body = z3.simplify(ty.sel(v.arrs[0], i))
        if z3.is_false(body):            # the same constant for every element: no quantifier needed
            return _out(False if is_any else v.len <= 0, st)
        if z3.is_true(body):
            return _out(v.len > 0 if is_any else True, st)
        rng = z3.And(i >= 0, i < v.len)
        return _out(z3.Exists([i], z3.And(rng, body)) if is_any else ty.FA([i], z3.Implies(rng, body)), st)
    raise _U("any/all of symbolic", node)


def b_sorted(ex, st, args, kwargs, node):
    from . import seqlib
    return seqlib.sorted_(ex, st, args, kwargs, node)


def b_getattr(ex, st, args, kwargs, node):
    obj, name = args[0], args[1]
    if not isinstance(name, str):
        raise _U("getattr with symbolic name", node)
    return ex.get_attr(obj, name, st, node)


def b_setattr(ex, st, args, kwargs, node):
    obj, name, val = args
    if not isinstance(name, str):
        raise _U("setattr with symbolic name", node)
    return [type(o)("val", None, o.st) if o.kind == "next" else o for o in ex.set_attr(obj, name, val, st, node)]


def b_str(ex, st, args, kwargs, node):
    return _out(ty.OpaqueV("str"), st)


def b_id(ex, st, args, kwargs, node):
    (v,) = args
    if isinstance(v, ty.ObjV):
        return _out(v.ref, st)
    raise _U("id()", node)


def b_type(ex, st, args, kwargs, node):
    raise _U("type()", node)


BUILTINS = dict(print=b_print, len=b_len, min=b_min, max=b_max, abs=b_abs, int=b_int, float=b_float, bool=b_bool,
                isinstance=b_isinstance, range=b_range, enumerate=b_enumerate, zip=b_zip, list=b_list, tuple=b_tuple,
                set=b_set, dict=b_dict, sum=b_sum, any=b_any, all=b_all, sorted=b_sorted, getattr=b_getattr,
                setattr=b_setattr, str=b_str, id=b_id, type=b_type)


class GenV:
    """Result of a generator expression: either concrete items or a symbolic sequence."""

    def __init__(self, items=None, seq=None):
        self.items, self.seq = items, seq


# ============================================================================ comprehensions
def comprehension(ex, st, e, kind):
    from . import seqlib
    return seqlib.comprehension(ex, st, e, kind)


# ============================================================================ methods on values
def pl_append(ex, st, recv, args, kwargs, node):
    recv.items.append(args[0])
    return _out(None, st)


def pl_extend(ex, st, recv, args, kwargs, node):
    items = _items_of(ex, st, args[0], node)
    if items is None:
        if isinstance(args[0], range):
            items = list(args[0])
        else:
            raise _U("extend with symbolic iterable", node)
    recv.items.extend(items)
    return _out(None, st)


def pl_copy(ex, st, recv, args, kwargs, node):
    return _out(PyList(list(recv.items)), st)


def pl_index(ex, st, recv, args, kwargs, node):
    for i, x in enumerate(recv.items):
        r = equals(ex, st, x, args[0], node)
        if isinstance(r, bool):
            if r:
                return _out(i, st)
        else:
            raise _U("list.index on symbolic", node)
    return [_raise("ValueError", st, node)]


def pl_sort(ex, st, recv, args, kwargs, node):
    if kwargs or not all(ty.is_num_const(x) or isinstance(x, (str, tuple)) for x in recv.items):
        raise _U("list.sort on symbolic", node)
    recv.items.sort()
    return _out(None, st)


def pl_pop(ex, st, recv, args, kwargs, node):
    if not recv.items:
        return [_raise("IndexError", st, node)]
    i = args[0] if args else -1
    if not isinstance(i, int):
        raise _U("pop symbolic index", node)
    return _out(recv.items.pop(i), st)


def ps_add(ex, st, recv, args, kwargs, node):
    r = contains(ex, st, recv, args[0], node)
    if isinstance(r, bool):
        if not r:
            recv.items.append(args[0])
        return _out(None, st)
    raise _U("set.add symbolic", node)


def ps_pop(ex, st, recv, args, kwargs, node):
    if not recv.items:
        return [_raise("KeyError", st, node)]
    if len(recv.items) == 1:
        return _out(recv.items.pop(), st)
    raise _U("set.pop on a set with more than one element (order unspecified)", node)


def pd_get(ex, st, recv, args, kwargs, node):
    k = ex.dict_key(args[0], node)
    return _out(recv.d.get(k, args[1] if len(args) > 1 else None), st)


def pd_keys(ex, st, recv, args, kwargs, node):
    return _out(PyList(list(recv.d.keys())), st)


def pd_values(ex, st, recv, args, kwargs, node):
    return _out(PyList(list(recv.d.values())), st)


def pd_items(ex, st, recv, args, kwargs, node):
    return _out(PyList([(k, v) for k, v in recv.d.items()]), st)


def sv_copy(ex, st, recv, args, kwargs, node):
    return _out(ty.SeqV(recv.elem, recv.arrs, recv.len), st)


def sv_tolist(ex, st, recv, args, kwargs, node):
    return _out(ty.SeqV(recv.elem, recv.arrs, recv.len), st)


def sv_index(ex, st, recv, args, kwargs, node):
    """list.index(x): the first position holding x; ValueError when absent"""
    xs = ty.pack(recv.elem, ex.coerce(recv.elem, args[0], node))
    res = []
    for taken, s2 in ex.branch(st, seq_contains(ex, st, recv, args[0], node), f"present@L{getattr(node, 'lineno', 0)}"):
        if not taken:
            res.append(_raise("ValueError", s2, node))
            continue
        p = z3.Int(ty.fresh_name("idx"))
        j = z3.Int(ty.fresh_name("j"))
        same = lambda i: z3.And(*[ty.sel(a, i) == c for a, c in zip(recv.arrs, xs)])
        s2.assume(z3.And(p >= 0, p < recv.len, same(p)))
        s2.assume(ty.FA([j], z3.Implies(z3.And(j >= 0, j < p), z3.Not(same(j)))))
        res.extend(_out(p, s2))
    return res


def sv_append(ex, st, recv, args, kwargs, node):
    raise _U("append on a symbolic sequence must go through a name (handled in expr_Call)", node)


def _mv(name):
    def f(ex, st, recv, args, kwargs, node):
        from . import maplib
        return getattr(maplib, "mv_" + name)(ex, st, recv, args, kwargs, node)
    return f


VALUE_METHODS = {
    "MapV": dict(keys=_mv("keys"), values=_mv("values"), items=_mv("items"), get=_mv("get")),
    "PyList": dict(append=pl_append, extend=pl_extend, copy=pl_copy, index=pl_index, sort=pl_sort, pop=pl_pop),
    "PySet": dict(add=ps_add, pop=ps_pop),
    "PyDict": dict(get=pd_get, keys=pd_keys, values=pd_values, items=pd_items),
    "SeqV": dict(copy=sv_copy, tolist=sv_tolist, index=sv_index),
}


# ============================================================================ modules
def m_warn(ex, st, args, kwargs, node):
    st.warn_count = st.warn_count + 1 if isinstance(st.warn_count, int) else st.warn_count + 1
    st.ghost.setdefault("__warn_lines__", []).append(getattr(node, "lineno", 0)) if isinstance(st.ghost.get("__warn_lines__", []), list) else None
    return _out(None, st)


def m_np_exp(ex, st, args, kwargs, node):
    (v,) = args
    from . import cplx
    if cplx.is_cplx(v):
        return _out(cplx.np_exp_complex(ex, st, v, node), st)
    v = _num(ex, st, v, node)
    if ty.is_num_const(v) and v == 0:
        return _out(Fraction(1), st)
    return _out(dsl.EXP(ty.to_real(v)), st)


def m_np_random_normal(ex, st, args, kwargs, node):
    r = z3.Real(ty.fresh_name("normal"))
    st.ghost.setdefault("__random__", PyList()).items.append(r)
    return _out(r, st)


def m_random_choice(ex, st, args, kwargs, node):
    """random.choice(seq): some element of the sequence (every choice is covered); IndexError on an empty sequence"""
    (v,) = args
    items = _items_of(ex, st, v, node)
    if items is not None:
        v = ex.coerce(ty.type_of(ex.to_storable(PyList(items))), PyList(items), node)
    if not isinstance(v, ty.SeqV):
        raise _U(f"random.choice of {v!r}", node)
    res = []
    for taken, s2 in ex.branch(st, v.len > 0, f"nonempty@L{getattr(node, 'lineno', 0)}"):
        if not taken:
            res.append(_raise("IndexError", s2, node))
            continue
        w = z3.Int(ty.fresh_name("choice"))
        s2.assume(z3.And(w >= 0, w < v.len))
        s2.ghost.setdefault("__random__", PyList()).items.append(w)
        r = v.at(w)
        ex.assume_wf(s2, v.elem, r)
        res.extend(_out(r, s2))
    return res


def m_np_isclose(ex, st, args, kwargs, node):
    a, b = args[0], args[1]
    atol = kwargs.get("atol", Fraction("1e-8"))
    rtol = kwargs.get("rtol", Fraction("1e-5"))

    def close(x, y):
        x, y = ty.to_real(_num(ex, st, x, node)), ty.to_real(_num(ex, st, y, node))
        d = x - y
        ad = z3.If(d >= 0, d, -d)
        ay = z3.If(y >= 0, y, -y)
        return ad <= ty.to_real(atol) + ty.to_real(rtol) * ay
    if isinstance(b, ty.SeqV):
        i = z3.Int(ty.fresh_name("ci"))
        return _out(ty.SeqV(ty.Bool, [z3.Lambda([i], close(a, z3.Select(b.arrs[0], i)))], b.len), st)
    if isinstance(b, PyList):
        return _out(PyList([close(a, y) for y in b.items]), st)
    return _out(close(a, b), st)


def m_np_any(ex, st, args, kwargs, node):
    return _anyall(ex, st, args[:1], node, True)


def m_np_all(ex, st, args, kwargs, node):
    return _anyall(ex, st, args[:1], node, False)


def m_np_isscalar(ex, st, args, kwargs, node):
    (v,) = args
    return _out(_isnum(v) or isinstance(v, (bool, str, float)), st)


def m_np_minimum(ex, st, args, kwargs, node):
    return _np_minmax(ex, st, args, node, True)


def m_np_maximum(ex, st, args, kwargs, node):
    return _np_minmax(ex, st, args, node, False)


def _np_minmax(ex, st, args, node, is_min):
    a, b = args
    INF = float("inf")
    for x, y in ((a, b), (b, a)):
        # an infinite bound never wins a minimum (resp. a minus-infinite one a maximum)
        if isinstance(y, float) and ((is_min and y == INF) or ((not is_min) and y == -INF)) and not isinstance(x, float):
            return _out(x, st)
    if isinstance(a, (ty.SeqV, ty.MatV)) or isinstance(b, (ty.SeqV, ty.MatV)):
        from . import nplib
        return _out(nplib.elementwise2(ex, st, a, b, (lambda x, y: z3.If(x <= y, x, y)) if is_min else (lambda x, y: z3.If(x >= y, x, y)), node), st)
    return _minmax(ex, st, [a, b], {}, node, is_min)


def m_np_abs(ex, st, args, kwargs, node):
    from . import cplx
    if cplx.is_cplx(args[0]):
        return _out(cplx.np_abs_complex(ex, st, args[0], node), st)
    return b_abs(ex, st, args, kwargs, node)


def m_copy(ex, st, args, kwargs, node):
    (v,) = args
    if isinstance(v, ty.SeqV):
        return _out(ty.SeqV(v.elem, v.arrs, v.len), st)
    if isinstance(v, ty.MatV):
        return _out(ty.MatV(v.arr, v.rows, v.cols), st)
    if isinstance(v, PyList):
        return _out(PyList(list(v.items)), st)
    if isinstance(v, PyDict):
        return _out(PyDict(dict(v.d)), st)
    if isinstance(v, ty.ObjV):
        return _out(m_copy_obj(ex, st, v, node), st)
    raise _U(f"copy.copy of {v!r}", node)


def m_np_clip(ex, st, args, kwargs, node):
    v = args[0]
    lo = args[1] if len(args) > 1 else kwargs.get("a_min")
    hi = args[2] if len(args) > 2 else kwargs.get("a_max")
    if isinstance(v, (ty.SeqV, ty.MatV)):
        lo_, hi_ = ty.to_real(_num(ex, st, lo, node)), ty.to_real(_num(ex, st, hi, node))
        return _out(seq_map(ex, st, v, lambda x: z3.If(x < lo_, lo_, z3.If(x > hi_, hi_, x)), node), st)
    x = ty.to_real(_num(ex, st, v, node))
    lo_, hi_ = ty.to_real(_num(ex, st, lo, node)), ty.to_real(_num(ex, st, hi, node))
    # numpy: minimum(maximum(x, lo), hi)
    return _out(z3.If(z3.If(x < lo_, lo_, x) > hi_, hi_, z3.If(x < lo_, lo_, x)), st)


def m_math_ceil(ex, st, args, kwargs, node):
    v = _num(ex, st, args[0], node)
    if ty.is_num_const(v):
        import math
        return _out(math.ceil(v), st)
    if z3.is_int(v):
        return _out(v, st)
    return _out(-z3.ToInt(-v), st)


def m_np_array(ex, st, args, kwargs, node):
    """np.array of a python list of scalars: kept as the list (1-D); nested lists / matrices are handled in nplib"""
    v = args[0]
    if isinstance(v, PyList) and all(_isnum(x) or isinstance(x, bool) for x in v.items):
        return _out(PyList(list(v.items)), st)
    from . import nplib
    return nplib.np_array(ex, st, args, kwargs, node)


def _nplib(name):
    def f(ex, st, args, kwargs, node):
        from . import nplib
        return getattr(nplib, name)(ex, st, args, kwargs, node)
    return f


MODULE_FUNCS = {
    "numpy.array": m_np_array,
    "numpy.zeros": _nplib("np_zeros"),
    "numpy.sum": _nplib("np_sum"),
    "numpy.tile": _nplib("np_tile"),
    "numpy.argmax": _nplib("np_argmax"),
    "numpy.unravel_index": _nplib("np_unravel_index"),
    "warnings.warn": m_warn,
    "numpy.exp": m_np_exp,
    "numpy.random.normal": m_np_random_normal,
    "numpy.isclose": m_np_isclose,
    "numpy.any": m_np_any,
    "numpy.all": m_np_all,
    "numpy.isscalar": m_np_isscalar,
    "numpy.minimum": m_np_minimum,
    "numpy.maximum": m_np_maximum,
    "numpy.abs": m_np_abs,
    "numpy.clip": m_np_clip,
    "copy.copy": m_copy,
    "math.ceil": m_math_ceil,
    "random.choice": m_random_choice,
    "requests.get": lambda ex, st, a, k, n: __import__("pyvc.weblib", fromlist=["x"]).requests_get(ex, st, a, k, n),
    "requests.head": lambda ex, st, a, k, n: __import__("pyvc.weblib", fromlist=["x"]).requests_head(ex, st, a, k, n),
    "copy.deepcopy": lambda ex, st, a, k, n: __import__("pyvc.copylib", fromlist=["x"]).m_deepcopy(ex, st, a, k, n),
    "pandas.DataFrame": lambda ex, st, a, k, n: __import__("pyvc.pdlib", fromlist=["x"]).dataframe(ex, st, a, k, n),
    "pandas.concat": lambda ex, st, a, k, n: __import__("pyvc.pdlib", fromlist=["x"]).concat(ex, st, a, k, n),
    "numpy.max": lambda ex, st, a, k, n: __import__("pyvc.nplib", fromlist=["x"]).np_max(ex, st, a, k, n),
    "numpy.min": lambda ex, st, a, k, n: __import__("pyvc.seqlib", fromlist=["x"]).minmax_seq(ex, st, a[0], n, True) if (len(a) == 1 and not k) else (_ for _ in ()).throw(_U("np.min with arguments", n)),
    "numpy.mean": lambda ex, st, a, k, n: __import__("pyvc.nplib", fromlist=["x"]).np_mean(ex, st, a, k, n),
    "numpy.vstack": lambda ex, st, a, k, n: __import__("pyvc.nplib", fromlist=["x"]).np_vstack(ex, st, a, k, n),
    "numpy.append": lambda ex, st, a, k, n: __import__("pyvc.nplib", fromlist=["x"]).np_append(ex, st, a, k, n),
    "numpy.delete": lambda ex, st, a, k, n: __import__("pyvc.nplib", fromlist=["x"]).np_delete(ex, st, a, k, n),
    "datetime.timedelta": lambda ex, st, a, k, n: __import__("pyvc.timelib", fromlist=["x"]).m_timedelta(ex, st, a, k, n),
    "numpy.datetime64": lambda ex, st, a, k, n: __import__("pyvc.timelib", fromlist=["x"]).m_np_datetime64(ex, st, a, k, n),
    "decimal.Decimal": lambda ex, st, a, k, n: __import__("pyvc.timelib", fromlist=["x"]).m_decimal(ex, st, a, k, n),
    "numpy.deg2rad": lambda ex, st, a, k, n: __import__("pyvc.cplx", fromlist=["x"]).np_deg2rad(ex, st, a, k, n),
    "numpy.cos": lambda ex, st, a, k, n: __import__("pyvc.cplx", fromlist=["x"]).np_cos(ex, st, a, k, n),
    "numpy.sin": lambda ex, st, a, k, n: __import__("pyvc.cplx", fromlist=["x"]).np_sin(ex, st, a, k, n),
    "numpy.stack": lambda ex, st, a, k, n: __import__("pyvc.cplx", fromlist=["x"]).np_stack(ex, st, a, k, n),
    "numpy.linalg.norm": lambda ex, st, a, k, n: __import__("pyvc.cplx", fromlist=["x"]).np_linalg_norm(ex, st, a, k, n),
}


def m_deque(ex, st, args, kwargs, node):
    """collections.deque(iterable): a new double-ended queue holding the iterable's items in order - modelled as a (value-semantic) sequence;
    popleft / append / len / iteration are the list operations.  maxlen is not modelled."""
    if kwargs or len(args) > 1:
        raise _U("deque with maxlen", node)
    if not args:
        return _out(PyList([]), st)
    v = args[0]
    if isinstance(v, ty.SeqV):
        return _out(ty.SeqV(v.elem, v.arrs, v.len), st)
    if isinstance(v, PyList):
        return _out(PyList(list(v.items)), st)
    raise _U(f"deque of {v!r}", node)


ARANGE_AT = z3.Function("np_arange_at", z3.RealSort(), z3.RealSort(), z3.IntSort(), z3.RealSort())      # (start, step, k) -> start + k * step


def m_np_arange(ex, st, args, kwargs, node):
    """np.arange(start, stop, step) for a positive real step (A-LIB): a sequence r of n >= 0 reals with r[k] = start + k*step < stop; n = 0 iff
    stop <= start.  The product k*step is kept behind an uninterpreted function with its LINEAR consequences only (first entry, strictly
    increasing, below stop, at least start) - all the verified code relies on."""
    if kwargs or len(args) != 3:
        raise _U("np.arange other than (start, stop, step)", node)
    a, b, h = (ty.to_real(_num(ex, st, x, node)) for x in args)
    ex.safety(st, "np.arange-positive-step (encoding; a zero step raises ZeroDivisionError)", h > 0, node)
    n = z3.Int(ty.fresh_name("arange_n"))
    k, k2 = z3.Int(ty.fresh_name("ak")), z3.Int(ty.fresh_name("ak2"))
    at = lambda kk: ARANGE_AT(a, h, kk)
    st.assume(z3.And(n >= 0, (n == 0) == (b <= a), at(z3.IntVal(0)) == a))
    st.assume(ty.FA([k], z3.Implies(z3.And(k >= 0, k < n), z3.And(at(k) >= a, at(k) < b)), patterns=[at(k)]))
    st.assume(ty.FA([k, k2], z3.Implies(z3.And(k >= 0, k < k2, k2 < n), at(k) < at(k2)), patterns=[z3.MultiPattern(at(k), at(k2))]))
    return _out(ty.SeqV(ty.Real, [z3.Lambda([k], at(k))], n), st)


def m_ordered_dict(ex, st, args, kwargs, node):
    """collections.OrderedDict() without arguments: an empty (insertion-ordered) dictionary"""
    if args or kwargs:
        raise _U("OrderedDict with initial items", node)
    return _out(PyDict({}), st)


def m_json_load(ex, st, args, kwargs, node):
    """json.load(file): the document is whatever the contract of the function under verification says a file of that kind holds (extra['json_load'],
    a builder of symbolic values) - the file system is outside the model"""
    b = getattr(ex, "cur_extra", {}).get("json_load")
    if b is None:
        raise _U("json.load without a document builder in the contract", node)
    return _out(b(ex, st), st)


def m_copy_obj(ex, st, v, node):
    """copy.copy(object): a new object of the same class whose fields hold the same values (shallow)"""
    new = ex.alloc_obj(st, v.cls)
    for fname in ex.reg.all_fields(v.cls):
        ex.write_field(st, new, fname, ex.read_field(st, v, fname, node), node)
    return new


MODULE_FUNCS["json.load"] = m_json_load
MODULE_FUNCS["collections.OrderedDict"] = m_ordered_dict
MODULE_FUNCS["collections.deque"] = m_deque
MODULE_FUNCS["numpy.arange"] = m_np_arange
MODULE_CONSTS = {}


def register_module_func(name, fn):
    MODULE_FUNCS[name] = fn


# ============================================================================ value-semantic mutators
MUTATORS = {"append", "add", "remove", "pop", "popleft", "popitem", "move_to_end", "extend", "insert", "clear", "sort"}


class SymSet:
    """A set of scalars of one sort, as its membership array."""

    def __init__(self, elem, mem, src=None):
        self.elem, self.mem, self.src = elem, mem, src       # src: the sequence the set was built from (for len / pop)

    def has(self, x):
        return z3.Select(self.mem, x)


def symset_card(ex, st, sset, node):
    """len(set(seq)): an integer characterised only as far as the verified code needs it:
    >= 0;  = 0 iff the source is empty;  <= 1 iff all source elements are equal;  <= len(source)."""
    if sset.src is None:
        raise _U("len() of a symbolic set without a source sequence", node)
    cache = st.ghost.setdefault("__cards__", {})        # per state: the defining facts live in this state's path condition
    if sset.mem.get_id() in cache:
        return cache[sset.mem.get_id()]
    v = sset.src
    (a,) = v.arrs
    c = z3.Int(ty.fresh_name("card"))
    i, j = z3.Int(ty.fresh_name("ci")), z3.Int(ty.fresh_name("cj"))
    n_ = z3.simplify(v.len)
    if z3.is_int_value(n_) and n_.as_long() <= 16:
        # a set display / a list of known length: the quantifier is expanded
        items_ = [z3.simplify(z3.Select(a, k_)) for k_ in range(n_.as_long())]
        all_eq = z3.And(*[items_[0] == x for x in items_[1:]]) if len(items_) > 1 else z3.BoolVal(True)
    else:
        all_eq = ty.FA([i, j], z3.Implies(z3.And(i >= 0, i < v.len, j >= 0, j < v.len), z3.Select(a, i) == z3.Select(a, j)),
                       patterns=[z3.MultiPattern(z3.Select(a, i), z3.Select(a, j))])
    st.assume(z3.And(c >= 0, c <= z3.If(v.len >= 0, v.len, 0), (c == 0) == (v.len <= 0)))
    st.assume((c <= 1) == all_eq)
    cache[sset.mem.get_id()] = c
    return c


def is_symbolic_container(v):
    return isinstance(v, (ty.SeqV, ty.MapV, SymSet, ty.MatV, ty.CMatV))


def mutate(ex, st, recv, meth, args, kwargs, node):
    """-> list of (new container, return value, state, exception-or-None)"""
    from .symex import ExcV
    if isinstance(recv, ty.SeqV):
        if meth == "append":
            v = ex.coerce(recv.elem, args[0], node)
            new = recv.with_at(recv.len, v).with_len(recv.len + 1)
            if isinstance(recv.elem, ty.RefT):
                from . import heaplib
                heaplib.append_axiom(st, recv, new, v.ref)
            return [(new, None, st, None)]
        if meth == "sort" and isinstance(recv.elem, ty.RefT) and not args and set(kwargs) <= {"key", "reverse"}:
            # list.sort(key=...) of a list of objects: SOME rearrangement of the same objects (the order it establishes is not modelled - a sound
            # over-approximation: whatever is proved afterwards holds for every order)
            from . import seqlib
            ra = z3.Const(ty.fresh_name("sortedinplace"), recv.arrs[0].sort())
            for f in seqlib.permutation_facts(ra, recv.len, recv.arrs[0], recv.len):
                st.assume(f)
            return [(ty.SeqV(recv.elem, [ra], recv.len), None, st, None)]
        if meth == "extend" and isinstance(args[0], ty.SeqV) and len(args[0].arrs) == len(recv.arrs):
            other = args[0]
            i = z3.Int(ty.fresh_name("xi"))
            new = ty.SeqV(recv.elem, [z3.Lambda([i], z3.If(i < recv.len, z3.Select(a, i), z3.Select(b, i - recv.len))) for a, b in zip(recv.arrs, other.arrs)],
                          recv.len + other.len)
            return [(new, None, st, None)]
        if meth == "popleft" or (meth == "pop" and args and args[0] == 0):
            out = []
            for taken, s2 in ex.branch(st, recv.len > 0, f"nonempty@L{node.lineno}"):
                if not taken:
                    out.append((recv, None, s2, ExcV("IndexError", node.lineno)))
                else:
                    i = z3.Int(ty.fresh_name("i"))
                    new = ty.SeqV(recv.elem, [z3.Lambda([i], z3.Select(a, i + 1)) for a in recv.arrs], recv.len - 1)
                    out.append((new, recv.at(z3.IntVal(0)), s2, None))
            return out
        if meth == "pop" and not args:
            out = []
            for taken, s2 in ex.branch(st, recv.len > 0, f"nonempty@L{node.lineno}"):
                if not taken:
                    out.append((recv, None, s2, ExcV("IndexError", node.lineno)))
                else:
                    out.append((recv.with_len(recv.len - 1), recv.at(recv.len - 1), s2, None))
            return out
        if meth == "remove":
            (c,) = ty.pack(recv.elem, ex.coerce(recv.elem, args[0], node))
            out = []
            for taken, s2 in ex.branch(st, seq_contains(ex, st, recv, args[0], node), f"present@L{node.lineno}"):
                if not taken:
                    out.append((recv, None, s2, ExcV("ValueError", node.lineno)))
                else:
                    out.append((seq_remove_value(ex, s2, recv, c), None, s2, None))
            return out
    if isinstance(recv, SymSet):
        if meth == "pop" and recv.src is not None:
            out = []
            for taken, s2 in ex.branch(st, recv.src.len > 0, f"nonempty@L{node.lineno}"):
                if not taken:
                    out.append((recv, None, s2, ExcV("KeyError", node.lineno)))
                    continue
                w = z3.Int(ty.fresh_name("popw"))
                s2.assume(z3.And(w >= 0, w < recv.src.len))
                out.append((SymSet(recv.elem, z3.Const(ty.fresh_name("set"), recv.mem.sort())), recv.src.at(w), s2, None))
            return out
        if meth == "add":
            (c,) = ty.pack(recv.elem, ex.coerce(recv.elem, args[0], node))
            return [(SymSet(recv.elem, z3.Store(recv.mem, c, z3.BoolVal(True))), None, st, None)]
    if isinstance(recv, ty.MapV):
        from . import maplib
        return maplib.mutate(ex, st, recv, meth, args, kwargs, node)
    raise _U(f"method .{meth} on symbolic {type(recv).__name__}", node)
