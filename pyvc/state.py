"""Symbolic machine state: frames, Boogie-style heap, path condition, ghost state."""
from __future__ import annotations

import z3

from . import vtypes as ty


class Frame:
    __slots__ = ("env", "parent", "fi", "label")

    def __init__(self, env=None, parent=None, fi=None, label=""):
        self.env = env if env is not None else {}
        self.parent = parent      # index into State.frames of the lexically enclosing frame, or None
        self.fi = fi
        self.label = label


class PyList:
    """A concrete-shape, mutable Python list living in the symbolic state (identity matters)."""
    __slots__ = ("items",)

    def __init__(self, items=None):
        self.items = list(items or [])

    def __repr__(self):
        return f"PyList({self.items!r})"


class PyDict:
    __slots__ = ("d",)

    def __init__(self, d=None):
        self.d = dict(d or {})

    def __repr__(self):
        return f"PyDict({self.d!r})"


class PySet:
    __slots__ = ("items",)

    def __init__(self, items=None):
        self.items = list(items or [])


def _copy_val(v, memo):
    if isinstance(v, PyList):
        if id(v) not in memo:
            n = PyList()
            memo[id(v)] = n
            n.items = [_copy_val(x, memo) for x in v.items]
        return memo[id(v)]
    if isinstance(v, PyDict):
        if id(v) not in memo:
            n = PyDict()
            memo[id(v)] = n
            n.d = {k: _copy_val(x, memo) for k, x in v.d.items()}
        return memo[id(v)]
    if isinstance(v, PySet):
        if id(v) not in memo:
            n = PySet(list(v.items))
            memo[id(v)] = n
        return memo[id(v)]
    if isinstance(v, tuple):
        return tuple(_copy_val(x, memo) for x in v)
    if isinstance(v, set):
        return set(v)
    if isinstance(v, dict):
        return dict(v)
    return v


class State:
    def __init__(self):
        self.frames: list[Frame] = []
        self.heap: dict[str, z3.ExprRef] = {}
        self.alloc = z3.Const(ty.fresh_name("alloc"), z3.ArraySort(ty.RefSort, z3.BoolSort()))
        self.pc: list = []
        self.decisions: list = []           # branch conditions only (subset of pc): used to merge forked pure evaluations with ite
        self.warn_count = 0                 # ghost: number of warnings.warn calls (python int or z3 Int)
        self.ghost: dict = {}
        self.trace: list = []               # human-readable branch decisions
        self.depth = 0

    def fork(self) -> "State":
        s = State.__new__(State)
        memo = {}
        s.frames = [Frame({k: _copy_val(v, memo) for k, v in f.env.items()}, f.parent, f.fi, f.label)
                    for f in self.frames]
        s.heap = dict(self.heap)
        s.alloc = self.alloc
        s.pc = list(self.pc)
        s.decisions = list(self.decisions)
        s.warn_count = self.warn_count
        s.ghost = {k: _copy_val(v, memo) for k, v in self.ghost.items()}
        s.trace = list(self.trace)
        s.depth = self.depth
        return s

    # -- frames --------------------------------------------------------------------------
    @property
    def frame(self) -> Frame:
        return self.frames[-1]

    def lookup(self, name):
        i = len(self.frames) - 1
        while i is not None:
            f = self.frames[i]
            if name in f.env:
                return True, f.env[name]
            i = f.parent
        return False, None

    def assign(self, name, val, nonlocal_ok=False):
        self.frame.env[name] = val

    def assume(self, cond):
        if isinstance(cond, bool):
            if not cond:
                self.pc.append(z3.BoolVal(False))
            return
        # conjunctions are flattened so that the quantifier-free conjuncts stay usable for path pruning
        if z3.is_and(cond):
            for c in cond.children():
                self.assume(c)
            return
        self.pc.append(cond)
