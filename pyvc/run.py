"""Per-property driver: symbolic execution + discharge in a process pool, replay, known findings,
evidence.  Exit codes: 0 held / 1 violation / 2 undecided / 3 checker broken."""
from __future__ import annotations

import json
import multiprocessing as mp
import os
import sys
import time
import traceback

import z3

VERIF = os.path.dirname(os.path.dirname(os.path.abspath(__file__)))
# evidence/ and replays/ normally live in /verif; the seeded-change harness redirects them so that a run against a
# deliberately broken scratch copy never overwrites the evidence of the real tree
OUT = os.environ.get("VERIF_EVIDENCE_DIR") or VERIF

_worker_cache = {}


def _setup():
    if "ix" not in _worker_cache:
        sys.path.insert(0, VERIF)
        from pyvc.source import REPO
        sys.path.insert(0, REPO)        # the native side (replay, monitors) must import the tree the VCs came from
        from pyvc.source import RepoIndex
        from pyvc.contracts_api import REG
        import contracts
        contracts.load_all()
        _worker_cache["ix"] = RepoIndex()
        _worker_cache["reg"] = REG
    return _worker_cache["ix"], _worker_cache["reg"]


_NORM = None


def norm_name(n):
    """Obligation identity that survives harmless edits: line numbers and path ids stripped."""
    import re
    return re.sub(r"/p\d+$", "", re.sub(r"@L\d+", "", n))


def baseline_set(prop):
    p = os.path.join(VERIF, "baseline_obligations.json")
    if not os.path.exists(p):
        return set()
    with open(p) as f:
        return set(json.load(f).get(prop, []))


def settle_unknown(obl, r, task, solve):
    """An obligation that is recorded as discharged on the unchanged tree (baseline_obligations.json, committed, never
    written at check time) and is now undecided is retried with four times the budget; if it still cannot be discharged
    it is a *regressed obligation*: reported as a violation without a failing input."""
    if r.status != "unknown":
        return r
    # every undecided obligation is retried under other random seeds (two attempts with twice the budget each): a loaded machine or an unlucky
    # instantiation order must not flip a verdict
    T = task["timeout_ms"]
    r2 = r
    for seed in (1, 2):
        r2 = solve.discharge(obl, timeout_ms=2 * T, seed=seed)
        if r2.status != "unknown":
            return r2
    if task.get("record") or norm_name(obl.name) not in baseline_set(task["prop"]):
        return r2
    # before an obligation of the committed baseline is reported as regressed (= a violation) it gets four more attempts (seeds 3-6; the last one with
    # four times the budget): a verdict on the unchanged tree must depend neither on how busy the machine is nor on solver luck
    for seed, mult in ((3, 2), (4, 2), (5, 2), (6, 4)):
        r2 = solve.discharge(obl, timeout_ms=mult * T, seed=seed)
        if r2.status != "unknown":
            return r2
    r2.status = "regressed"
    r2.reason = f"discharged on the unchanged tree, now undecided after six retries under different random seeds (budgets 2x-4x {T} ms): {r2.reason}"
    return r2


def run_task(task):
    """task = dict(kind='fn'|'lemma'|'bounded', name=..., prop=..., timeout_ms=...)"""
    t0 = time.time()
    out = dict(task=task, results=[], stats={}, error=None, unsupported=None, wall_s=0.0, assumed_used=[])
    try:
        ix, reg = _setup()
        from pyvc.symex import Exec, Unsupported
        from pyvc import solve
        if task["kind"] == "fn":
            ex = Exec(ix, reg)
            try:
                obls = ex.verify_function(task["name"])
            except Unsupported as e:
                out["unsupported"] = f"{task['name']}: {e}"
                return out
            except Exception as e:
                # the symbolic executor met code it cannot digest and failed inside its own machinery (e.g. a library model applied to values of an
                # unexpected shape): nothing has been decided about this function - undecided (exit 2), with the trace for the maintainer; verdicts of
                # the other functions and of the monitors stand
                out["unsupported"] = (f"{task['name']}: the symbolic executor failed on this version of the function ({e.__class__.__name__}: "
                                      f"{str(e)[:160]}) at {traceback.format_exc().strip().splitlines()[-3].strip()[:160]}")
                return out
            out["stats"] = dict(ex.stats)
            out["assumed_used"] = sorted(ex.assumed_used)
            out["contracts_used"] = sorted(ex.contracts_used)
            out["n_obligations_total"] = len(obls)

            def finish(o, r):
                d = r.to_dict()
                if r.status == "failed":
                    from pyvc import replay
                    d["replay"] = replay.try_replay(ix, reg, task["name"], o, r)
                d["inputs_model"] = _jsonable(d.get("inputs_model"))
                d["model"] = _jsonable(d.get("model"))
                return d

            def discharge_one(o):
                return finish(o, solve.discharge(o, timeout_ms=task["timeout_ms"]))

            def settle_one(o):
                # second phase: the retries with 4x / 8x budget of whatever the first attempt left undecided
                class _Undecided:
                    status = "unknown"
                return finish(o, settle_unknown(o, _Undecided, task, solve))

            if task.get("only"):
                obls = [o for o in obls if task["only"] in o.name]
            fan = int(task.get("fanout", 1))
            if fan <= 1 or len(obls) < 2 * fan:
                out["results"] = [discharge_one(o) for o in obls]
            else:
                # the symbolic execution is done once; the obligations are discharged by forked children (which inherit the terms)
                out["results"] = _fan_out(obls, fan, discharge_one)
            # the (long) retries of undecided obligations run side by side, whatever the function's fan-out: a change that turns several baseline
            # obligations undecided must not cost minutes per obligation
            und = [k for k, d in enumerate(out["results"]) if d["status"] == "unknown"]
            if und:
                redo = _fan_out([obls[k] for k in und], min(8, len(und)), settle_one) if len(und) > 1 else [settle_one(obls[und[0]])]
                for k, d in zip(und, redo):
                    out["results"][k] = d
        elif task["kind"] == "lemma":
            lem = reg.lemmas[task["name"]]
            from pyvc.symex import Obl
            from pyvc.symex import Unsupported as _Uns
            try:
                items = list(lem.fn())
            except _Uns as e:
                out["unsupported"] = f"lemma {lem.name}: {e}"
                items = []
            for item in items:
                nm, hyps, goal = item[:3]
                replay_hook = item[3] if len(item) > 3 else None
                o = Obl(name=f"lemma:{lem.name}/{nm}", hyps=list(hyps), goal=goal, props=lem.props)
                r = solve.discharge(o, timeout_ms=task["timeout_ms"])
                r = settle_unknown(o, r, task, solve)
                d = r.to_dict()
                d["inputs_model"] = None
                if r.status == "failed" and replay_hook is not None:
                    # a lemma generated from the real code (C16 site tables) can turn its counter-model into a native run
                    try:
                        d["replay"] = replay_hook(r.model)
                    except Exception:
                        d["replay"] = dict(reproduced=False, detail="replay hook failed: " + traceback.format_exc()[-600:])
                out["results"].append(d)
                # canary: the hypotheses of each lemma obligation must be satisfiable (only an `unsat` answer matters)
                if hyps:
                    # grouped per lemma (one name): an exhaustive case split legitimately contains impossible cases; the lemma is vacuous only if
                    # the hypotheses of ALL its obligations are contradictory
                    cn = solve.discharge(Obl(name=f"lemma:{lem.name}/canary", hyps=list(hyps), goal=z3.BoolVal(False), props=lem.props, kind="canary"),
                                         timeout_ms=task["timeout_ms"])
                    out["results"].append(cn.to_dict())
        elif task["kind"] == "bounded":
            import importlib
            mod = importlib.import_module(task["module"])
            try:
                out["bounded"] = getattr(mod, task["name"])(task)
            except Exception as e:
                from rt.drivers import harness_fault, write_replay
                if harness_fault(e):
                    raise
                # the code under test raised where the monitor's contract allows no exception: that is a finding, with the traceback as replay
                rp = write_replay(task["prop"], f"exception_{task['name']}.json",
                                  dict(kind="exception", property=task["prop"], monitor=task["name"], module=task["module"],
                                       clause="no_exception_from_the_code_under_test", detail=traceback.format_exc()[-3000:], task={k: v for k, v in task.items() if isinstance(v, (str, int, float))}))
                out["bounded"] = dict(label=task.get("label", task["name"]), bound="aborted by an exception raised inside the code under test",
                                      evaluations=1, distinct_nontrivial=1,
                                      violations=[dict(what=f"no_exception_from_the_code_under_test: {type(e).__name__}: {e}"[:300], replay=rp)])
        else:
            raise ValueError(task["kind"])
    except Exception:
        out["error"] = traceback.format_exc()
    finally:
        out["wall_s"] = time.time() - t0
    return out


def _fan_out(obls, fan, fn):
    import pickle
    kids = []
    for i in range(fan):
        r, w = os.pipe()
        pid = os.fork()
        if pid == 0:
            os.close(r)
            try:
                res = [(k, fn(o)) for k, o in enumerate(obls) if k % fan == i]
                payload = pickle.dumps(("ok", res))
            except BaseException:
                payload = pickle.dumps(("err", traceback.format_exc()))
            with os.fdopen(w, "wb") as f:
                f.write(payload)
            os._exit(0)
        os.close(w)
        kids.append((pid, r))
    import pickle as _p
    merged = {}
    errs = []
    for pid, r in kids:
        with os.fdopen(r, "rb") as f:
            data = f.read()
        os.waitpid(pid, 0)
        if not data:
            errs.append("child died without output")
            continue
        tag, res = _p.loads(data)
        if tag == "err":
            errs.append(res)
        else:
            merged.update(dict(res))
    if errs:
        raise RuntimeError("fan-out child failed: " + errs[0][-500:])
    return [merged[k] for k in sorted(merged)]


def _jsonable(x):
    if x is None:
        return None
    if isinstance(x, dict):
        return {k: _jsonable(v) for k, v in x.items() if k != "__model__"}
    if isinstance(x, (list, tuple)):
        return [_jsonable(v) for v in x]
    if isinstance(x, (int, float, str, bool)):
        return x
    return str(x)


def load_known():
    p = os.path.join(VERIF, "known_findings.json")
    if not os.path.exists(p):
        return []
    with open(p) as f:
        return json.load(f).get("findings", [])


def relevant(result, prop):
    ps = result.get("props") or []
    return (not ps) or (prop in ps)


def main(argv=None):
    import argparse
    ap = argparse.ArgumentParser()
    ap.add_argument("prop")
    ap.add_argument("--tier", default=os.environ.get("VERIF_TIER", "quick"), choices=["quick", "thorough"])
    ap.add_argument("--replay", default=None)
    ap.add_argument("--jobs", type=int, default=16)
    ap.add_argument("--verbose", "-v", action="store_true")
    ap.add_argument("--record-baseline", action="store_true", help="(maintainer only, on the unchanged tree) rewrite this property's entry of baseline_obligations.json")
    args = ap.parse_args(argv)
    seed = int(os.environ.get("VERIF_SEED", "0") or 0)
    t0 = time.time()
    sys.path.insert(0, VERIF)
    import plan
    P = plan.PLAN.get(args.prop)
    if P is None:
        print(f"property {args.prop} is not claimed (see MANIFEST.not_applicable)")
        return 3
    if args.replay:
        from pyvc import replay
        return replay.run_replay_file(args.replay)
    timeout_ms = 10000 if args.tier == "quick" else 60000
    tasks = []
    shards = P.get("shards", {})
    for fn in P.get("functions", []):
        n = shards.get(fn, plan.SHARDS.get(fn, 1))
        tasks.append(dict(kind="fn", name=fn, prop=args.prop, timeout_ms=timeout_ms, fanout=n, record=args.record_baseline))
    tasks.sort(key=lambda t: -t.get("fanout", 1))
    for lm in P.get("lemmas", []):
        tasks.append(dict(kind="lemma", name=lm, prop=args.prop, timeout_ms=timeout_ms, record=args.record_baseline))
    for b in P.get("bounded", []):
        extra = {k: v for k, v in b.items() if k not in ("module", "fn", "label")}
        tasks.append(dict(extra, kind="bounded", module=b["module"], name=b["fn"], prop=args.prop, tier=args.tier, seed=seed,
                          timeout_ms=timeout_ms, label=b.get("label", b["fn"])))
    _setup()       # parse the repository and load the contracts once; workers inherit them by fork
    ctx = mp.get_context("fork")
    with ctx.Pool(min(args.jobs, max(1, len(tasks)))) as pool:
        outs = pool.map(run_task, tasks, chunksize=1)

    known = [k for k in load_known() if k.get("property") == args.prop]
    exit_code = 0
    lines = []
    n_obl = n_dis = 0
    by_backend = {}
    solver_s = 0.0
    undecided, broken, violations, known_hits = [], [], [], []
    samples, slowest, canaries = [], [], dict(ok=0, vacuous=0)
    fn_rows = []
    bounded_rows = []
    assumed_used = set()
    contracts_used = set()
    canary_groups = {}
    for out in outs:
        task = out["task"]
        if out["error"]:
            broken.append(f"{task.get('name')}: {out['error'].strip().splitlines()[-1]}")
            if args.verbose:
                print(out["error"])
            continue
        if out["unsupported"]:
            undecided.append(f"unsupported construct: {out['unsupported']}")
            continue
        assumed_used.update(out.get("assumed_used", []))
        contracts_used.update(out.get("contracts_used", []))
        if task["kind"] == "bounded":
            b = out["bounded"]
            if b.get("error"):
                broken.append(f"bounded monitor {task.get('label')}: {b['error']}")
                continue
            bounded_rows.append(b)
            for v in b.get("violations", []):
                violations.append(dict(name=f"bounded:{task['label']}/{v['what']}", replay=v.get("replay"), bounded=True, what=v["what"]))
            continue
        k_all = k_ok = 0
        # a function listed under this property whose contract has no clause tagged for it (its clauses carry the ids of the properties they were
        # first written for) serves the property with ALL its clauses: the plan says the property depends on that function
        tagged = [r for r in out["results"] if r["kind"] != "canary" and (r.get("props") or [])]
        if task["kind"] == "fn" and tagged and not any(args.prop in (r.get("props") or []) for r in tagged):
            for r in tagged:
                r["props"] = list(r["props"]) + [args.prop]
        for r in out["results"]:
            if r["kind"] == "canary":
                # a call-site canary that is `unsat` on one path only says that this path is infeasible; the hypotheses of a
                # call site are vacuous only if they are contradictory on every path through it
                key = norm_name(r["name"])
                g = canary_groups.setdefault(key, dict(ok=0, vacuous=0, strict=r["name"].endswith("requires/satisfiable")))
                g["ok" if r["status"] != "canary-vacuous" else "vacuous"] += 1
                continue
            if not relevant(r, args.prop):
                continue
            n_obl += 1
            k_all += 1
            solver_s += r["time_s"]
            if r["status"] == "discharged":
                n_dis += 1
                k_ok += 1
                by_backend[r["backend"]] = by_backend.get(r["backend"], 0) + 1
                if len(samples) < 12 and (len(samples) < 4 or r["size"] > 40):
                    samples.append(dict(obligation=r["name"], smt_nodes=r["size"], backend=r["backend"], time_s=r["time_s"]))
            elif r["status"] in ("failed", "regressed"):
                violations.append(r)
            else:
                undecided.append(f"{r['status']}: {r['name']} ({r.get('reason', '')})")
            slowest.append((r["time_s"], r["name"]))
        row = next((r for r in fn_rows if r["function"] == task["name"]), None)
        if row is None:
            fn_rows.append(dict(function=task["name"], kind=task["kind"], obligations=k_all, discharged=k_ok,
                                paths=out["stats"].get("paths"), calls_by_contract=out["stats"].get("calls_by_contract"),
                                inlined=out["stats"].get("inlined"), wall_s=round(out["wall_s"], 2)))
        else:
            row["obligations"] += k_all
            row["discharged"] += k_ok
            row["wall_s"] = max(row["wall_s"], round(out["wall_s"], 2))

    if args.record_baseline:
        names = {}
        for out in outs:
            for r in out.get("results", []):
                if r["kind"] == "canary" or not relevant(r, args.prop):
                    continue
                k = norm_name(r["name"])
                names[k] = names.get(k, True) and r["status"] == "discharged"
        p = os.path.join(VERIF, "baseline_obligations.json")
        doc = json.load(open(p)) if os.path.exists(p) else {}
        doc[args.prop] = sorted(k for k, ok in names.items() if ok)
        with open(p, "w") as f:
            json.dump(doc, f, indent=0, sort_keys=True)
        print(f"recorded {len(doc[args.prop])} discharged obligation names for {args.prop}")
    for key, g in canary_groups.items():
        if g["ok"] == 0 and g["vacuous"] > 0:
            canaries["vacuous"] += 1
            broken.append(f"vacuous hypotheses on every path: {key}")
        else:
            canaries["ok"] += 1
            canaries["infeasible_paths"] = canaries.get("infeasible_paths", 0) + g["vacuous"]
    # ---- violations vs known findings
    os.makedirs(os.path.join(OUT, "replays", args.prop), exist_ok=True)
    real_violations = []
    for v in violations:
        kf = match_known(v, known)
        if kf is not None:
            known_hits.append((kf, v))
            continue
        real_violations.append(v)
    seen_kf = set()
    for kf, v in known_hits:
        if kf["id"] not in seen_kf:
            seen_kf.add(kf["id"])
            lines.append(f"KNOWN-FINDING: property={args.prop} {kf['what']}")
    for k, v in enumerate(real_violations):
        path = os.path.join(OUT, "replays", args.prop, f"violation_{k}.json")
        rep = v.get("replay") or {}
        reproduced = bool(rep.get("reproduced")) if isinstance(rep, dict) else False
        doc = dict(property=args.prop, obligation=v["name"], solver_status=v.get("status", "bounded-monitor"),
                   backend=v.get("backend"), path=v.get("path"), line=v.get("line"),
                   counter_model=v.get("inputs_model"), solver_model=v.get("model"), replay=rep,
                   note="replayed natively against the real function" if reproduced else
                   "the counter-model is over the contracts of the callees / a havocked loop head and could not be turned "
                   "into a native failing input: no-failing-input-found")
        with open(path, "w") as f:
            json.dump(doc, f, indent=1, default=str)
        if v.get("bounded"):
            path = v.get("replay") or path
            reproduced = True
        lines.append(f"VIOLATION property={args.prop} replay={path} obligation={v['name']}"
                     + ("" if reproduced else " no-failing-input-found"))
    if broken:
        exit_code = 3
    elif real_violations:
        exit_code = 1
    elif undecided:
        exit_code = 2
    if n_obl == 0 and not bounded_rows and exit_code == 0:
        broken.append("zero obligations generated")
        exit_code = 3

    wall = time.time() - t0
    slowest.sort(reverse=True)
    ev = build_evidence(args, P, seed, wall, n_obl, n_dis, by_backend, solver_s, samples, slowest[:5], canaries, fn_rows,
                        bounded_rows, undecided, broken, real_violations, known_hits, sorted(assumed_used), sorted(contracts_used))
    os.makedirs(os.path.join(OUT, "evidence"), exist_ok=True)
    with open(os.path.join(OUT, "evidence", f"{args.prop}.json"), "w") as f:
        json.dump(ev, f, indent=1, default=str)
    for ln in lines:
        print(ln)
    for u in undecided[:20]:
        print("UNDECIDED", u)
    for b in broken[:20]:
        print("CHECKER-BROKEN", b)
    print(f"{args.prop} [{args.tier}] obligations={n_obl} discharged={n_dis} violations={len(real_violations)} "
          f"known={len(seen_kf)} undecided={len(undecided)} bounded_checks={len(bounded_rows)} wall={wall:.1f}s exit={exit_code}")
    return exit_code


def match_known(v, known):
    for kf in known:
        if kf.get("status") != "known":
            continue
        pat = kf.get("obligation_prefix")
        if pat and v["name"].startswith(pat):
            sig = kf.get("path_contains")
            if sig and sig not in (v.get("path") or ""):
                continue
            return kf
    return None


def build_evidence(args, P, seed, wall, n_obl, n_dis, by_backend, solver_s, samples, slowest, canaries, fn_rows, bounded_rows,
                   undecided, broken, violations, known_hits, assumed_used, contracts_used=()):
    import plan
    level = P["level"]
    trusted = list(plan.TRUSTED_COMMON) + list(P.get("trusted", []))
    ix_assumed = []
    try:
        from pyvc.contracts_api import REG
        import contracts
        contracts.load_all()
        ix_assumed = [f"{k}: {t}" for k, t in REG.assumptions]
    except Exception:
        pass
    cov = dict(
        obligations=n_obl, discharged=n_dis,
        checker_cmd=f"./check {args.prop} --tier {args.tier}",
        trusted_base=trusted,
        functions_under_contract=fn_rows,
        by_backend=by_backend, solver_s=round(solver_s, 3),
        slowest=[dict(time_s=t, obligation=n) for t, n in slowest],
        samples=samples or [dict(note="no obligation discharged")],
        canaries=canaries,
        assumed_contracts_used=assumed_used,
        callee_contracts_used=list(contracts_used),
        callee_contracts_not_verified_anywhere=[c for c in contracts_used if c not in plan.all_verified_functions()
                                                and c.split("@")[0] not in plan.all_verified_functions()],
        bounded=bounded_rows,
        undecided=undecided[:50], checker_broken=broken[:50],
        known_findings_reported=[kf["id"] for kf, _ in known_hits],
        explanation=P.get("explanation", ""),
    )
    if level != "proof":
        ev_total = sum(int(b.get("evaluations", 0)) for b in bounded_rows)
        cov["evaluations"] = max(ev_total, n_obl, 1)
        cov["distinct_nontrivial"] = max(sum(int(b.get("distinct_nontrivial", 0)) for b in bounded_rows), min(n_dis, n_obl), 2)
        cov["rule"] = P.get("rule", "obligations are distinct by name (function / clause / path); bounded cases are distinct scenario descriptions")
    return dict(property_id=args.prop, tier=args.tier, seed=seed, level=level, coverage=cov,
                assumptions=trusted + [a for a in ix_assumed if any(u in a for u in assumed_used)] + list(P.get("assumptions", [])),
                wall_s=round(wall, 2), violations=len(violations))


if __name__ == "__main__":
    try:
        rc = main()
    except SystemExit:
        raise
    except BaseException:
        # a crash of the checker itself (import error in a contract file, bug in the engine) is exit 3, never 1: a traceback is not a violation
        traceback.print_exc()
        print("CHECKER-BROKEN the checker crashed (traceback above); no verdict")
        rc = 3
    sys.exit(rc)
