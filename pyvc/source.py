"""Locate and parse the real functions of the repository under analysis.

Nothing is cached across runs: every check re-reads and re-parses the files below
$ACN_REPO (default /repo).  The executor works on these `ast` nodes and on nothing else.
"""
from __future__ import annotations

import ast
import os
from dataclasses import dataclass, field

REPO = os.environ.get("ACN_REPO", "/repo")


@dataclass
class FuncInfo:
    qualname: str            # acnportal.acnsim.models.battery.Battery.charge
    module: str
    cls: str | None
    node: ast.FunctionDef
    path: str
    is_property: bool = False
    is_static: bool = False
    is_classmethod: bool = False
    is_setter: bool = False
    nested: dict = field(default_factory=dict)   # name -> FuncInfo for nested defs


@dataclass
class ClassInfo:
    qualname: str
    name: str
    module: str
    bases: list            # simple names
    node: ast.ClassDef
    methods: dict = field(default_factory=dict)     # name -> FuncInfo  (getter for properties)
    setters: dict = field(default_factory=dict)
    consts: dict = field(default_factory=dict)      # class-level simple assignments (ast nodes)


@dataclass
class ModuleInfo:
    name: str
    path: str
    tree: ast.Module
    functions: dict = field(default_factory=dict)
    classes: dict = field(default_factory=dict)
    consts: dict = field(default_factory=dict)      # NAME -> ast expr
    imports: dict = field(default_factory=dict)     # local name -> dotted target
    star_imports: list = field(default_factory=list)


class RepoIndex:
    def __init__(self, root: str = None):
        self.root = root or REPO
        self.modules: dict[str, ModuleInfo] = {}
        self.classes_by_name: dict[str, ClassInfo] = {}
        self.funcs: dict[str, FuncInfo] = {}
        self._load()

    # -- loading -----------------------------------------------------------------------
    def _load(self):
        pkg = os.path.join(self.root, "acnportal")
        for dirpath, dirnames, filenames in os.walk(pkg):
            dirnames[:] = [d for d in dirnames if d not in ("tests", "__pycache__")]
            for fn in sorted(filenames):
                if not fn.endswith(".py"):
                    continue
                path = os.path.join(dirpath, fn)
                rel = os.path.relpath(path, self.root)[:-3].replace(os.sep, ".")
                if rel.endswith(".__init__"):
                    rel = rel[: -len(".__init__")]
                with open(path) as f:
                    src = f.read()
                try:
                    tree = ast.parse(src, filename=path)
                except SyntaxError:
                    continue
                self._index_module(rel, path, tree, is_pkg=fn == "__init__.py")

    def _index_module(self, name, path, tree, is_pkg):
        mi = ModuleInfo(name, path, tree)
        self.modules[name] = mi
        pkg = name if is_pkg else name.rsplit(".", 1)[0]
        for node in tree.body:
            if isinstance(node, ast.FunctionDef):
                fi = self._func(node, name, None, path)
                mi.functions[node.name] = fi
            elif isinstance(node, ast.ClassDef):
                ci = ClassInfo(f"{name}.{node.name}", node.name, name,
                               [self._base_name(b) for b in node.bases], node)
                for sub in node.body:
                    if isinstance(sub, ast.FunctionDef):
                        fi = self._func(sub, name, node.name, path)
                        if fi.is_setter:
                            ci.setters[sub.name] = fi
                        else:
                            ci.methods[sub.name] = fi
                    elif isinstance(sub, ast.Assign) and len(sub.targets) == 1 and isinstance(sub.targets[0], ast.Name):
                        ci.consts[sub.targets[0].id] = sub.value
                mi.classes[node.name] = ci
                self.classes_by_name.setdefault(node.name, ci)
            elif isinstance(node, ast.Assign) and len(node.targets) == 1 and isinstance(node.targets[0], ast.Name):
                mi.consts[node.targets[0].id] = node.value
            elif isinstance(node, ast.Import):
                for a in node.names:
                    mi.imports[a.asname or a.name.split(".")[0]] = a.name if a.asname else a.name.split(".")[0]
            elif isinstance(node, ast.ImportFrom):
                base = node.module or ""
                if node.level:
                    parts = pkg.split(".")
                    parts = parts[: len(parts) - (node.level - 1)]
                    base = ".".join(parts + ([node.module] if node.module else []))
                for a in node.names:
                    if a.name == "*":
                        mi.star_imports.append(base)
                    else:
                        mi.imports[a.asname or a.name] = f"{base}.{a.name}"

    @staticmethod
    def _base_name(b):
        if isinstance(b, ast.Name):
            return b.id
        if isinstance(b, ast.Attribute):
            return b.attr
        return ast.unparse(b)

    def _func(self, node, module, cls, path, prefix=None):
        qn = ".".join(x for x in (prefix or module, None if prefix else cls, node.name) if x)
        decos = [ast.unparse(d) for d in node.decorator_list]
        fi = FuncInfo(qn, module, cls, node, path,
                      is_property="property" in decos,
                      is_static="staticmethod" in decos,
                      is_classmethod="classmethod" in decos,
                      is_setter=any(d.endswith(".setter") for d in decos))
        self.funcs.setdefault(qn, fi)
        for sub in ast.walk(node):
            if isinstance(sub, ast.FunctionDef) and sub is not node and self._direct_child(node, sub):
                fi.nested[sub.name] = self._func(sub, module, cls, path, prefix=qn + ".<locals>")
        return fi

    @staticmethod
    def _direct_child(parent, sub):
        # sub is nested somewhere in parent but not inside another nested def
        stack = list(parent.body)
        while stack:
            n = stack.pop()
            if n is sub:
                return True
            if isinstance(n, (ast.FunctionDef, ast.ClassDef, ast.Lambda)):
                continue
            stack.extend(ast.iter_child_nodes(n))
        return False

    # -- queries -----------------------------------------------------------------------
    def func(self, qualname: str) -> FuncInfo:
        return self.funcs[qualname]

    def cls(self, name: str) -> ClassInfo | None:
        return self.classes_by_name.get(name)

    def mro(self, name: str) -> list:
        out, seen = [], set()

        def go(n):
            if n in seen:
                return
            seen.add(n)
            ci = self.classes_by_name.get(n)
            if ci is None:
                return
            out.append(ci)
            for b in ci.bases:
                go(b)
        go(name)
        return out

    def is_subclass(self, a: str, b: str) -> bool:
        return any(ci.name == b for ci in self.mro(a))

    def lookup_method(self, cls: str, name: str):
        import ast as _ast
        for ci in self.mro(cls):
            if name in ci.methods:
                return ci.methods[name]
            alias = ci.consts.get(name)           # class-level alias:  __radd__ = __add__
            if isinstance(alias, _ast.Name) and alias.id in ci.methods:
                return ci.methods[alias.id]
        return None

    def lookup_setter(self, cls: str, name: str):
        for ci in self.mro(cls):
            if name in ci.setters:
                return ci.setters[name]
        return None

    def lookup_class_const(self, cls: str, name: str):
        for ci in self.mro(cls):
            if name in ci.consts:
                return ci.consts[name]
        return None

    def subclasses(self, name: str) -> list:
        return [c for c in self.classes_by_name.values() if c.name != name and self.is_subclass(c.name, name)]

    def resolve_global(self, module: str, name: str):
        """Resolve a global name used inside `module`.  Returns one of
        ('func', FuncInfo) ('class', ClassInfo) ('const', ast expr, module) ('module', dotted) or None."""
        seen = set()

        def in_module(mod, nm, depth=0):
            if (mod, nm) in seen or depth > 6:
                return None
            seen.add((mod, nm))
            mi = self.modules.get(mod)
            if mi is None:
                return None
            if nm in mi.functions:
                return ("func", mi.functions[nm])
            if nm in mi.classes:
                return ("class", mi.classes[nm])
            if nm in mi.consts:
                return ("const", mi.consts[nm], mod)
            if nm in mi.imports:
                tgt = mi.imports[nm]
                if tgt in self.modules:
                    return ("module", tgt)
                if "." in tgt:
                    m2, n2 = tgt.rsplit(".", 1)
                    r = in_module(m2, n2, depth + 1)
                    if r:
                        return r
                return ("module", tgt)       # external: numpy, heapq, warnings ...
            for sm in mi.star_imports:
                r = in_module(sm, nm, depth + 1)
                if r:
                    return r
            return None

        r = in_module(module, name)
        if r:
            return r
        if name in self.classes_by_name:
            return ("class", self.classes_by_name[name])
        return None
