"""pandas model (A-LIB): exactly the Series / DataFrame operations that current.py and charging_network.py use.

A Series is a finite mapping label -> real (an ordered MapV).  The repository class Current(pd.Series) is a schema object whose ghost field
`coef` holds that mapping and whose field `name` holds the Series name; a plain pandas Series (the result of Series.add / Series.__mul__) is
the python-level value SeriesV.

A DataFrame is a FrameV: row labels (a sequence), column labels (a sequence + membership array), and two functions of (row position, column
label): the cell value and whether the cell is NaN.  Columns are addressed by label, never by position, so the model is independent of pandas'
column order; to_numpy() lays the cells out in the frame's column order (which reindex(columns=...) sets explicitly)."""
from __future__ import annotations

import z3

from . import vtypes as ty
from .lib import _U, _out, _num
from .state import PyList, PyDict

IdS = ty.IdSort
CellS = z3.ArraySort(z3.IntSort(), z3.ArraySort(IdS, z3.RealSort()))
NanS = z3.ArraySort(z3.IntSort(), z3.ArraySort(IdS, z3.BoolSort()))
SER_T = ty.Map(ty.Id, ty.Real, ordered=True)


class SeriesV:
    __slots__ = ("m",)

    def __init__(self, m: ty.MapV):
        self.m = m

    def __repr__(self):
        return "SeriesV"


class FrameV:
    __slots__ = ("index", "cols", "hascol", "cell", "nan")

    def __init__(self, index, cols, hascol, cell, nan):
        self.index, self.cols, self.hascol, self.cell, self.nan = index, cols, hascol, cell, nan

    def __repr__(self):
        return f"FrameV(rows={self.index.len})"


class ToFrameV:
    """series.to_frame(): a one-column frame; only its transpose is modelled"""
    __slots__ = ("m", "name")

    def __init__(self, m, name):
        self.m, self.name = m, name


def _i(n):
    return z3.Int(ty.fresh_name(n))


def _k(n):
    return z3.Const(ty.fresh_name(n), IdS)


def enumerate_domain(ex, st, dom, base="keys"):
    """some duplicate-free sequence that lists exactly the labels in `dom` (the order is whatever pandas chose: unspecified)"""
    from . import maplib
    arr = z3.Const(ty.fresh_name(base), z3.ArraySort(z3.IntSort(), IdS))
    n = z3.Int(ty.fresh_name(base + "_n"))
    keys = ty.SeqV(ty.Id, [arr], n)
    st.assume(n >= 0)
    st.assume(maplib.keys_wf(ty.MapV(ty.Id, ty.Real, dom, [z3.K(IdS, z3.RealVal(0))], keys)))
    return keys


def series_map(ex, st, v, node):
    """the label -> coefficient mapping behind a Series-like value"""
    if isinstance(v, SeriesV):
        return v.m
    if isinstance(v, ty.ObjV) and (ex.ix.is_subclass(v.cls, "Current") or v.cls in ("Current", "Series")):
        return ex.read_field(st, ty.ObjV(v.ref, "Current"), "coef", node)
    if isinstance(v, ty.MapV):
        return v
    if isinstance(v, PyDict):
        return ex.coerce(SER_T, PyDict({k: x for k, x in v.d.items()}), node)
    raise _U(f"not a Series: {v!r}", node)


def is_series(ex, v):
    return isinstance(v, SeriesV) or (isinstance(v, ty.ObjV) and (v.cls in ("Current", "Series") or ex.ix.is_subclass(v.cls, "Current")))


# ---------------------------------------------------------------------------- Series
def series_init(ex, st, self_obj, args, kwargs, node):
    """pd.Series.__init__(self, data=None, dtype=...)"""
    data = args[0] if args else kwargs.get("data")
    if data is None:
        m = ex.coerce(SER_T, PyDict({}), node)
    else:
        m = series_map(ex, st, data, node)
        if m.keys is None:
            m = ty.MapV(m.key, m.val, m.dom, m.arrs, enumerate_domain(ex, st, m.dom))
    if m.val is not ty.Real:
        k = _k("sk")
        m = ty.MapV(ty.Id, ty.Real, m.dom, [z3.Lambda([k], z3.ToReal(z3.Select(m.arrs[0], k)))], m.keys)
    ex.write_field(st, ty.ObjV(self_obj.ref, "Current"), "coef", m, node)
    ex.write_field(st, ty.ObjV(self_obj.ref, "Current"), "name", None, node)
    return _out(None, st)


def series_add(ex, st, recv, args, kwargs, node):
    """a.add(b, fill_value=0): labels = union, value = a.get(label, 0) + b.get(label, 0)"""
    other = args[0]
    fill = kwargs.get("fill_value", args[1] if len(args) > 1 else None)
    if fill != 0:
        raise _U("Series.add without fill_value=0 (NaN semantics not modelled)", node)
    a, b = series_map(ex, st, recv, node), series_map(ex, st, other, node)
    k = _k("ak")
    dom = z3.Lambda([k], z3.Or(z3.Select(a.dom, k), z3.Select(b.dom, k)))
    val = z3.Lambda([k], z3.If(z3.Select(a.dom, k), z3.Select(a.arrs[0], k), z3.RealVal(0)) + z3.If(z3.Select(b.dom, k), z3.Select(b.arrs[0], k), z3.RealVal(0)))
    return _out(SeriesV(ty.MapV(ty.Id, ty.Real, dom, [val], enumerate_domain(ex, st, dom))), st)


def series_mul(ex, st, recv, args, kwargs, node):
    """a * c for a scalar c: same labels, every value multiplied"""
    (c,) = args
    if is_series(ex, c):
        raise _U("Series * Series", node)
    cc = ty.to_real(_num(ex, st, c, node))
    a = series_map(ex, st, recv, node)
    k = _k("mk")
    return _out(SeriesV(ty.MapV(ty.Id, ty.Real, a.dom, [z3.Lambda([k], z3.Select(a.arrs[0], k) * cc)], a.keys)), st)


def series_to_frame(ex, st, recv, args, kwargs, node):
    m = series_map(ex, st, recv, node)
    name = ex.read_field(st, ty.ObjV(recv.ref, "Current"), "name", node) if isinstance(recv, ty.ObjV) else None
    return _out(ToFrameV(m, name), st)


def row_frame(ex, st, tf: ToFrameV, node):
    """series.to_frame().T : one row labelled with the series' name, one column per label of the series"""
    name = tf.name
    if isinstance(name, ty.OptV):
        ex.safety(st, "series-has-a-name", z3.Not(name.isnone), node)
        name = name.val
    index = ty.seq_from_list(ty.Id, [name])
    m = tf.m
    keys = m.keys if m.keys is not None else enumerate_domain(ex, st, m.dom)
    return FrameV(index, keys, m.dom, z3.K(z3.IntSort(), m.arrs[0]), z3.K(z3.IntSort(), z3.K(IdS, z3.BoolVal(False))))


# ---------------------------------------------------------------------------- DataFrame
def dataframe(ex, st, args, kwargs, node):
    """pd.DataFrame(matrix or None, columns=labels, index=labels)"""
    from . import maplib
    data = args[0] if args else kwargs.get("data")
    cols, index = kwargs.get("columns"), kwargs.get("index")
    cols = ex.coerce(ty.Seq(ty.Id), ex.to_storable(cols), node)
    index = ex.coerce(ty.Seq(ty.Id), ex.to_storable(index), node)
    (ca,) = cols.arrs
    k = _k("dk")
    # column labels are station ids: pairwise distinct (registry keys); position of a label = kpos
    pos = lambda c: maplib._kpos(ca, c)
    j = _i("dj")
    hascol = z3.Lambda([k], z3.And(pos(k) >= 0, pos(k) < cols.len, z3.Select(ca, pos(k)) == k))
    if isinstance(data, ty.OptV):
        mat, isnone = data.val, data.isnone
    elif data is None:
        mat, isnone = None, z3.BoolVal(True)
    else:
        mat, isnone = data, z3.BoolVal(False)
    r = _i("dr")
    if mat is not None:
        ex.safety(st, "DataFrame-shape", z3.Implies(z3.Not(isnone), z3.And(mat.rows == index.len, mat.cols == cols.len)), node)
        ex.safety(st, "DataFrame-of-None-has-no-rows", z3.Implies(isnone, index.len == 0), node)
        cell = z3.Lambda([r], z3.Lambda([k], ty.sel(mat.arr, r, pos(k))))
    else:
        ex.safety(st, "DataFrame-of-None-has-no-rows", index.len == 0, node)
        cell = z3.K(z3.IntSort(), z3.K(IdS, z3.RealVal(0)))
    nan = z3.K(z3.IntSort(), z3.K(IdS, z3.BoolVal(False)))
    return _out(FrameV(index, cols, hascol, cell, nan), st)


def frame_setitem(ex, st, f: FrameV, col, val, node):
    """frame[label] = scalar : a new column (appended) or an overwritten one, every row set to the scalar"""
    v = ty.to_real(_num(ex, st, val, node))
    (c,) = ty.pack(ty.Id, ex.coerce(ty.Id, col, node))
    had = z3.Select(f.hascol, c)
    cols = ty.SeqV(ty.Id, [z3.If(had, f.cols.arrs[0], z3.Store(f.cols.arrs[0], f.cols.len, c))], z3.If(had, f.cols.len, f.cols.len + 1))
    r, k = _i("sr"), _k("sk")
    cell = z3.Lambda([r], z3.Lambda([k], z3.If(k == c, v, ty.sel(f.cell, r, k))))
    nan = z3.Lambda([r], z3.Lambda([k], z3.And(k != c, ty.sel(f.nan, r, k))))
    return FrameV(f.index, cols, z3.Store(f.hascol, c, z3.BoolVal(True)), cell, nan)


def concat(ex, st, args, kwargs, node):
    """pd.concat([f1, f2]) : rows of f1 then rows of f2; columns = union of the labels; a cell whose column the source frame lacks is NaN"""
    (lst,) = args
    if not (isinstance(lst, PyList) and len(lst.items) == 2 and all(isinstance(x, FrameV) for x in lst.items)) or kwargs:
        raise _U("pd.concat of anything but two frames", node)
    a, b = lst.items
    i, r, k = _i("ci"), _i("cr"), _k("ck")
    n1 = a.index.len
    index = ty.SeqV(ty.Id, [z3.Lambda([i], z3.If(i < n1, ty.sel(a.index.arrs[0], i), ty.sel(b.index.arrs[0], i - n1)))], n1 + b.index.len)
    hascol = z3.Lambda([k], z3.Or(z3.Select(a.hascol, k), z3.Select(b.hascol, k)))
    cell = z3.Lambda([r], z3.Lambda([k], z3.If(r < n1, ty.sel(a.cell, r, k), ty.sel(b.cell, r - n1, k))))
    nan = z3.Lambda([r], z3.Lambda([k], z3.If(r < n1, z3.Or(z3.Not(z3.Select(a.hascol, k)), ty.sel(a.nan, r, k)),
                                             z3.Or(z3.Not(z3.Select(b.hascol, k)), ty.sel(b.nan, r - n1, k)))))
    return _out(FrameV(index, enumerate_domain(ex, st, hascol, "cols"), hascol, cell, nan), st)


def frame_fillna(ex, st, recv: FrameV, args, kwargs, node):
    v = ty.to_real(_num(ex, st, args[0], node))
    r, k = _i("fr"), _k("fk")
    cell = z3.Lambda([r], z3.Lambda([k], z3.If(ty.sel(recv.nan, r, k), v, ty.sel(recv.cell, r, k))))
    return _out(FrameV(recv.index, recv.cols, recv.hascol, cell, z3.K(z3.IntSort(), z3.K(IdS, z3.BoolVal(False)))), st)


def frame_reindex(ex, st, recv: FrameV, args, kwargs, node):
    """frame.reindex(columns=labels): exactly these columns in this order; a label the frame lacks becomes a NaN column"""
    from . import maplib
    if args or set(kwargs) != {"columns"}:
        raise _U("reindex(...) other than columns=", node)
    cols = ex.coerce(ty.Seq(ty.Id), ex.to_storable(kwargs["columns"]), node)
    (ca,) = cols.arrs
    k, r = _k("rk"), _i("rr")
    pos = lambda c: maplib._kpos(ca, c)
    hascol = z3.Lambda([k], z3.And(pos(k) >= 0, pos(k) < cols.len, z3.Select(ca, pos(k)) == k))
    nan = z3.Lambda([r], z3.Lambda([k], z3.Or(z3.Not(z3.Select(recv.hascol, k)), ty.sel(recv.nan, r, k))))
    return _out(FrameV(recv.index, cols, hascol, recv.cell, nan), st)


def frame_to_numpy(ex, st, recv: FrameV, args, kwargs, node):
    r, j = _i("nr"), _i("nj")
    col = lambda jj: ty.sel(recv.cols.arrs[0], jj)
    ex.safety(st, "to_numpy-without-NaN", ty.FA([r, j], z3.Implies(z3.And(r >= 0, r < recv.index.len, j >= 0, j < recv.cols.len), z3.Not(ty.sel(recv.nan, r, col(j))))), node)
    return _out(ty.MatV(z3.Lambda([r], z3.Lambda([j], ty.sel(recv.cell, r, col(j)))), recv.index.len, recv.cols.len), st)


FRAME_METHODS = dict(fillna=frame_fillna, reindex=frame_reindex, to_numpy=frame_to_numpy)


def frame_attr(ex, st, v, attr, node):
    from .symex import Intrinsic
    if isinstance(v, ToFrameV) and attr == "T":
        return _out(row_frame(ex, st, v, node), st)
    if isinstance(v, FrameV):
        if attr == "index":
            return _out(v.index, st)
        if attr == "columns":
            return _out(v.cols, st)
        if attr in FRAME_METHODS:
            return _out(Intrinsic("DataFrame." + attr, FRAME_METHODS[attr], recv=v), st)
    return None


def current_attr(ex, st, obj, attr, node):
    """attributes a Current inherits from pandas.Series"""
    from .symex import Intrinsic
    if attr == "index":
        m = series_map(ex, st, obj, node)
        return _out(m.keys if m.keys is not None else enumerate_domain(ex, st, m.dom), st)
    if attr == "empty":
        # pandas: a Series is empty iff it has no entries
        m = series_map(ex, st, obj, node)
        keys = m.keys if m.keys is not None else enumerate_domain(ex, st, m.dom)
        return _out(keys.len == 0, st)
    table = dict(add=series_add, to_frame=series_to_frame)
    if attr in table:
        return _out(Intrinsic("Series." + attr, table[attr], recv=obj), st)
    return None


def super_attr(ex, st, obj, attr, node):
    """super().<attr> inside Current: the pandas.Series implementation"""
    from .symex import Intrinsic
    if attr == "__init__":
        return _out(Intrinsic("Series.__init__", lambda ex_, st_, recv, a, k, n: series_init(ex_, st_, recv, a, k, n), recv=obj), st)
    if attr == "__mul__":
        return _out(Intrinsic("Series.__mul__", series_mul, recv=obj), st)
    return None


def fresh_frame(base):
    """an arbitrary frame (loop havoc): every component unconstrained"""
    return FrameV(ty.fresh(ty.Seq(ty.Id), base + "_index"), ty.fresh(ty.Seq(ty.Id), base + "_cols"),
                  z3.Const(ty.fresh_name(base + "_hascol"), z3.ArraySort(IdS, z3.BoolSort())),
                  z3.Const(ty.fresh_name(base + "_cell"), CellS), z3.Const(ty.fresh_name(base + "_nan"), NanS))
