"""Sequence-level library model: comprehensions, sorted, sum, min/max over symbolic sequences."""
from __future__ import annotations

import ast

import z3

from . import vtypes as ty
from .state import PyList, PyDict, PySet
from .lib import _U, _out, _raise, GenV, _num, as_seq, _items_of


def fresh_counter():
    """current value of the global fresh-name counter (names created later carry a larger suffix)"""
    n = ty.fresh_name("mark")
    return int(n.rsplit("!", 1)[1])


def lift_fork(st, sk, n_pc, n0, i, terms, rng, pattern=None, guards=()):
    """A body (key function, comprehension element) was executed once in the fork `sk` on the Skolem index `i`.  Constants created during
    that execution (callee results, witnesses) depend on i: they are replaced by fresh functions of i, the facts the fork assumed about them
    are assumed in `st` for all i, and `terms` are returned with the same replacement."""
    import re
    extra = list(sk.pc[n_pc:])
    consts, seen, stack = {}, set(), [t for t in list(extra) + list(terms) if isinstance(t, z3.ExprRef)]
    while stack:
        t = stack.pop()
        if t.get_id() in seen:
            continue
        seen.add(t.get_id())
        if z3.is_quantifier(t):
            stack.append(t.body())
        elif z3.is_app(t):
            if t.num_args() == 0 and t.decl().kind() == z3.Z3_OP_UNINTERPRETED and not t.eq(i):
                m = re.search(r"!(\d+)", t.decl().name())
                if m and int(m.group(1)) >= n0:
                    consts[t.get_id()] = t
            stack.extend(t.children())
    subs = [(c, z3.Function(c.decl().name() + "@i", z3.IntSort(), c.sort())(i)) for c in consts.values()]
    sub = (lambda t: z3.substitute(t, *subs)) if subs else (lambda t: t)
    if extra:
        # (range of the Skolem index and the branch / filter conditions of this fork) => everything else the fork assumed
        body = z3.Implies(z3.And(rng, *[sub(g) for g in guards]), z3.And(*[sub(x) for x in extra]))
        import os
        if os.environ.get("PYVC_DEBUG"):
            print("LIFT", i, "consts", [str(c) for c in consts.values()], "\n   ", body)
        st.assume(ty.FA([i], body, patterns=[pattern] if pattern is not None else None, qid="lifted"))
    return [sub(t) if isinstance(t, z3.ExprRef) else t for t in terms]


def comprehension(ex, st, e, kind):
    from .symex import Out
    gens = e.generators
    if len(gens) != 1 or gens[0].is_async:
        raise _U("nested comprehension", e)
    g = gens[0]
    res = []
    for o in ex.eval(g.iter, st):
        if o.kind != "val":
            res.append(o)
            continue
        it = o.val
        items = ex.concrete_items(it)
        if items is not None:
            res.extend(_concrete_comp(ex, o.st, e, kind, g, items))
        else:
            res.extend(_symbolic_comp(ex, o.st, e, kind, g, it))
    return res


def _concrete_comp(ex, st, e, kind, g, items):
    """Unroll: exact, since the iterable has a concrete shape."""
    from .symex import Out
    from .state import Frame
    work = [([], st)]
    raises = []
    for item in items:
        nxt = []
        for acc, s1 in work:
            s1.frames.append(Frame({}, parent=len(s1.frames) - 1, fi=s1.frame.fi, label="<comp>"))
            s1.frame.env["__class__"] = s1.frames[-2].env.get("__class__")
            outs = ex.assign_target(g.target, item, s1)
            for o0 in outs:
                if o0.kind != "next":
                    o0.st.frames.pop()
                    raises.append(o0)
                    continue
                conds = [(True, o0.st)]
                for cnd in g.ifs:
                    c2 = []
                    for keep, s2 in conds:
                        if not keep:
                            c2.append((False, s2))
                            continue
                        for oc in ex.eval(cnd, s2):
                            if oc.kind != "val":
                                oc.st.frames.pop()
                                raises.append(oc)
                                continue
                            t = ex.truth(oc.val, oc.st, cnd)
                            for taken, s3 in ex.branch(oc.st, t, f"comp-if@L{e.lineno}"):
                                c2.append((taken, s3))
                    conds = c2
                for keep, s2 in conds:
                    if not keep:
                        s2.frames.pop()
                        nxt.append((acc, s2))
                        continue
                    if kind == "dict":
                        for ok in ex.eval(e.key, s2):
                            if ok.kind != "val":
                                ok.st.frames.pop(); raises.append(ok); continue
                            for ov in ex.eval(e.value, ok.st):
                                if ov.kind != "val":
                                    ov.st.frames.pop(); raises.append(ov); continue
                                ov.st.frames.pop()
                                nxt.append((acc + [(ok.val, ov.val)], ov.st))
                    else:
                        for ov in ex.eval(e.elt, s2):
                            if ov.kind != "val":
                                ov.st.frames.pop(); raises.append(ov); continue
                            ov.st.frames.pop()
                            nxt.append((acc + [ov.val], ov.st))
        work = nxt
    res = list(raises)
    for acc, s1 in work:
        if kind == "list":
            res.append(Out("val", PyList(acc), s1))
        elif kind == "gen":
            res.append(Out("val", GenV(items=acc), s1))
        elif kind == "set":
            res.extend(ex.lib.b_set(ex, s1, [PyList(acc)], {}, e))
        else:
            res.append(Out("val", PyDict({ex.dict_key(k, e): v for k, v in acc}), s1))
    return res


def _symbolic_comp(ex, st, e, kind, g, it):
    """Quantified characterisation: the element expression is executed once on a Skolem element."""
    from .symex import Out
    from .state import Frame
    seq = as_seq(ex, st, it, e)
    if not ex.feasible(st, seq.len > 0):
        # the iterable is empty on this path: the body is never evaluated
        empty = {"list": PyList([]), "gen": GenV(items=[]), "dict": PyDict({})}.get(kind)
        if empty is not None:
            return [Out("val", empty, st)]
    i = z3.Int(ty.fresh_name("ci"))
    n0 = fresh_counter()
    s1 = st.fork()
    s1.frames.append(Frame({}, parent=len(s1.frames) - 1, fi=s1.frame.fi, label="<comp>"))
    s1.frame.env["__class__"] = s1.frames[-2].env.get("__class__")
    n_pc0 = len(s1.pc)
    nd0 = len(s1.decisions)
    s1.assume(z3.And(i >= 0, i < seq.len))
    npc = len(s1.pc)
    heap0 = dict(s1.heap)
    alloc0 = s1.alloc
    outs = ex.assign_target(g.target, seq.at(i), s1)
    if len(outs) != 1 or outs[0].kind != "next":
        raise _U("comprehension target", e)
    ex.assume_wf(s1, seq.elem, seq.at(i))
    cond = z3.BoolVal(True)
    for cnd in g.ifs:
        # a filter with short-circuit operators forks: the forks are merged into one formula (path condition => truth value)
        sf = s1.fork()
        sf.assume(cond)
        nd = len(sf.decisions)
        oc = ex.eval(cnd, sf)
        if not oc or any(o.kind != "val" for o in oc):
            raise _U("comprehension filter raises on a symbolic element", cnd)
        disj = []
        for o in oc:
            pcond = z3.And(*o.st.decisions[nd:]) if len(o.st.decisions) > nd else z3.BoolVal(True)
            (d_,) = lift_fork(st, o.st, n_pc0, n0, i, [z3.And(pcond, ty.to_bool(ex.truth(o.val, o.st, cnd)))], z3.And(i >= 0, i < seq.len),
                              guards=list(o.st.decisions[nd0:]) + [cond])
            disj.append(d_)
        cond = z3.And(cond, z3.Or(*disj) if len(disj) > 1 else disj[0])
    if kind == "dict":
        return _symbolic_dict_comp(ex, st, e, s1, seq, i, cond, n0, n_pc0, nd0)
    s1.assume(cond)
    npc1 = len(s1.decisions)
    ov_all = ex.eval(e.elt, s1)
    # the body may raise on some element (a callee's exceptional outcome): the comprehension then raises, in the unchanged state (the body
    # is pure); that fork - its Skolem index is "some element" - is the exceptional outcome.  The normal outcome assumes that no element
    # raises: the forks that return a value carry the negated raise conditions among their facts, which are lifted to all indices below.
    raised = [o for o in ov_all if o.kind == "raise"]
    for o in raised:
        o.st.frames.pop()
    ov = [o for o in ov_all if o.kind == "val"]
    if any(o.kind not in ("val", "raise") for o in ov_all) or not ov:
        raise _U("comprehension body does not yield a value on a symbolic element", e)
    def _written(k, a):
        if k in heap0:
            return not heap0[k].eq(a)
        return not z3.is_const(a)          # a field first *read* inside the body shows up as its initial array constant; anything else is a write
    writes = [o for o in ov if not o.st.alloc.eq(alloc0) or any(_written(k, a) for k, a in o.st.heap.items())]
    if writes:
        # the body constructs objects (e.g. [SessionInfo(...) for ev in evs]): supported when there is one normal outcome and every heap write
        # goes to an object allocated by the body itself; the objects of the different elements are NEW(i), pairwise distinct and fresh
        if len(ov) != 1:
            raise _U("comprehension body that allocates objects has several normal outcomes", e)
        _lift_allocating_body(ex, st, ov[0].st, alloc0, heap0, n_pc0, n0, i, z3.And(i >= 0, i < seq.len), list(ov[0].st.decisions[nd0:]) + [cond], e)
    vals = [ex.to_storable(o.val) for o in ov]
    ts = [ty.type_of(v) for v in vals]
    if any(t_ is None for t_ in ts):
        raise _U(f"comprehension element of unknown sort: {vals!r}", e)
    t = ts[0]
    if any(repr(t_) != repr(t) for t_ in ts):
        if all(t_ in (ty.Real, ty.Int) for t_ in ts):
            t = ty.Real
        elif all(isinstance(t_, ty.SeqT) and t_.elem in (ty.Real, ty.Int) for t_ in ts):
            # rows of numbers: python ints and floats mix freely; unify to real rows
            t = ty.SeqT(ty.Real)
            k_ = z3.Int(ty.fresh_name("ui"))
            vals = [v if v.elem is ty.Real else ty.SeqV(ty.Real, [z3.Lambda([k_], z3.ToReal(z3.Select(v.arrs[0], k_)))], v.len) for v in vals]
        else:
            raise _U(f"comprehension body yields values of different sorts: {ts}", e)
    # a body that forks (conditional expression) is merged: value = ite(path condition 1, v1, ite(..))
    packed = []
    for o, v in zip(ov, vals):
        pcond = z3.And(*o.st.decisions[npc1:]) if len(o.st.decisions) > npc1 else z3.BoolVal(True)
        lifted = lift_fork(st, o.st, n_pc0, n0, i, [pcond] + list(ty.pack(t, v)), z3.And(i >= 0, i < seq.len),
                           guards=list(o.st.decisions[nd0:]) + [cond])
        packed.append((lifted[0], lifted[1:]))
    comps = packed[-1][1]
    for pcond, cs in packed[:-1][::-1]:
        comps = [z3.If(pcond, c1, c2) for c1, c2 in zip(cs, comps)]
    val = ty.unpack(t, comps)
    if not g.ifs:
        arrs = [z3.Lambda([i], c) for c in comps]
        r = ty.SeqV(t, arrs, seq.len)
    else:
        r = filtered(ex, st, i, seq.len, cond, t, comps, src_arrs=seq.arrs)
    if kind == "list":
        return [Out("val", r, st)] + raised
    if kind == "gen":
        return [Out("val", GenV(seq=r), st)] + raised
    if kind == "set":
        return set_of(ex, st, r, e) + raised
    raise _U("comprehension kind", e)


def _stores(a, stop=None):
    """(base array, [(index, value), ...]) of a nest of stores; peeling stops at `stop` (the array of the state before - it may itself be a store nest:
    objects allocated / fields written before the comprehension)"""
    out = []
    while z3.is_app(a) and a.decl().kind() == z3.Z3_OP_STORE and not (stop is not None and a.eq(stop)):
        out.append((a.arg(1), a.arg(2)))
        a = a.arg(0)
    return a, out[::-1]


def _lift_allocating_body(ex, st, sk, alloc0, heap0, n_pc, n0, i, rng, guards, node):
    """The body of a comprehension, executed once in the fork `sk` on the Skolem index i, allocated objects and initialised their fields.
    In the state `st` after the comprehension: each such object is a function NEW(i) of the element index (not allocated before, pairwise
    distinct, allocated afterwards), every heap field differs from its old value only at these objects, where it holds the value the body
    stored (as a function of i).  Heap writes to any other object are not supported."""
    base, allocs = _stores(sk.alloc, alloc0)
    if not base.eq(alloc0):
        raise _U("comprehension body: allocation state cannot be related to the state before the comprehension", node)
    fresh = [idx for idx, _ in allocs]
    if not fresh:
        raise _U("comprehension body writes the heap of existing objects", node)
    grd = z3.And(rng, *guards) if guards else rng
    r = z3.Const(ty.fresh_name("cr"), ty.RefSort)
    j = z3.Int(ty.fresh_name("cj"))
    lifted_fresh = lift_fork(st, sk, n_pc, n0, i, list(fresh), rng, guards=guards)
    grd_l = lift_fork(st, sk, len(sk.pc), n0, i, [grd], rng)[0]
    new_alloc = z3.Const(ty.fresh_name("alloc"), alloc0.sort())
    st.assume(ty.FA([r], z3.Implies(z3.Select(alloc0, r), z3.Select(new_alloc, r)), patterns=[z3.Select(new_alloc, r)]))
    for a_, f in enumerate(lifted_fresh):
        st.assume(ty.FA([i], z3.Implies(grd_l, z3.And(f != 0, z3.Not(z3.Select(alloc0, f)), z3.Select(new_alloc, f))), patterns=[f]))
        fj = z3.substitute(f, (i, j))
        st.assume(ty.FA([i, j], z3.Implies(z3.And(grd_l, z3.substitute(grd_l, (i, j)), i != j), f != fj), patterns=[z3.MultiPattern(f, fj)]))
        for g in lifted_fresh[a_ + 1:]:
            st.assume(ty.FA([i, j], z3.Implies(z3.And(grd_l, z3.substitute(grd_l, (i, j))), f != z3.substitute(g, (i, j))),
                            patterns=[z3.MultiPattern(f, z3.substitute(g, (i, j)))]))
    st.alloc = new_alloc
    for k, a1 in sk.heap.items():
        a0 = heap0.get(k)
        if a0 is not None and a0.eq(a1):
            continue
        b, sts = _stores(a1, a0)
        if a0 is None:
            a0 = b                         # the field was first touched inside the body: its initial array
        if not b.eq(a0):
            raise _U(f"comprehension body replaces the heap field {k} (a callee with a frame wider than the allocated objects)", node)
        if any(not any(idx.eq(fr) for fr in fresh) for idx, _ in sts):
            raise _U(f"comprehension body writes {k} of an object it did not allocate", node)
        h1 = z3.Const(ty.fresh_name(f"H:{k}"), a0.sort())
        st.assume(ty.FA([r], z3.Implies(z3.Select(alloc0, r), z3.Select(h1, r) == z3.Select(a0, r)), patterns=[z3.Select(h1, r)]))
        last = {}
        for idx, val in sts:
            last[idx.get_id()] = (idx, val)
        for idx, val in last.values():
            li, lv = lift_fork(st, sk, len(sk.pc), n0, i, [idx, val], rng)
            st.assume(ty.FA([i], z3.Implies(grd_l, z3.Select(h1, li) == lv), patterns=[li]))
        st.heap[k] = h1


def _symbolic_dict_comp(ex, st, e, s1, seq, i, cond, n0, n_pc0, nd0):
    """{key(x): value(x) for x in seq [if cond]} over a symbolic sequence: the mapping whose domain is the set of keys that occur and whose
    value at a key is the value of its LAST occurrence (explicit witness function); the key order is left unspecified (some enumeration)."""
    from .symex import Out
    from . import pdlib
    s1.assume(cond)
    ok = ex.eval(e.key, s1)
    if len(ok) != 1 or ok[0].kind != "val":
        raise _U("dict comprehension key forks or raises on a symbolic element", e)
    ovs_all = ex.eval(e.value, ok[0].st)
    # the value may raise on some element (a callee's exceptional outcome): the comprehension then raises in the unchanged state; the normal
    # outcome carries the negated raise conditions among its facts, lifted to all indices (as for list comprehensions)
    raised = [o for o in ovs_all if o.kind == "raise"]
    for o in raised:
        o.st.frames.pop()
    ovs = [o for o in ovs_all if o.kind == "val"]
    if len(ovs) != 1 or len(ovs) + len(raised) != len(ovs_all):
        raise _U("dict comprehension value forks on a symbolic element", e)
    kv = ex.coerce(ty.Id, ok[0].val, e)
    vv = ex.to_storable(ovs[0].val)
    vt = ty.type_of(vv)
    if isinstance(vv, int) and not isinstance(vv, bool):
        vv = z3.IntVal(vv)
    if vt is None:
        raise _U(f"dict comprehension value of unknown sort: {vv!r}", e)
    rng = z3.And(i >= 0, i < seq.len)
    lifted = lift_fork(st, ovs[0].st, n_pc0, n0, i, [kv] + list(ty.pack(vt, vv)), rng, guards=list(ovs[0].st.decisions[nd0:]) + [cond])
    key_i, val_i = lifted[0], lifted[1:]
    at = lambda f, x: z3.substitute(f, (i, x))
    dom = z3.Const(ty.fresh_name("dcdom"), z3.ArraySort(ty.IdSort, z3.BoolSort()))
    arrs = [z3.Const(ty.fresh_name("dcval"), z3.ArraySort(ty.IdSort, c.sort())) for c in val_i]
    lp = z3.Function(ty.fresh_name("dclast"), ty.IdSort, z3.IntSort())
    k, j = z3.Const(ty.fresh_name("dk"), ty.IdSort), z3.Int(ty.fresh_name("dj"))
    inr = lambda x: z3.And(x >= 0, x < seq.len, at(cond, x))
    st.assume(ty.FA([i], z3.Implies(inr(i), z3.And(z3.Select(dom, key_i), lp(key_i) >= i)), patterns=[ty.sel(a, i) for a in seq.arrs[:1] if not (z3.is_quantifier(a) and a.is_lambda())] or None))
    st.assume(ty.FA([k], z3.Implies(z3.Select(dom, k), z3.And(inr(lp(k)), at(key_i, lp(k)) == k, *[z3.Select(a, k) == at(v, lp(k)) for a, v in zip(arrs, val_i)])),
                    patterns=[z3.Select(dom, k)]))
    keys = pdlib.enumerate_domain(ex, st, dom, "dckeys")
    return [Out("val", ty.MapV(ty.Id, vt, dom, arrs, keys), st)] + raised


FLT_LEN = z3.Function("flt_len", z3.ArraySort(z3.IntSort(), z3.BoolSort()), z3.IntSort(), z3.IntSort())
FLT_IDX = z3.Function("flt_idx", z3.ArraySort(z3.IntSort(), z3.BoolSort()), z3.IntSort(), z3.IntSort(), z3.IntSort())
FLT_POS = z3.Function("flt_pos", z3.ArraySort(z3.IntSort(), z3.BoolSort()), z3.IntSort(), z3.IntSort(), z3.IntSort())


def filter_maps(i, n, cond):
    """The order-preserving selection of the indices 0 <= i < n that satisfy cond(i), as three functions of the condition (a boolean array)
    and n: its length, position in the result -> source index, source index -> position in the result.  The functions are canonical (the
    same condition yields the same terms), so a specification can name the selection a piece of code computes."""
    condarr = z3.Lambda([i], z3.simplify(cond))
    m = FLT_LEN(condarr, n)
    idx = lambda j: FLT_IDX(condarr, n, j)
    pos = lambda k: FLT_POS(condarr, n, k)
    return condarr, m, idx, pos


def filter_axioms(i, n, cond, src_arrs=()):
    condarr, m, idx, pos = filter_maps(i, n, cond)
    j, k = z3.Int(ty.fresh_name("fj")), z3.Int(ty.fresh_name("fk"))
    sub = lambda f, x: z3.substitute(f, (i, x))
    return [
        z3.And(m >= 0, m <= z3.If(n >= 0, n, 0)),
        ty.FA([j], z3.Implies(z3.And(j >= 0, j < m), z3.And(idx(j) >= 0, idx(j) < n, sub(cond, idx(j)), pos(idx(j)) == j)), patterns=[idx(j)]),
        ty.FA([j, k], z3.Implies(z3.And(j >= 0, j < k, k < m), idx(j) < idx(k)), patterns=[z3.MultiPattern(idx(j), idx(k))]),
        ty.FA([k], z3.Implies(z3.And(k >= 0, k < n, sub(cond, k)), z3.And(pos(k) >= 0, pos(k) < m, idx(pos(k)) == k)),
              patterns=[pos(k)] + [z3.Select(a, k) for a in src_arrs if not (z3.is_quantifier(a) and a.is_lambda())]),
    ]


def filtered(ex, st, i, n, cond, t, comps, src_arrs=()):
    """Order-preserving subsequence {body(i) | 0<=i<n, cond(i)} with explicit index maps: fresh function symbols (good E-matching triggers)
    that are declared equal to the canonical selection functions of the condition (so that specifications can name the same selection)."""
    m = z3.Int(ty.fresh_name("flen"))
    idx = z3.Function(ty.fresh_name("fidx"), z3.IntSort(), z3.IntSort())     # position in result -> source index
    pos = z3.Function(ty.fresh_name("fpos"), z3.IntSort(), z3.IntSort())     # source index -> position in result
    j, k = z3.Int(ty.fresh_name("fj")), z3.Int(ty.fresh_name("fk"))
    sub = lambda f, x: z3.substitute(f, (i, x))
    st.assume(z3.And(m >= 0, m <= z3.If(n >= 0, n, 0)))
    st.assume(ty.FA([j], z3.Implies(z3.And(j >= 0, j < m),
                                        z3.And(idx(j) >= 0, idx(j) < n, sub(cond, idx(j)), pos(idx(j)) == j)),
                        patterns=[idx(j)]))
    st.assume(ty.FA([j, k], z3.Implies(z3.And(j >= 0, j < k, k < m), idx(j) < idx(k)), patterns=[z3.MultiPattern(idx(j), idx(k))]))
    st.assume(ty.FA([k], z3.Implies(z3.And(k >= 0, k < n, sub(cond, k)),
                                        z3.And(pos(k) >= 0, pos(k) < m, idx(pos(k)) == k)),
                        patterns=[pos(k)] + [z3.Select(a, k) for a in src_arrs if not (z3.is_quantifier(a) and a.is_lambda())]))
    if getattr(ex, "cur_canonical_filters", False):
        # opt-in (contract extra canonical_filters=True): only where a specification has to name the selection
        condarr, cm, cidx, cpos = filter_maps(i, n, cond)
        st.assume(m == cm)
        st.assume(ty.FA([j], idx(j) == cidx(j), patterns=[idx(j)]))
        st.assume(ty.FA([k], pos(k) == cpos(k), patterns=[pos(k)]))
    arrs = [z3.Lambda([j], sub(c, idx(j))) for c in comps]
    return ty.SeqV(t, arrs, m)


def set_of(ex, st, v, node):
    """set(seq): membership array with the two characterising axioms (Skolem witness function)."""
    from .lib import SymSet
    if isinstance(v, GenV):
        v = v.seq
    if not (isinstance(v, ty.SeqV) and len(v.arrs) == 1):
        raise _U("set() of a symbolic sequence of structured elements", node)
    (a,) = v.arrs
    esort = a.sort().range()
    mem = z3.Const(ty.fresh_name("set"), z3.ArraySort(esort, z3.BoolSort()))
    wit = z3.Function(ty.fresh_name("setw"), esort, z3.IntSort())
    i = z3.Int(ty.fresh_name("i"))
    x = z3.Const(ty.fresh_name("x"), esort)
    st.assume(ty.FA([i], z3.Implies(z3.And(i >= 0, i < v.len), z3.Select(mem, z3.Select(a, i))), patterns=[z3.Select(a, i)]))
    st.assume(ty.FA([x], z3.Implies(z3.Select(mem, x), z3.And(wit(x) >= 0, wit(x) < v.len, z3.Select(a, wit(x)) == x)),
                        patterns=[z3.Select(mem, x)]))
    return _out(SymSet(v.elem, mem, src=v), st)


def sorted_set(ex, st, sset, node, reverse=False):
    """sorted(set): strictly increasing sequence with exactly the members."""
    esort = sset.mem.sort().domain()
    arr = z3.Const(ty.fresh_name("sorted"), z3.ArraySort(z3.IntSort(), esort))
    n = z3.Int(ty.fresh_name("slen"))
    pos = z3.Function(ty.fresh_name("spos"), esort, z3.IntSort())
    i, j = z3.Int(ty.fresh_name("i")), z3.Int(ty.fresh_name("j"))
    x = z3.Const(ty.fresh_name("x"), esort)
    st.assume(n >= 0)
    st.assume(ty.FA([i], z3.Implies(z3.And(i >= 0, i < n), z3.Select(sset.mem, z3.Select(arr, i))), patterns=[z3.Select(arr, i)]))
    less = (lambda p, q: p > q) if reverse else (lambda p, q: p < q)
    st.assume(ty.FA([i, j], z3.Implies(z3.And(i >= 0, i < j, j < n), less(z3.Select(arr, i), z3.Select(arr, j))),
                        patterns=[z3.MultiPattern(z3.Select(arr, i), z3.Select(arr, j))]))
    st.assume(ty.FA([x], z3.Implies(z3.Select(sset.mem, x), z3.And(pos(x) >= 0, pos(x) < n, z3.Select(arr, pos(x)) == x)),
                        patterns=[z3.Select(sset.mem, x)]))
    return ty.SeqV(sset.elem, [arr], n)


def sum_seq(ex, st, v, start, node):
    """sum(seq) / sum(generator) over a symbolic sequence of numbers: the Sum operator (a constant summand c gives c x length)"""
    from .nplib import SUM
    if isinstance(v, GenV):
        v = v.seq
    if not (isinstance(v, ty.SeqV) and v.elem in (ty.Real, ty.Int)):
        raise _U(f"sum() of {v!r}", node)
    i = z3.Int(ty.fresh_name("si"))
    body = z3.simplify(ty.sel(v.arrs[0], i))
    s0 = ty.to_z3num(_num(ex, st, start, node))
    if z3.is_int_value(body) or z3.is_rational_value(body):
        n = z3.If(v.len >= 0, v.len, 0)
        tot = body * n if z3.is_int(body) else body * z3.ToReal(n)
    else:
        a = v.arrs[0] if v.elem is ty.Real else z3.Lambda([i], z3.ToReal(ty.sel(v.arrs[0], i)))
        tot = SUM(a, v.len)
    if z3.is_int(tot) != z3.is_int(s0):
        tot, s0 = ty.to_real(tot), ty.to_real(s0)
    return _out(z3.simplify(tot + s0), st)


def minmax_seq(ex, st, v, node, is_min):
    if isinstance(v, GenV):
        v = v.seq
    if isinstance(v, ty.SeqV) and v.elem in (ty.Real, ty.Int):
        res = []
        for taken, s2 in ex.branch(st, v.len > 0, f"nonempty@L{getattr(node, 'lineno', 0)}"):
            if not taken:
                res.append(_raise("ValueError", s2, node))
                continue
            m = z3.Const(ty.fresh_name("min" if is_min else "max"), v.arrs[0].sort().range())
            w = z3.Int(ty.fresh_name("arg"))
            i = z3.Int(ty.fresh_name("i"))
            s2.assume(z3.And(w >= 0, w < v.len, z3.Select(v.arrs[0], w) == m))
            s2.assume(ty.FA([i], z3.Implies(z3.And(i >= 0, i < v.len),
                                                (m <= z3.Select(v.arrs[0], i)) if is_min else (m >= z3.Select(v.arrs[0], i)))))
            res.extend(_out(m, s2))
        return res
    raise _U(f"min/max of {v!r}", node)


def minmax_key(ex, st, args, kwargs, node, is_min):
    """max(seq, key=f) / min(seq, key=f) over a symbolic sequence: the result is an element seq[w] whose key is
    extremal (python returns the first such element; only extremality and membership are modelled)."""
    if len(args) != 1:
        raise _U("min/max with key and several arguments", node)
    v = args[0]
    if isinstance(v, GenV):
        v = v.seq
    if not isinstance(v, ty.SeqV):
        raise _U(f"min/max with key of {v!r}", node)
    key = kwargs["key"]
    res = []
    for taken, s2 in ex.branch(st, v.len > 0, f"nonempty@L{getattr(node, 'lineno', 0)}"):
        if not taken:
            res.append(_raise("ValueError", s2, node))
            continue
        i = z3.Int(ty.fresh_name("ki"))
        w = z3.Int(ty.fresh_name("karg"))
        ko = ex.call_value(key, [v.at(i)], {}, s2.fork(), node)
        kw = ex.call_value(key, [v.at(w)], {}, s2.fork(), node)
        if len(ko) != 1 or ko[0].kind != "val" or len(kw) != 1 or kw[0].kind != "val":
            raise _U("key function forks or raises", node)
        ki, kwv = ty.to_z3num(ko[0].val), ty.to_z3num(kw[0].val)
        s2.assume(z3.And(w >= 0, w < v.len))
        s2.assume(ty.FA([i], z3.Implies(z3.And(i >= 0, i < v.len), (kwv <= ki) if is_min else (kwv >= ki)),
                            patterns=[z3.Select(v.arrs[-1], i)]))
        r = v.at(w)
        ex.assume_wf(s2, v.elem, r)
        res.extend(_out(r, s2))
    return res


SORTP = z3.Function("sort_perm", z3.ArraySort(z3.IntSort(), ty.RefSort), z3.IntSort(), z3.IntSort())       # position in result -> position in input
SORTQ = z3.Function("sort_perm_inv", z3.ArraySort(z3.IntSort(), ty.RefSort), z3.IntSort(), z3.IntSort())   # position in input -> position in result


def permutation_facts(ra, rlen, ea, elen):
    """`ra[0:rlen]` is a rearrangement of `ea[0:elen]` (explicit index maps, keyed on the result array)"""
    j, i = z3.Int(ty.fresh_name("pj")), z3.Int(ty.fresh_name("pi"))
    P, Q = (lambda x: SORTP(ra, x)), (lambda x: SORTQ(ra, x))
    return [rlen == elen,
            ty.FA([j], z3.Implies(z3.And(j >= 0, j < rlen), z3.And(P(j) >= 0, P(j) < elen, z3.Select(ra, j) == z3.Select(ea, P(j)), Q(P(j)) == j)),
                  patterns=[z3.Select(ra, j)]),
            ty.FA([i], z3.Implies(z3.And(i >= 0, i < elen), z3.And(Q(i) >= 0, Q(i) < rlen, P(Q(i)) == i, z3.Select(ra, Q(i)) == z3.Select(ea, i))),
                  patterns=[Q(i), z3.Select(ea, i)])]


def sorted_by_key(ex, st, v, key, reverse, node):
    """sorted(seq_of_objects, key=f[, reverse=True]) (A-LIB): a rearrangement of the input whose keys are non-decreasing (non-increasing with
    reverse); equal keys keep their input order (stability).  The key function is executed once on a Skolem element."""
    if not (isinstance(v, ty.SeqV) and isinstance(v.elem, ty.RefT)):
        raise _U(f"sorted(key=...) of {v!r}", node)
    ra = z3.Const(ty.fresh_name("sorted"), v.arrs[0].sort())
    r = ty.SeqV(v.elem, [ra], v.len)
    for f in permutation_facts(ra, r.len, v.arrs[0], v.len):
        st.assume(f)
    i = z3.Int(ty.fresh_name("si"))
    n0 = fresh_counter()
    sk = st.fork()
    n_pc = len(sk.pc)
    sk.assume(z3.And(i >= 0, i < r.len))
    elem = r.at(i)
    ex.assume_wf(sk, v.elem, elem)
    # the Skolem element is one of the input's elements: whatever is known about all of them is known about it
    ko = ex.call_value(key, [elem], {}, sk, node)
    if len(ko) != 1 or ko[0].kind != "val":
        raise _U("sort key forks or raises on a symbolic element", node)
    kt = ty.to_z3num(_num(ex, st, ko[0].val, node))
    (kt,) = lift_fork(st, sk, n_pc, n0, i, [kt], z3.And(i >= 0, i < r.len), pattern=z3.Select(ra, i))
    j = z3.Int(ty.fresh_name("sj"))
    kj = z3.substitute(kt, (i, j))
    rng = z3.And(i >= 0, i < j, j < r.len)
    st.assume(ty.FA([i, j], z3.Implies(rng, (kt >= kj) if reverse else (kt <= kj)),
                    patterns=[z3.MultiPattern(z3.Select(ra, i), z3.Select(ra, j))]))
    st.assume(ty.FA([i, j], z3.Implies(z3.And(rng, kt == kj), SORTP(ra, i) < SORTP(ra, j)),
                    patterns=[z3.MultiPattern(z3.Select(ra, i), z3.Select(ra, j))]))
    st.ghost.setdefault("__sorted__", PyList()).items.append((r, kt, i))
    return r


_PERM = {}


def perm_fns(arr):
    """index maps of a rearrangement, one pair of uninterpreted functions per array sort, keyed on the result's first component array"""
    k = arr.sort().name()
    if k not in _PERM:
        _PERM[k] = (z3.Function(f"perm[{k}]", arr.sort(), z3.IntSort(), z3.IntSort()), z3.Function(f"perm_inv[{k}]", arr.sort(), z3.IntSort(), z3.IntSort()))
    return _PERM[k]


def sorted_tuples(ex, st, v, reverse, node):
    """sorted(list of numeric tuples[, reverse=True]) (A-LIB): a rearrangement of the input in non-decreasing (non-increasing) lexicographic order"""
    import ast as _ast
    from .lib import tuple_order
    arrs = [z3.Const(ty.fresh_name("sorted"), a.sort()) for a in v.arrs]
    r = ty.SeqV(v.elem, arrs, v.len)
    P, Q = perm_fns(arrs[0])
    j, i = z3.Int(ty.fresh_name("pj")), z3.Int(ty.fresh_name("pi"))
    same = lambda x, y: z3.And(*[ty.sel(a, x) == ty.sel(b, y) for a, b in zip(arrs, v.arrs)])
    st.assume(ty.FA([j], z3.Implies(z3.And(j >= 0, j < r.len), z3.And(P(arrs[0], j) >= 0, P(arrs[0], j) < v.len, same(j, P(arrs[0], j)), Q(arrs[0], P(arrs[0], j)) == j)),
                    patterns=[ty.sel(arrs[0], j)]))
    st.assume(ty.FA([i], z3.Implies(z3.And(i >= 0, i < v.len), z3.And(Q(arrs[0], i) >= 0, Q(arrs[0], i) < r.len, P(arrs[0], Q(arrs[0], i)) == i, same(Q(arrs[0], i), i))),
                    patterns=[Q(arrs[0], i), ty.sel(v.arrs[0], i)]))
    a, b = z3.Int(ty.fresh_name("sa")), z3.Int(ty.fresh_name("sb"))
    ordered = tuple_order(ex, st, _ast.GtE() if reverse else _ast.LtE(), r.at(a), r.at(b), node)
    st.assume(ty.FA([a, b], z3.Implies(z3.And(a >= 0, a < b, b < r.len), ty.to_bool(ordered)),
                    patterns=[z3.MultiPattern(ty.sel(arrs[0], a), ty.sel(arrs[0], b))]))
    return r


def sorted_(ex, st, args, kwargs, node):
    v = args[0]
    from .lib import SymSet
    if isinstance(v, GenV) and v.seq is not None:
        v = v.seq
    if isinstance(v, ty.SeqV) and isinstance(v.elem, ty.TupT) and set(kwargs) <= {"reverse"} and all(t in (ty.Real, ty.Int) for t in v.elem.items):
        rev = kwargs.get("reverse", False)
        if not isinstance(rev, bool):
            raise _U("sorted with symbolic reverse", node)
        return _out(sorted_tuples(ex, st, v, rev, node), st)
    if "key" in kwargs and isinstance(v, ty.SeqV):
        rev = kwargs.get("reverse", False)
        if not isinstance(rev, bool):
            raise _U("sorted with symbolic reverse", node)
        return _out(sorted_by_key(ex, st, v, kwargs["key"], rev, node), st)
    if isinstance(v, SymSet) and set(kwargs) <= {"reverse"}:
        return _out(sorted_set(ex, st, v, node, bool(kwargs.get("reverse", False))), st)
    items = _items_of(ex, st, v, node)
    if items is not None and not kwargs and all(ty.is_num_const(x) or isinstance(x, (str, tuple)) for x in items):
        try:
            return _out(PyList(sorted(items)), st)
        except TypeError:
            pass
    if items is not None and set(kwargs) <= {"reverse"} and all(ty.is_num_const(x) for x in items):
        return _out(PyList(sorted(items, reverse=bool(kwargs.get("reverse", False)))), st)
    raise _U("sorted() of symbolic data", node)
