"""Developer helper: verify single functions / lemmas and print every obligation.
usage: .venv/bin/python -m pyvc.dev [-v] [-t ms] name [name ...]   (name: qualname[@Recv] or lemma:NAME)"""
import sys, time
from pyvc import run as R


def main():
    args = sys.argv[1:]
    verbose = "-v" in args
    args = [a for a in args if a != "-v"]
    tmo = 10000
    if "-t" in args:
        i = args.index("-t"); tmo = int(args[i + 1]); del args[i:i + 2]
    fan = 1
    if "-j" in args:
        i = args.index("-j"); fan = int(args[i + 1]); del args[i:i + 2]
    only = None
    if "-k" in args:
        i = args.index("-k"); only = args[i + 1]; del args[i:i + 2]
    R._setup()
    for name in args:
        if name.startswith("lemma:"):
            task = dict(kind="lemma", name=name[6:], prop="DEV", timeout_ms=tmo)
        else:
            task = dict(kind="fn", name=name, prop="DEV", timeout_ms=tmo, fanout=fan, only=only)
        t0 = time.time()
        out = R.run_task(task)
        if out["error"]:
            print(out["error"]); continue
        if out["unsupported"]:
            print("UNSUPPORTED", out["unsupported"]); continue
        cnt = {}
        for r in out["results"]:
            cnt[r["status"]] = cnt.get(r["status"], 0) + 1
            if verbose or r["status"] not in ("discharged", "canary-ok"):
                print(f"  {r['status']:14s} {r['time_s']:6.2f}s {r['name']}  [{r['path'][-90:]}]")
                if r["status"] == "failed":
                    print("       model:", {k: v for k, v in (r.get("inputs_model") or {}).items()})
                    if r.get("replay"):
                        print("       replay:", str(r["replay"])[:300])
        print(f"{name}: {cnt} stats={out['stats']} wall={time.time()-t0:.1f}s")


main()
