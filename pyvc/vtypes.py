"""Type descriptors and typed symbolic values for pyvc.

A *type* T has a list of z3 component sorts comps(T).  A value of a non-scalar type is a
small Python structure whose leaves are z3 terms; z3 itself never sees datatypes, only
Int/Real/Bool/Id/Ref scalars and (nested) arrays of them.

Concrete Python values (int, Fraction, bool, str, None, tuple, list, dict) are kept as they
are for as long as possible, which gives exact partial evaluation of closed code for free.
"""
from __future__ import annotations

import itertools
from fractions import Fraction

import z3

IdSort = z3.DeclareSort("Id")       # strings used as identifiers (station/session/constraint names)
RefSort = z3.IntSort()              # object references; 0 is null
NULL = z3.IntVal(0)
INF = z3.Real("+inf")               # float("inf") stored in a real-sorted place: a constant > 1e30 (assumption A-INF)

_counter = itertools.count()


def fresh_name(base: str) -> str:
    return f"{base}!{next(_counter)}"


# ----------------------------------------------------------------------------- types
class T:
    def comps(self):
        raise NotImplementedError

    def __repr__(self):
        return self.__class__.__name__


class _Real(T):
    def comps(self):
        return [z3.RealSort()]

    def __repr__(self):
        return "Real"


class _Int(T):
    def comps(self):
        return [z3.IntSort()]

    def __repr__(self):
        return "Int"


class _Bool(T):
    def comps(self):
        return [z3.BoolSort()]

    def __repr__(self):
        return "Bool"


class _Id(T):
    def comps(self):
        return [IdSort]

    def __repr__(self):
        return "Id"


class _Str(T):
    """python str as a z3 string (used where text is built: URLs)"""

    def comps(self):
        return [z3.StringSort()]

    def __repr__(self):
        return "Str"


Real, Int, Bool, Id = _Real(), _Int(), _Bool(), _Id()
Str = _Str()


class RefT(T):
    def __init__(self, cls: str, nullable: bool = False, exact: bool = False):
        self.cls, self.nullable, self.exact = cls, nullable, exact

    def comps(self):
        return [RefSort]

    def __repr__(self):
        return f"Ref({self.cls}{'?' if self.nullable else ''})"


def Ref(cls, nullable=False, exact=False):
    return RefT(cls, nullable, exact)


class OptT(T):
    """A scalar-ish value that may be None."""

    def __init__(self, inner: T):
        self.inner = inner

    def comps(self):
        return [z3.BoolSort()] + self.inner.comps()

    def __repr__(self):
        return f"Opt({self.inner})"


def Opt(t):
    return OptT(t)


class TupT(T):
    def __init__(self, *items: T):
        self.items = list(items)

    def comps(self):
        return [c for t in self.items for c in t.comps()]

    def __repr__(self):
        return f"Tup({', '.join(map(repr, self.items))})"


def Tup(*items):
    return TupT(*items)


class SeqT(T):
    """list / homogeneous tuple / 1-D ndarray of symbolic length."""

    def __init__(self, elem: T):
        self.elem = elem

    def comps(self):
        return [z3.ArraySort(z3.IntSort(), c) for c in self.elem.comps()] + [z3.IntSort()]

    def __repr__(self):
        return f"Seq({self.elem})"


def Seq(t):
    return SeqT(t)


class MapT(T):
    """dict with scalar keys.  ordered=True additionally carries the key sequence."""

    def __init__(self, key: T, val: T, ordered: bool = False):
        self.key, self.val, self.ordered = key, val, ordered

    def comps(self):
        (k,) = self.key.comps()
        out = [z3.ArraySort(k, z3.BoolSort())] + [z3.ArraySort(k, c) for c in self.val.comps()]
        if self.ordered:
            out += SeqT(self.key).comps()
        return out

    def __repr__(self):
        return f"Map({self.key}->{self.val}{', ordered' if self.ordered else ''})"


def Map(k, v, ordered=False):
    return MapT(k, v, ordered)


class _Mat(T):
    """2-D real ndarray."""

    def comps(self):
        return [z3.ArraySort(z3.IntSort(), z3.ArraySort(z3.IntSort(), z3.RealSort())), z3.IntSort(), z3.IntSort()]

    def __repr__(self):
        return "Mat"


Mat = _Mat()


class _CMat(T):
    """2-D complex ndarray: a pair (real part, imaginary part) of real matrices of one shape."""

    def comps(self):
        return Mat.comps() + Mat.comps()

    def __repr__(self):
        return "CMat"


CMat = _CMat()


# ----------------------------------------------------------------------------- values
def sel(a, *idx):
    """a[i][j]..: Select with eager beta-reduction (the numpy model builds arrays as lambdas; a redex handed to the solver costs a round
    of quantifier instantiation per lambda, so it is reduced here) and constant-array folding"""
    for i in idx:
        i = to_z3num(i) if not is_z3(i) else i
        if z3.is_quantifier(a) and a.is_lambda() and a.num_vars() == 1:
            a = z3.substitute_vars(a.body(), i)
        elif z3.is_app(a) and a.decl().kind() == z3.Z3_OP_CONST_ARRAY:
            a = a.arg(0)
        else:
            a = z3.Select(a, i)
    return a


class ObjV:
    __slots__ = ("ref", "cls", "nullable", "exact")

    def __init__(self, ref, cls, nullable=False, exact=False):
        self.ref, self.cls, self.nullable, self.exact = ref, cls, nullable, exact

    def __repr__(self):
        return f"<{self.cls} {self.ref}>"


class OptV:
    __slots__ = ("isnone", "val", "t")

    def __init__(self, isnone, val, t):
        self.isnone, self.val, self.t = isnone, val, t

    def __repr__(self):
        return f"Opt({self.isnone}, {self.val})"


class SeqV:
    """Symbolic-length sequence.  arrs are arrays Int -> component, one per component of elem."""
    __slots__ = ("elem", "arrs", "len", "fresh")

    def __init__(self, elem: T, arrs, length, fresh=True):
        self.elem, self.arrs, self.len, self.fresh = elem, list(arrs), length, fresh

    def at(self, i):
        return unpack(self.elem, [sel(a, i) for a in self.arrs])

    def with_at(self, i, v):
        cs = pack(self.elem, v)
        return SeqV(self.elem, [z3.Store(a, i, c) for a, c in zip(self.arrs, cs)], self.len, self.fresh)

    def with_len(self, n):
        return SeqV(self.elem, self.arrs, n, self.fresh)

    def __repr__(self):
        return f"SeqV<{self.elem}>(len={self.len})"


class MapV:
    __slots__ = ("key", "val", "dom", "arrs", "keys")

    def __init__(self, key: T, val: T, dom, arrs, keys=None):
        self.key, self.val, self.dom, self.arrs, self.keys = key, val, dom, list(arrs), keys

    def has(self, k):
        return z3.Select(self.dom, pack(self.key, k)[0])

    def at(self, k):
        kk = pack(self.key, k)[0]
        return unpack(self.val, [z3.Select(a, kk) for a in self.arrs])

    def __repr__(self):
        return f"MapV<{self.key}->{self.val}>"


class MatV:
    __slots__ = ("arr", "rows", "cols")

    def __init__(self, arr, rows, cols):
        self.arr, self.rows, self.cols = arr, rows, cols

    def at(self, i, j):
        return sel(self.arr, i, j)

    def __repr__(self):
        return f"MatV({self.rows}x{self.cols})"


class CMatV:
    __slots__ = ("re", "im")

    def __init__(self, re: "MatV", im: "MatV"):
        self.re, self.im = re, im

    @property
    def rows(self):
        return self.re.rows

    @property
    def cols(self):
        return self.re.cols

    def __repr__(self):
        return f"CMatV({self.re.rows}x{self.re.cols})"


class OpaqueV:
    """A value the executor does not interpret (message strings, library handles)."""
    __slots__ = ("what",)

    def __init__(self, what="opaque"):
        self.what = what

    def __repr__(self):
        return f"<opaque {self.what}>"

    def havoc(self, name):
        return self          # an opaque value carries no information: "arbitrary" is the same opaque value


# string literals <-> Id constants ---------------------------------------------------
_id_consts: dict[str, z3.ExprRef] = {}


def id_const(s: str):
    if s not in _id_consts:
        _id_consts[s] = z3.Const("str:" + s, IdSort)
    return _id_consts[s]


def id_axioms():
    cs = list(_id_consts.values())
    return [z3.Distinct(*cs)] if len(cs) > 1 else []


# numbers ------------------------------------------------------------------------------
def is_z3(v):
    return isinstance(v, z3.ExprRef)


def is_num_const(v):
    return isinstance(v, (int, Fraction)) and not isinstance(v, bool)


def to_z3num(v):
    """Python number or z3 arithmetic term -> z3 arithmetic term."""
    if isinstance(v, bool):
        return z3.IntVal(1 if v else 0)
    if isinstance(v, int):
        return z3.IntVal(v)
    if isinstance(v, Fraction):
        return z3.RealVal(v) if v.denominator != 1 else z3.RealVal(v.numerator)
    if isinstance(v, float):
        if v == float("inf"):
            return INF
        if v == float("-inf"):
            return -INF
        return z3.RealVal(Fraction(repr(v)))
    if is_z3(v):
        if z3.is_bool(v):
            return z3.If(v, z3.IntVal(1), z3.IntVal(0))
        return v
    raise TypeError(f"not a number: {v!r}")


def to_real(v):
    z = to_z3num(v)
    return z3.ToReal(z) if z3.is_int(z) else z


def to_bool(v):
    if isinstance(v, bool):
        return z3.BoolVal(v)
    if is_z3(v) and z3.is_bool(v):
        return v
    raise TypeError(f"not a bool: {v!r}")


# pack / unpack --------------------------------------------------------------------------
def pack(t: T, v):
    """value of type t -> list of z3 component terms."""
    if t is Real:
        return [to_real(v)]
    if t is Int:
        z = to_z3num(v)
        if z3.is_real(z):
            raise TypeError(f"real value {v} where Int expected")
        return [z]
    if t is Bool:
        return [to_bool(v)]
    if t is Str:
        if isinstance(v, str):
            return [z3.StringVal(v)]
        if is_z3(v) and v.sort() == z3.StringSort():
            return [v]
        raise TypeError(f"not a string: {v!r}")
    if t is Id:
        if isinstance(v, str):
            return [id_const(v)]
        if is_z3(v) and v.sort() == IdSort:
            return [v]
        if isinstance(v, OpaqueV) and v.what in ("fstring", "str"):
            # a string built at run time (f-string / format): SOME identifier - an arbitrary one (over-approximation: nothing is known about it)
            return [z3.Const(fresh_name("built_id"), IdSort)]
        raise TypeError(f"not an Id: {v!r}")
    if isinstance(t, RefT):
        if v is None:
            return [NULL]
        if isinstance(v, ObjV):
            return [v.ref]
        raise TypeError(f"not a ref: {v!r}")
    if isinstance(t, OptT):
        if v is None:
            return [z3.BoolVal(True)] + [default_comp(c) for c in t.inner.comps()]
        if isinstance(v, OptV):
            return [v.isnone] + pack(t.inner, v.val)
        return [z3.BoolVal(False)] + pack(t.inner, v)
    if isinstance(t, TupT):
        if not isinstance(v, tuple) or len(v) != len(t.items):
            raise TypeError(f"not a {t}: {v!r}")
        return [c for ti, vi in zip(t.items, v) for c in pack(ti, vi)]
    if isinstance(t, SeqT):
        if isinstance(v, (list, tuple)):
            v = seq_from_list(t.elem, list(v))
        if isinstance(v, SeqV):
            return list(v.arrs) + [v.len]
        raise TypeError(f"not a sequence: {v!r}")
    if isinstance(t, MapT):
        if isinstance(v, dict):
            v = map_from_dict(t, v)
        if isinstance(v, MapV):
            out = [v.dom] + list(v.arrs)
            if t.ordered:
                out += pack(SeqT(t.key), v.keys)
            return out
        raise TypeError(f"not a map: {v!r}")
    if t is Mat:
        if isinstance(v, MatV):
            return [v.arr, v.rows, v.cols]
        raise TypeError(f"not a matrix: {v!r}")
    if t is CMat:
        if isinstance(v, CMatV):
            return [v.re.arr, v.re.rows, v.re.cols, v.im.arr, v.im.rows, v.im.cols]
        raise TypeError(f"not a complex matrix: {v!r}")
    raise TypeError(f"cannot pack type {t}")


def unpack(t: T, cs):
    """list of z3 component terms -> value of type t."""
    cs = list(cs)
    if t in (Real, Int, Bool, Id, Str):
        return cs[0]
    if isinstance(t, RefT):
        return ObjV(cs[0], t.cls, t.nullable, t.exact)
    if isinstance(t, OptT):
        return OptV(cs[0], unpack(t.inner, cs[1:]), t.inner)
    if isinstance(t, TupT):
        out, k = [], 0
        for ti in t.items:
            n = len(ti.comps())
            out.append(unpack(ti, cs[k:k + n]))
            k += n
        return tuple(out)
    if isinstance(t, SeqT):
        return SeqV(t.elem, cs[:-1], cs[-1])
    if isinstance(t, MapT):
        nv = len(t.val.comps())
        keys = unpack(SeqT(t.key), cs[1 + nv:]) if t.ordered else None
        return MapV(t.key, t.val, cs[0], cs[1:1 + nv], keys)
    if t is Mat:
        return MatV(cs[0], cs[1], cs[2])
    if t is CMat:
        return CMatV(MatV(cs[0], cs[1], cs[2]), MatV(cs[3], cs[4], cs[5]))
    raise TypeError(f"cannot unpack type {t}")


def default_comp(sort):
    if sort == z3.RealSort():
        return z3.RealVal(0)
    if sort == z3.IntSort():
        return z3.IntVal(0)
    if sort == z3.BoolSort():
        return z3.BoolVal(False)
    return z3.Const(fresh_name("dflt"), sort)


def fresh(t: T, base: str):
    """A fresh unconstrained symbolic value of type t."""
    return unpack(t, [z3.Const(fresh_name(f"{base}.{i}") if i else fresh_name(base), c)
                      for i, c in enumerate(t.comps())])


def named(t: T, base: str):
    """Symbolic value with stable (non-fresh) names: used for function inputs so that models are readable."""
    cs = t.comps()
    return unpack(t, [z3.Const(base if len(cs) == 1 else f"{base}.{i}", c) for i, c in enumerate(cs)])


def seq_from_list(elem: T, items):
    arrs = [z3.K(z3.IntSort(), default_comp(c)) for c in elem.comps()]
    for i, it in enumerate(items):
        cs = pack(elem, it)
        arrs = [z3.Store(a, i, c) for a, c in zip(arrs, cs)]
    return SeqV(elem, arrs, z3.IntVal(len(items)))


def map_from_dict(t: MapT, d: dict):
    (ks,) = t.key.comps()
    dom = z3.K(ks, z3.BoolVal(False))
    arrs = [z3.K(ks, default_comp(c)) for c in t.val.comps()]
    for k, v in d.items():
        kk = pack(t.key, k)[0]
        dom = z3.Store(dom, kk, z3.BoolVal(True))
        cs = pack(t.val, v)
        arrs = [z3.Store(a, kk, c) for a, c in zip(arrs, cs)]
    keys = seq_from_list(t.key, list(d.keys())) if t.ordered else None
    return MapV(t.key, t.val, dom, arrs, keys)


def type_of(v) -> T | None:
    """Best-effort type of a value (used when havocking loop-modified locals)."""
    if isinstance(v, bool):
        return Bool
    if isinstance(v, int):
        return Int
    if isinstance(v, Fraction):
        return Real
    if isinstance(v, str):
        return Id
    if is_z3(v):
        if z3.is_bool(v):
            return Bool
        if z3.is_int(v):
            return Int
        if z3.is_real(v):
            return Real
        if v.sort() == IdSort:
            return Id
        if v.sort() == z3.StringSort():
            return Str
        return None
    if isinstance(v, ObjV):
        return RefT(v.cls, v.nullable, v.exact)
    if isinstance(v, OptV):
        return OptT(v.t)
    if isinstance(v, SeqV):
        return SeqT(v.elem)
    if isinstance(v, MapV):
        return MapT(v.key, v.val, v.keys is not None)
    if isinstance(v, MatV):
        return Mat
    if isinstance(v, CMatV):
        return CMat
    if isinstance(v, tuple):
        ts = [type_of(x) for x in v]
        return TupT(*ts) if all(t is not None for t in ts) else None
    if isinstance(v, list):
        ts = [type_of(x) for x in v]
        if ts and all(t is not None for t in ts):
            t0 = ts[0]
            if any(t is Real for t in ts) and all(t in (Real, Int) for t in ts):
                t0 = Real
            return SeqT(t0)
        return None
    return None


def eq_values(t: T, a, b):
    """z3 Bool: component-wise equality of two values of type t (extensional on arrays)."""
    ca, cb = pack(t, a), pack(t, b)
    return z3.And(*[x == y for x, y in zip(ca, cb)]) if ca else z3.BoolVal(True)


def FA(vs, body, patterns=None, **kw):
    """z3.ForAll that drops the trigger annotations when z3 rejects them (e.g. a pattern over a beta-reducible lambda array)"""
    if patterns:
        patterns = [p for p in patterns if _pattern_ok(p)]
    if patterns:
        try:
            return z3.ForAll(vs, body, patterns=patterns, **kw)
        except z3.Z3Exception:
            pass
    return z3.ForAll(vs, body, **kw)


_BAD_IN_PATTERN = None


def _pattern_ok(p):
    """z3 ignores (with a warning) patterns that contain logical connectives / ite: drop them ourselves"""
    global _BAD_IN_PATTERN
    if _BAD_IN_PATTERN is None:
        _BAD_IN_PATTERN = {z3.Z3_OP_ITE, z3.Z3_OP_NOT, z3.Z3_OP_AND, z3.Z3_OP_OR, z3.Z3_OP_IMPLIES, z3.Z3_OP_EQ, z3.Z3_OP_LE, z3.Z3_OP_LT,
                           z3.Z3_OP_GE, z3.Z3_OP_GT, z3.Z3_OP_DISTINCT}
    if isinstance(p, z3.PatternRef):
        return True
    seen, stack = set(), [p]
    while stack:
        t = stack.pop()
        if t.get_id() in seen:
            continue
        seen.add(t.get_id())
        if z3.is_quantifier(t):
            return False
        if z3.is_app(t):
            if t.decl().kind() in _BAD_IN_PATTERN:
                return False
            stack.extend(t.children())
    return True
