"""Views: what a contract clause sees.  `s.self._capacity` reads the heap of the state the view
was taken in; sequences, maps and options are wrapped so that clauses read naturally."""
from __future__ import annotations

import z3

from . import vtypes as ty
from .state import PyList, PyDict


def unwrap(x):
    if isinstance(x, (ObjView, SeqView, MapView, OptView, MatView, CMatView)):
        return x._v
    if isinstance(x, tuple):
        return tuple(unwrap(y) for y in x)
    return x


def wrap(ex, st, v):
    if isinstance(v, ty.ObjV):
        return ObjView(ex, st, v)
    if isinstance(v, ty.SeqV):
        return SeqView(ex, st, v)
    if isinstance(v, ty.MapV):
        return MapView(ex, st, v)
    if isinstance(v, ty.OptV):
        return OptView(ex, st, v)
    if isinstance(v, ty.MatV):
        return MatView(ex, st, v)
    if isinstance(v, ty.CMatV):
        return CMatView(ex, st, v)
    if isinstance(v, tuple):
        return tuple(wrap(ex, st, x) for x in v)
    if v.__class__.__name__ == "FrameV":
        return FrameView(ex, st, v)
    if isinstance(v, PyList):
        return [wrap(ex, st, x) for x in v.items]
    if isinstance(v, PyDict):
        return {k: wrap(ex, st, x) for k, x in v.d.items()}
    return v


class StateView:
    def __init__(self, ex, st, names):
        object.__setattr__(self, "_ex", ex)
        object.__setattr__(self, "_st", st)
        object.__setattr__(self, "_names", dict(names))

    def __getattr__(self, name):
        if name in self._names:
            return wrap(self._ex, self._st, self._names[name])
        found, v = self._st.lookup(name) if self._st.frames else (False, None)
        if found:
            return wrap(self._ex, self._st, v)
        if name == "warnings":
            return ty.to_z3num(self._st.warn_count)
        if name in self._st.ghost:
            return wrap(self._ex, self._st, self._st.ghost[name])
        # a contract clause names a local / ghost the code under verification does not have (any more): the sidecar contract does not fit this
        # version of the function - undecided (exit 2), never "checker broken" and never a violation by itself
        from .symex import Unsupported
        raise Unsupported(f"contract clause refers to {name!r}, which the function under verification does not define "
                          f"(the sidecar contract no longer matches the code; visible names: {list(self._names)})")

    def arg(self, name):
        """the value a parameter of the function under verification had AT ENTRY (a loop invariant that names the parameter directly sees whatever the
        code has re-bound the name to)"""
        ins = self._st.ghost.get("__inputs__") or {}
        if name not in ins:
            from .symex import Unsupported
            raise Unsupported(f"contract clause refers to the entry value of {name!r}, which is not a parameter of the function under verification")
        return wrap(self._ex, self._st, ins[name])

    def has(self, name):
        return name in self._names or (self._st.frames and self._st.lookup(name)[0])

    def alloc(self, obj):
        return z3.Select(self._st.alloc, unwrap(obj).ref)

    def obj(self, ref, cls):
        """view of the object behind an arbitrary reference term"""
        return ObjView(self._ex, self._st, ty.ObjV(ref, cls))

    def alloc_ref(self, ref):
        return z3.Select(self._st.alloc, ref)

    def heap(self, key):
        return self._st.heap.get(key)

    def heap_array(self, key, sort):
        """the current SMT array of one heap field component, e.g. ("Event.precedence#0", RealSort)"""
        return self._ex.heap_arr(self._st, key, sort)

    def field_of(self, ref, cls, fname):
        """Read Class.field of an arbitrary reference term (for quantified clauses)."""
        return wrap(self._ex, self._st, self._ex.read_field(self._st, ty.ObjV(ref, cls), fname))


class ObjView:
    def __init__(self, ex, st, v: ty.ObjV):
        object.__setattr__(self, "_ex", ex)
        object.__setattr__(self, "_st", st)
        object.__setattr__(self, "_v", v)

    @property
    def ref(self):
        return self._v.ref

    def _is_none(self):
        return self._v.ref == ty.NULL

    def as_(self, cls):
        return ObjView(self._ex, self._st, ty.ObjV(self._v.ref, cls, self._v.nullable, self._v.exact))

    def __getattr__(self, name):
        if name.startswith("__"):
            raise AttributeError(name)
        v = self._ex.read_field(self._st, ty.ObjV(self._v.ref, self._v.cls), name)
        return wrap(self._ex, self._st, v)

    def __eq__(self, other):
        o = unwrap(other)
        if o is None:
            return self._v.ref == ty.NULL
        return self._v.ref == o.ref

    def __ne__(self, other):
        return z3.Not(self.__eq__(other))

    __hash__ = None


class SeqView:
    def __init__(self, ex, st, v: ty.SeqV):
        self._ex, self._st, self._v = ex, st, v

    @property
    def len(self):
        return self._v.len

    def __getitem__(self, i):
        v = self._v.at(ty.to_z3num(i))
        return wrap(self._ex, self._st, v)

    def comp(self, k=0):
        return self._v.arrs[k]

    @property
    def v(self):
        return self._v


class MapView:
    def __init__(self, ex, st, v: ty.MapV):
        self._ex, self._st, self._v = ex, st, v

    def has(self, k):
        k = unwrap(k)
        if isinstance(k, ty.OptV):
            return z3.And(z3.Not(k.isnone), self._v.has(k.val))
        return self._v.has(k)

    def __getitem__(self, k):
        k = unwrap(k)
        if isinstance(k, ty.OptV):
            k = k.val
        return wrap(self._ex, self._st, self._v.at(k))

    @property
    def keys(self):
        return wrap(self._ex, self._st, self._v.keys)

    @property
    def dom(self):
        return self._v.dom


class OptView:
    def __init__(self, ex, st, v: ty.OptV):
        self._ex, self._st, self._v = ex, st, v

    @property
    def isnone(self):
        return self._v.isnone

    def _is_none(self):
        return self._v.isnone

    @property
    def val(self):
        return wrap(self._ex, self._st, self._v.val)


class MatView:
    def __init__(self, ex, st, v: ty.MatV):
        self._ex, self._st, self._v = ex, st, v

    @property
    def rows(self):
        return self._v.rows

    @property
    def cols(self):
        return self._v.cols

    def __getitem__(self, ij):
        i, j = ij
        return self._v.at(ty.to_z3num(i), ty.to_z3num(j))

    @property
    def arr(self):
        return self._v.arr


class CMatView:
    def __init__(self, ex, st, v: ty.CMatV):
        self._ex, self._st, self._v = ex, st, v

    @property
    def re(self):
        return MatView(self._ex, self._st, self._v.re)

    @property
    def im(self):
        return MatView(self._ex, self._st, self._v.im)

    @property
    def rows(self):
        return self._v.re.rows

    @property
    def cols(self):
        return self._v.re.cols


class FrameView:
    """a pandas DataFrame value (pyvc.pdlib.FrameV): row labels, column labels, cell / NaN functions of (row position, column label)"""

    def __init__(self, ex, st, v):
        self._ex, self._st, self._v = ex, st, v

    @property
    def index(self):
        return SeqView(self._ex, self._st, self._v.index)

    @property
    def cols(self):
        return SeqView(self._ex, self._st, self._v.cols)

    @property
    def hascol(self):
        return self._v.hascol

    def cell(self, r, k):
        return ty.sel(self._v.cell, r, k)

    def nan(self, r, k):
        return ty.sel(self._v.nan, r, k)
