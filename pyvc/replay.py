"""Turn a counter-model of a failed obligation into concrete inputs, run the real function in
CPython and evaluate the *same clause* natively."""
from __future__ import annotations

import copy
import importlib
import json
import math
import os
import sys
import traceback
import warnings

import z3

from . import vtypes as ty
from . import dsl
from .solve import model_value


# --------------------------------------------------------------------------- model -> python data
def extract(reg, m, v, t=None, depth=0):
    if isinstance(v, z3.ExprRef):
        return model_value(m, v)
    if isinstance(v, ty.OptV):
        return None if model_value(m, v.isnone) else extract(reg, m, v.val, None, depth)
    if isinstance(v, ty.ObjV):
        r = model_value(m, v.ref)
        if r == 0 or depth > 3:
            return None
        fields = {}
        for fname, (decl, ft) in reg.all_fields(v.cls).items():
            cs = [z3.Select(z3.Const(f"H0:{decl}.{fname}#{k}", z3.ArraySort(ty.RefSort, c)), v.ref)
                  for k, c in enumerate(ft.comps())]
            fields[fname] = extract(reg, m, ty.unpack(ft, cs), ft, depth + 1)
        return {"__cls__": v.cls, "__ref__": r, "fields": fields}
    if isinstance(v, ty.SeqV):
        n = model_value(m, v.len)
        n = max(0, min(int(n), 16)) if isinstance(n, int) else 0
        return [extract(reg, m, v.at(z3.IntVal(i)), None, depth + 1) for i in range(n)]
    if isinstance(v, tuple):
        return [extract(reg, m, x, None, depth) for x in v]
    if isinstance(v, (int, float, str, bool)) or v is None:
        return v
    from fractions import Fraction
    if isinstance(v, Fraction):
        return float(v)
    return repr(v)


def _id_to_str(x):
    if isinstance(x, str) and x.startswith("str:"):
        return x[4:]
    if isinstance(x, str) and x.startswith("Id!val!"):
        return "id_" + x[len("Id!val!"):]
    return x


def build(ix, data, memo=None):
    """python data from extract() -> real objects (via __new__ + field assignment)."""
    memo = {} if memo is None else memo
    if isinstance(data, dict) and "__cls__" in data:
        key = data.get("__ref__")
        if key in memo:
            return memo[key]
        ci = ix.cls(data["__cls__"])
        mod = importlib.import_module(ci.module)
        cls = getattr(mod, ci.name)
        obj = cls.__new__(cls)
        memo[key] = obj
        for f, v in data["fields"].items():
            try:
                object.__setattr__(obj, f, build(ix, v, memo))
            except Exception:
                pass
        return obj
    if isinstance(data, list):
        return [build(ix, x, memo) for x in data]
    return _id_to_str(data)


# --------------------------------------------------------------------------- concrete views
class CObj:
    """Concrete counterpart of views.ObjView: attribute access on a real object (or its snapshot)."""

    def __init__(self, obj):
        object.__setattr__(self, "_o", obj)

    def __getattr__(self, name):
        return cwrap(getattr(self._o, name))

    def _is_none(self):
        return self._o is None

    def __eq__(self, other):
        o = other._o if isinstance(other, CObj) else other
        return self._o is o


class COpt:
    def __init__(self, v):
        self._v = v

    @property
    def isnone(self):
        return self._v is None

    @property
    def val(self):
        return cwrap(self._v) if self._v is not None else 0.0


class CSeq:
    def __init__(self, xs):
        self._xs = list(xs)

    @property
    def len(self):
        return len(self._xs)

    def __getitem__(self, i):
        return cwrap(self._xs[int(i)])


def cwrap(v):
    try:
        import numpy as np
        if isinstance(v, np.generic):
            v = v.item()
        elif isinstance(v, np.ndarray) and v.ndim == 1:
            return CSeq(v.tolist())
    except ImportError:
        pass
    if isinstance(v, (int, float, bool, str)) or v is None:
        return v
    if isinstance(v, (list, tuple)):
        return CSeq(v)
    return CObj(v)


class CView:
    def __init__(self, names, opt_names=()):
        object.__setattr__(self, "_n", names)
        object.__setattr__(self, "_opt", set(opt_names))

    def __getattr__(self, name):
        v = self._n[name]
        if name in self._opt:
            return COpt(v)
        return cwrap(v)


# --------------------------------------------------------------------------- replay of a leaf obligation
def find_clause(c, oname):
    """obligation name .../ensures/<clause.tag>[.<subtag>]/pN  -> (clause, subtag)"""
    parts = oname.split("/")
    if "ensures" not in parts:
        return None, None
    tag = parts[parts.index("ensures") + 1]
    best = None
    for cl in c.ensures:
        if tag == cl.tag:
            return cl, None
        if tag.startswith(cl.tag + "."):
            if best is None or len(cl.tag) > len(best[0].tag):
                best = (cl, tag[len(cl.tag) + 1:])
    return best if best else (None, None)


def try_replay(ix, reg, qualname, obl, res):
    """Best effort; never raises.  -> dict(reproduced: bool, ...)"""
    try:
        return _try_replay(ix, reg, qualname, obl, res)
    except Exception:
        return dict(reproduced=False, error=traceback.format_exc(limit=3))


def _try_replay(ix, reg, qualname, obl, res):
    m = (res.inputs_model or {}).get("__model__")
    if m is None:
        return dict(reproduced=False, why="no model")
    c = reg.get(qualname)
    fi = ix.func(qualname)
    if not ("/ensures/" in obl.name or "/raises/" in obl.name):
        return dict(reproduced=False, why="not a postcondition obligation")
    data = {k: extract(reg, m, v) for k, v in obl.inputs.items()}
    doc = dict(function=qualname, inputs=data, obligation=obl.name)
    hook = c.extra.get("native_replay") if c is not None else None
    if hook is not None:
        # functions whose contract speaks about ghost state (a stub server's request log, a generator's output): the contract module supplies the
        # native harness - it runs the REAL function on the model's inputs and compares with an independently written expectation
        doc.update(hook(data, obl.name))
        return doc
    outcome = run_native(ix, reg, qualname, data)
    doc.update(outcome["doc"])
    cl, sub = find_clause(c, obl.name)
    if cl is None:
        if "/raises/" in obl.name:
            exc = outcome.get("exception")
            if "must-raise" in obl.name:
                want = obl.name.split("/raises/")[1].split("/")[0]
                doc["reproduced"] = exc is None or exc != want
                doc["expected"] = f"{want} raised"
            elif "unexpected-" in obl.name or "only-when" in obl.name:
                doc["reproduced"] = exc is not None
                doc["expected"] = "no exception for these inputs"
            else:
                doc["reproduced"] = False
            return doc
        doc["reproduced"] = False
        return doc
    if outcome.get("exception") is not None:
        doc["reproduced"] = False
        doc["why"] = "native run raised where the model path returned"
        return doc
    opt = [n for n, t in c.params.items() if isinstance(t, ty.OptT)]
    old = CView(outcome["old"], opt)
    new = CView(outcome["new"], opt)
    vals = cl.fn(old, new, cwrap(outcome["ret"]))
    flat = []

    def add(x):
        if isinstance(x, tuple) and len(x) == 2 and isinstance(x[0], str):
            flat.append(x)
        elif isinstance(x, list):
            for y in x:
                add(y)
        else:
            flat.append((f"#{len(flat)}", x))
    add(vals)
    verdicts = {}
    for t, g in flat:
        if isinstance(g, dsl.With):
            g = g.goal
        verdicts[t] = bool(g)
    doc["clause_values_native"] = verdicts
    if sub is not None and sub in verdicts:
        doc["reproduced"] = not verdicts[sub]
    else:
        doc["reproduced"] = not all(verdicts.values())
    return doc


def run_native(ix, reg, qualname, data):
    fi = ix.func(qualname)
    mod = importlib.import_module(fi.module)
    memo = {}
    args = {k: build(ix, v, memo) for k, v in data.items()}
    old = copy.deepcopy(args)
    names = [a.arg for a in fi.node.args.posonlyargs + fi.node.args.args + fi.node.args.kwonlyargs]
    if fi.cls:
        target = getattr(getattr(mod, fi.cls), fi.node.name)
    else:
        target = getattr(mod, fi.node.name)
    call_args = {n: args[n] for n in names if n in args}
    doc = {}
    exc = None
    ret = None
    try:
        import numpy as np
        np.random.seed(0)
    except ImportError:
        pass
    with warnings.catch_warnings(record=True) as w:
        warnings.simplefilter("always")
        try:
            ret = target(**call_args)
        except Exception as e:      # the exception class is what the contract speaks about
            exc = e.__class__.__name__
            doc["native_exception"] = f"{exc}: {e}"
        doc["native_warnings"] = len(w)
    doc["native_return"] = _plain(ret)
    doc["native_state_after"] = {k: _plain_obj(v) for k, v in args.items()}
    return dict(doc=doc, exception=exc, ret=ret, old=old, new=args)


def _plain(x):
    try:
        import numpy as np
        if isinstance(x, np.generic):
            return x.item()
    except ImportError:
        pass
    if isinstance(x, (int, float, str, bool)) or x is None:
        return x
    if isinstance(x, (list, tuple)):
        return [_plain(y) for y in x]
    return repr(x)


def _plain_obj(x, depth=0):
    if isinstance(x, (int, float, str, bool)) or x is None:
        return x
    if hasattr(x, "__dict__") and depth < 3:
        return {k: _plain_obj(v, depth + 1) for k, v in vars(x).items()}
    return _plain(x)


def REPO_FOR_NATIVE():
    from .source import REPO
    return REPO


def run_replay_file(path):
    """./check <ID> --replay <file>: re-run the recorded native witness."""
    sys.path.insert(0, os.path.dirname(os.path.dirname(os.path.abspath(__file__))))
    with open(path) as f:
        doc = json.load(f)
    if doc.get("kind") in ("sim_monitor", "fn_monitor", "resume_monitor", "stoch_monitor", "exception", "algo_monitor", "pair_monitor"):
        sys.path.insert(0, REPO_FOR_NATIVE())
        from rt import drivers
        reproduced, text = drivers.replay_file(doc)
        print(text)
        print("REPRODUCED" if reproduced else "NOT-REPRODUCED (the clause holds on this tree)")
        return 1 if reproduced else 0
    rep = doc.get("replay") or {}
    if not rep.get("function") or not rep.get("inputs"):
        print(f"replay file names obligation {doc.get('obligation')} and carries the solver output only (no-failing-input-found)")
        return 0
    from pyvc.source import RepoIndex
    from pyvc.contracts_api import REG
    import contracts
    contracts.load_all()
    ix = RepoIndex()
    c = REG.get(rep["function"])
    if c is not None and c.extra.get("native_replay") is not None:
        out = c.extra["native_replay"](rep["inputs"], doc.get("obligation", ""))
        print(json.dumps(out, indent=1, default=str))
        print("REPRODUCED" if out.get("reproduced") else "NOT-REPRODUCED (the clause holds on this tree)")
        return 1 if out.get("reproduced") else 0
    out = run_native(ix, REG, rep["function"], rep["inputs"])
    print(json.dumps(out["doc"], indent=1, default=str))
    return 0
