"""Contract registry: class schemas (field sorts) and per-function contracts.

Contracts live in /verif/contracts/*.py (sidecar: no file of the repository is annotated).
They are keyed by the qualified name of the real function and, for loops, by the ordinal of
the loop inside that function (so renaming a local does not detach an invariant).
"""
from __future__ import annotations

from dataclasses import dataclass, field
from typing import Callable

from . import vtypes as ty


@dataclass
class ClassSchema:
    name: str
    bases: list
    fields: dict          # field name -> T
    invariant: Callable | None = None


@dataclass
class Clause:
    tag: str              # e.g. "C03.rate_le_pilot"
    fn: Callable
    props: tuple = ()     # property ids the clause serves

    def prop_ids(self):
        if self.props:
            return self.props
        head = self.tag.split(".", 1)[0]
        return (head,) if head[:1] == "C" and head[1:].isdigit() else ()


@dataclass
class RaiseSpec:
    exc: str
    when: Callable                 # fn(s) -> Bool: condition (over the pre-state) under which it is raised
    iff: bool = True               # True: raised exactly when `when`; False: may be raised only when `when`
    unchanged: bool = True         # frame: every heap field is left as it was
    tag: str = ""
    post: Callable | None = None   # fn(old, new) -> clauses that must hold in the state the exception leaves behind
    origin: str | None = None      # only exceptions produced by the contract of this callee (substring of its qualified name)


@dataclass
class LoopSpec:
    invariant: Callable            # fn(s) -> list of (tag, Bool) or Bools; s sees locals and heap
    modifies: list = field(default_factory=list)      # heap fields (qualified "Class.field") written in the loop
    decreases: Callable | None = None
    index: str | None = None       # name of the ghost index variable for `for x in seq` loops
    unroll: bool = False
    locals: dict = field(default_factory=dict)        # local name -> T: coerce (e.g. an empty python list) before the loop
    ghost: Callable | None = None                     # fn(view at loop entry) -> dict of ghost names (entry snapshots)
    step: Callable | None = None                      # fn(head_view, end_view) -> clauses proved for one arbitrary iteration
    ghost_vars: dict = field(default_factory=dict)    # ghost LOOP variables: name -> T (initial value from `ghost`, havocked at the loop head)
    ghost_step: Callable | None = None                # fn(head_view, end_view) -> dict name -> new value of the ghost variables after one iteration
    at_exit: Callable | None = None                   # fn(view) -> clauses that must hold wherever control leaves the loop (guard false / exhausted / break)


@dataclass
class Contract:
    qualname: str
    params: dict = field(default_factory=dict)        # name -> T  (declared order = call order)
    ret: ty.T | None = None
    requires: list = field(default_factory=list)
    ensures: list = field(default_factory=list)       # Clause(fn(old, new, ret))
    iface: list = field(default_factory=list)         # subset of ensures every override must also meet
    raises: list = field(default_factory=list)
    modifies: list | None = None       # list of "Class.field" (receiver = any) or callables; None = pure
    modifies_fn: Callable | None = None  # fn(s, field, ref) -> Bool: which receivers may change (default: all of field)
    loops: dict = field(default_factory=dict)         # ordinal -> LoopSpec
    inline: bool = False
    assumed: str | None = None         # reason: the body is not verified (external / user-supplied)
    fresh_ret: bool = False            # result is a freshly allocated object
    lemmas: list = field(default_factory=list)
    witness: Callable | None = None    # builds a concrete pre-state meeting `requires` (reachability)
    extra: dict = field(default_factory=dict)


class Registry:
    def __init__(self):
        self.schemas: dict[str, ClassSchema] = {}
        self.contracts: dict[str, Contract] = {}
        self.lemmas: dict[str, "Lemma"] = {}
        self.assumptions: list[tuple[str, str]] = []     # (kind, text)  -> assumptions.lock

    # -- schemas -----------------------------------------------------------------------
    def schema(self, _cls_name, bases=(), invariant=None, **fields):
        self.schemas[_cls_name] = ClassSchema(_cls_name, list(bases), dict(fields), invariant)
        return self.schemas[_cls_name]

    def field(self, cls: str, fname: str):
        """-> (declaring class, T) or None"""
        seen = set()
        stack = [cls]
        while stack:
            c = stack.pop(0)
            if c in seen:
                continue
            seen.add(c)
            sc = self.schemas.get(c)
            if sc is None:
                continue
            if fname in sc.fields:
                return c, sc.fields[fname]
            stack.extend(sc.bases)
        return None

    def all_fields(self, cls: str):
        out, seen, stack = {}, set(), [cls]
        while stack:
            c = stack.pop(0)
            if c in seen:
                continue
            seen.add(c)
            sc = self.schemas.get(c)
            if sc is None:
                continue
            for f, t in sc.fields.items():
                out.setdefault(f, (c, t))
            stack.extend(sc.bases)
        return out

    def is_subclass(self, a, b):
        seen, stack = set(), [a]
        while stack:
            c = stack.pop()
            if c == b:
                return True
            if c in seen:
                continue
            seen.add(c)
            sc = self.schemas.get(c)
            if sc:
                stack.extend(sc.bases)
        return False

    # -- contracts ---------------------------------------------------------------------
    def contract(self, qualname, recv=None, **kw):
        """recv: verify / use this contract only for receivers of exactly that class (an inherited method
        is verified once per concrete receiver class; its polymorphic callees then resolve statically)."""
        c = Contract(qualname, **kw)
        c.extra["recv"] = recv
        self.contracts[(qualname, recv)] = c
        if c.assumed:
            self.assumptions.append(("assumed-contract", f"{qualname}: {c.assumed}"))
        return c

    def get(self, qualname, recv=None):
        return self.contracts.get((qualname, recv))

    def assume(self, kind, text):
        self.assumptions.append((kind, text))

    def lemma(self, name, fn, props=(), doc=""):
        self.lemmas[name] = Lemma(name, fn, tuple(props), doc)
        return self.lemmas[name]


@dataclass
class Lemma:
    """A pure formula proved from contracts / spec functions only.
    fn() -> list of (name, hyps: list[Bool], goal: Bool)"""
    name: str
    fn: Callable
    props: tuple = ()
    doc: str = ""


REG = Registry()


def C(tag, fn, props=()):
    return Clause(tag, fn, tuple(props))
