"""Polymorphic combinators for contract clauses.

The same clause text is evaluated (a) over z3 terms by the VC generator and (b) over concrete
Python values by the replay harness / run-time monitor.  Each combinator looks at its
arguments and picks the interpretation.
"""
from __future__ import annotations

from fractions import Fraction

import z3

from . import vtypes as ty

TOL = 1e-9


def _sym(*xs):
    return any(isinstance(x, z3.ExprRef) for x in xs)


def _b(x):
    return ty.to_bool(x) if not isinstance(x, z3.ExprRef) else x


def _n(x):
    return ty.to_z3num(x)


def _flat(args):
    out = []
    for a in args:
        if isinstance(a, (list, tuple)):
            out.extend(_flat(a))
        else:
            out.append(a)
    return out


def And(*args):
    args = _flat(args)
    if _sym(*args):
        return z3.And(*[_b(a) for a in args]) if args else z3.BoolVal(True)
    return all(args)


def Or(*args):
    args = _flat(args)
    if _sym(*args):
        return z3.Or(*[_b(a) for a in args]) if args else z3.BoolVal(False)
    return any(args)


def Not(a):
    return z3.Not(a) if _sym(a) else (not a)


def Implies(a, b):
    if _sym(a, b):
        return z3.Implies(_b(a), _b(b))
    return (not a) or bool(b)


def Iff(a, b):
    if _sym(a, b):
        return _b(a) == _b(b)
    return bool(a) == bool(b)


def If(c, a, b):
    if _sym(c):
        if _sym(a, b) or ty.is_num_const(a) or ty.is_num_const(b):
            if isinstance(a, (bool,)) or isinstance(b, bool) or (_sym(a) and z3.is_bool(a)):
                return z3.If(c, _b(a), _b(b))
            a, b = _n(a), _n(b)
            if z3.is_int(a) != z3.is_int(b):
                a, b = ty.to_real(a), ty.to_real(b)
            return z3.If(c, a, b)
        return z3.If(c, a, b)
    return a if c else b


def _coerce2(a, b):
    a, b = _n(a), _n(b)
    if z3.is_int(a) != z3.is_int(b):
        a, b = ty.to_real(a), ty.to_real(b)
    return a, b


def Min(*args):
    args = _flat(args)
    if _sym(*args):
        m = _n(args[0])
        for a in args[1:]:
            m, a = _coerce2(m, a)
            m = z3.If(a < m, a, m)
        return m
    return min(args)


def Max(*args):
    args = _flat(args)
    if _sym(*args):
        m = _n(args[0])
        for a in args[1:]:
            m, a = _coerce2(m, a)
            m = z3.If(a > m, a, m)
        return m
    return max(args)


def Abs(a):
    if _sym(a):
        return z3.If(a >= 0, a, -a)
    return abs(a)


def Eq(a, b):
    """Equality; on concrete reals it is equality up to a relative tolerance (A-REAL)."""
    if _sym(a, b):
        if isinstance(a, str):
            a = ty.id_const(a)
        if isinstance(b, str):
            b = ty.id_const(b)
        if isinstance(a, z3.ExprRef) and a.sort() == ty.IdSort or isinstance(b, z3.ExprRef) and b.sort() == ty.IdSort:
            return a == b
        if isinstance(a, bool) or isinstance(b, bool) or (_sym(a) and z3.is_bool(a)):
            return _b(a) == _b(b)
        a, b = _coerce2(a, b)
        return a == b
    if isinstance(a, (float, Fraction)) or isinstance(b, (float, Fraction)):
        a, b = float(a), float(b)
        return abs(a - b) <= TOL * max(1.0, abs(a), abs(b))
    return a == b


def Le(a, b):
    if _sym(a, b):
        a, b = _coerce2(a, b)
        return a <= b
    if isinstance(a, float) or isinstance(b, float):
        return a <= b + TOL * max(1.0, abs(a), abs(b))
    return a <= b


def Ge(a, b):
    return Le(b, a)


def ForAll(vars_, body, patterns=None):
    """vars_: z3 consts (symbolic mode only)."""
    vs = vars_ if isinstance(vars_, (list, tuple)) else [vars_]
    if patterns:
        return ty.FA(vs, body, patterns=patterns)
    return ty.FA(vs, body)


def Exists(vars_, body):
    vs = vars_ if isinstance(vars_, (list, tuple)) else [vars_]
    return z3.Exists(vs, body)


def IntVar(name):
    return z3.Int(name)


def RealVar(name):
    return z3.Real(name)


def _concrete_range(lo, hi, limit=64):
    """range(lo, hi) when both bounds are numerals (python ints or z3 integer values) and the range is small."""
    def num(x):
        if isinstance(x, bool):
            return None
        if isinstance(x, int):
            return x
        if isinstance(x, z3.ExprRef):
            x = z3.simplify(x)
            if z3.is_int_value(x):
                return x.as_long()
        return None
    a, b = num(lo), num(hi)
    if a is None or b is None or b - a > limit:
        return None
    return list(range(a, b))


def AllIdx(lo, hi, f, name="i"):
    """forall lo <= i < hi. f(i)   -- symbolic: quantifier; concrete: loop."""
    c = _concrete_range(lo, hi)
    if c is not None and (_sym(lo, hi) or any(_sym(f(z3.IntVal(i))) for i in c[:1])):
        return z3.And(*[_b(f(z3.IntVal(i))) for i in c]) if c else z3.BoolVal(True)
    if _sym(lo, hi):
        i = z3.Int(ty.fresh_name(name))
        return ty.FA([i], z3.Implies(z3.And(_n(lo) <= i, i < _n(hi)), _b(f(i))))
    return all(f(i) for i in range(int(lo), int(hi)))


def AnyIdx(lo, hi, f, name="i"):
    c = _concrete_range(lo, hi)
    if c is not None and (_sym(lo, hi) or any(_sym(f(z3.IntVal(i))) for i in c[:1])):
        return z3.Or(*[_b(f(z3.IntVal(i))) for i in c]) if c else z3.BoolVal(False)
    if _sym(lo, hi):
        i = z3.Int(ty.fresh_name(name))
        return z3.Exists([i], z3.And(_n(lo) <= i, i < _n(hi), _b(f(i))))
    return any(f(i) for i in range(int(lo), int(hi)))


# uninterpreted transcendental functions ---------------------------------------------
EXP = z3.Function("exp", z3.RealSort(), z3.RealSort())


def Exp(x):
    if _sym(x):
        return EXP(ty.to_real(x))
    import math
    return math.exp(x)


def IsNone(x):
    if x is None:
        return True
    if isinstance(x, ty.OptV):
        return x.isnone
    if isinstance(x, ty.ObjV):
        return x.ref == ty.NULL
    if hasattr(x, "_is_none"):
        return x._is_none()
    return False


class With:
    """goal, to be proved with the help of `facts`, each of which is proved first on its own."""

    def __init__(self, goal, facts):
        self.goal, self.facts = goal, list(facts)


class Given:
    """goal, stated relative to definitional `axioms` (a Hilbert choice function introduced for this very formula, instances of the recursive
    definition of cnt): the axioms are ASSUMED wherever the clause is assumed or proved.  Only conservative extensions may be passed here;
    every use is listed under REG.assume."""

    def __init__(self, goal, axioms):
        self.goal, self.axioms = goal, list(axioms)
