"""Discharge obligations: z3 first, cvc5 on the SMT-LIB text for whatever z3 leaves unknown."""
from __future__ import annotations

import os
import subprocess
import tempfile
import time

import z3

from . import lib


class Result:
    __slots__ = ("name", "status", "backend", "time_s", "model", "reason", "kind", "props", "line", "path", "size", "inputs_model", "meta")

    def __init__(self, name, status, backend, time_s, model=None, reason="", kind="assert", props=(), line=0, path="", size=0, meta=None):
        self.name, self.status, self.backend, self.time_s = name, status, backend, time_s
        self.model, self.reason, self.kind, self.props, self.line, self.path, self.size = model, reason, kind, props, line, path, size
        self.inputs_model = None
        self.meta = meta or {}

    def to_dict(self):
        return dict(name=self.name, status=self.status, backend=self.backend, time_s=round(self.time_s, 4), kind=self.kind,
                    props=list(self.props), line=self.line, path=self.path, size=self.size, reason=self.reason,
                    model=self.model, inputs_model=self.inputs_model, meta=self.meta)


def _formula_size(fs):
    seen, stack, n = set(), list(fs), 0
    while stack and n < 200000:
        e = stack.pop()
        i = e.get_id()
        if i in seen:
            continue
        seen.add(i)
        n += 1
        if z3.is_app(e):
            stack.extend(e.children())
        elif z3.is_quantifier(e):
            stack.append(e.body())
    return n


def model_value(m, term):
    try:
        v = m.eval(term, model_completion=True)
    except z3.Z3Exception:
        return None
    if z3.is_int_value(v):
        return v.as_long()
    if z3.is_rational_value(v):
        return float(v.numerator_as_long()) / float(v.denominator_as_long())
    if z3.is_algebraic_value(v):
        return float(v.approx(20).numerator_as_long()) / float(v.approx(20).denominator_as_long())
    if z3.is_true(v):
        return True
    if z3.is_false(v):
        return False
    return str(v)


def skolemize_goal(hyps, goal):
    """forall x. P(x) is proved by proving P(c) for a fresh constant c (and A => forall x. P by assuming A): the universally quantified
    variables of the goal become constants, so that the per-occurrence theory axioms (Sum, cabs, exp) see ground terms."""
    hyps = list(hyps)
    for _ in range(8):
        if z3.is_quantifier(goal) and goal.is_forall():
            cs = [z3.Const(f"sk!{goal.var_name(k)}!{goal.get_id()}", goal.var_sort(k)) for k in range(goal.num_vars())]
            goal = z3.substitute_vars(goal.body(), *reversed(cs))
        elif z3.is_implies(goal):
            hyps.append(goal.arg(0))
            goal = goal.arg(1)
        elif z3.is_not(goal) and z3.is_not(goal.arg(0)):
            goal = goal.arg(0).arg(0)
        else:
            break
    return hyps, goal


_HO = {}


def _higher_order(f):
    """does the formula contain a lambda term or a Sum application?  (only there does E-matching lack first-order triggers)"""
    i = f.get_id()
    if i in _HO:
        return _HO[i]
    seen, stack, found = set(), [f], False
    while stack:
        t = stack.pop()
        if t.get_id() in seen:
            continue
        seen.add(t.get_id())
        if z3.is_quantifier(t):
            if t.is_lambda():
                found = True
                break
            stack.append(t.body())
        elif z3.is_app(t):
            if t.decl().name() == "Sum":
                found = True
                break
            stack.extend(t.children())
    _HO[i] = found
    return found


def skolemize_hyps(hyps):
    """Hypotheses: a universally quantified subformula in negative position (not under another quantifier) asserts the existence of a
    counter-example; it is replaced by its body at fresh constants (standard Skolemization, equisatisfiable).  The constants then serve
    as instantiation points for the positive quantifiers (instantiate_at_skolems)."""
    changed = [False]

    def sko(f, pos, depth=0):
        if depth > 6:
            return f
        if z3.is_quantifier(f):
            if ((f.is_forall() and not pos) or (f.is_exists() and pos)) and _higher_order(f):
                cs = [z3.Const(f"sk!h{f.var_name(k)}!{f.get_id()}", f.var_sort(k)) for k in range(f.num_vars())]
                changed[0] = True
                return sko(z3.substitute_vars(f.body(), *reversed(cs)), pos, depth + 1)
            return f
        if not z3.is_app(f):
            return f
        k = f.decl().kind()
        if k in (z3.Z3_OP_AND, z3.Z3_OP_OR):
            kids = [sko(c, pos, depth + 1) for c in f.children()]
            return z3.And(*kids) if k == z3.Z3_OP_AND else z3.Or(*kids)
        if k == z3.Z3_OP_NOT:
            return z3.Not(sko(f.arg(0), not pos, depth + 1))
        if k == z3.Z3_OP_IMPLIES:
            return z3.Implies(sko(f.arg(0), not pos, depth + 1), sko(f.arg(1), pos, depth + 1))
        return f

    out = []
    for h in hyps:
        changed[0] = False
        h2 = sko(h, True)
        out.append(h2 if changed[0] else h)
    return out


def instantiate_at_skolems(hyps, goal, cap=16):
    """Goal-directed instantiation: universally quantified hypotheses are additionally instantiated at the Skolem constants of the goal
    (all combinations of matching sort, a handful).  Sound (instances of hypotheses); needed where the quantifier bodies contain lambda
    terms (Sum over a lambda), on which E-matching has no first-order trigger."""
    import itertools
    sk, loopidx = {}, {}
    seen, stack = set(), [goal] + [h for h in hyps if not z3.is_quantifier(h)]
    while stack:
        t = stack.pop()
        if t.get_id() in seen:
            continue
        seen.add(t.get_id())
        if z3.is_quantifier(t):
            stack.append(t.body())
        elif z3.is_app(t):
            if t.num_args() == 0 and t.decl().kind() == z3.Z3_OP_UNINTERPRETED:
                nm = t.decl().name()
                if nm.startswith("sk!"):
                    sk.setdefault(t.sort().name(), {})[t.get_id()] = t
                elif nm.startswith("_k") and z3.is_int(t):
                    loopidx[t.get_id()] = t          # index of an invariant-cut loop: candidate for one-variable quantifiers only
            stack.extend(t.children())
    if not sk and not loopidx:
        return []

    def instances(q):
        if q.num_vars() > 3:
            return None
        special = _higher_order(q) or q.qid() == "lifted"
        pools = [list(sk.get(q.var_sort(k).name(), {}).values()) for k in range(q.num_vars())]
        if special and q.num_vars() == 1 and z3.is_int(z3.Const("x", q.var_sort(0))):
            pools[0] = pools[0] + list(loopidx.values())
        if any(not p_ for p_ in pools):
            return None
        return [z3.substitute_vars(q.body(), *reversed(combo)) for combo in itertools.islice(itertools.product(*pools), cap if special else 4)]

    def weaken(f, pos, depth=0):
        """f with every universally quantified subformula in positive position replaced by the conjunction of its instances at the Skolem
        constants (f implies the result); None if nothing was replaced"""
        if depth > 6:
            return None
        if z3.is_quantifier(f):
            if pos and f.is_forall():
                inst = instances(f)
                return z3.And(*inst) if inst else None
            return None
        if not z3.is_app(f):
            return None
        k = f.decl().kind()
        if k in (z3.Z3_OP_AND, z3.Z3_OP_OR):
            kids = [weaken(c, pos, depth + 1) for c in f.children()]
            if all(x is None for x in kids):
                return None
            new = [c if x is None else x for c, x in zip(f.children(), kids)]
            return z3.And(*new) if k == z3.Z3_OP_AND else z3.Or(*new)
        if k == z3.Z3_OP_NOT:
            x = weaken(f.arg(0), not pos, depth + 1)
            return None if x is None else z3.Not(x)
        if k == z3.Z3_OP_IMPLIES:
            a, b = weaken(f.arg(0), not pos, depth + 1), weaken(f.arg(1), pos, depth + 1)
            if a is None and b is None:
                return None
            return z3.Implies(f.arg(0) if a is None else a, f.arg(1) if b is None else b)
        return None

    out = []
    for h in hyps:
        w = weaken(h, True)
        if w is not None:
            out.append(w)
    return out


def _has_quant(e, _cache={}):
    seen, stack = set(), [e]
    while stack:
        x = stack.pop()
        i = x.get_id()
        if i in seen:
            continue
        seen.add(i)
        if z3.is_quantifier(x):
            if not x.is_lambda():
                return True
            stack.append(x.body())
        elif z3.is_app(x):
            stack.extend(x.children())
    return False


def discharge(obl, timeout_ms=10000, want_model=True, use_cvc5=True, seed=0):
    """-> Result.  status: discharged | failed (counter-model) | unknown | canary-ok | canary-vacuous"""
    t0 = time.time()
    hyps = list(obl.hyps)
    goal = obl.goal
    is_canary = obl.kind == "canary"
    if not is_canary:
        hyps, goal = skolemize_goal(hyps, goal)
        hyps = skolemize_hyps(hyps)
        hyps = hyps + instantiate_at_skolems(hyps, goal)
    fs = hyps + ([] if is_canary else [z3.Not(goal)])
    ax = lib.theory_axioms(fs)
    size = _formula_size(fs)

    def run(tactic=None, tmo=timeout_ms):
        s = z3.Solver() if tactic is None else z3.Then(*tactic).solver() if isinstance(tactic, (list, tuple)) else z3.Tactic(tactic).solver()
        s.set("timeout", int(tmo))
        if seed:
            # a retry runs under another random seed: quantifier instantiation that went astray once usually does not under a different seed, so
            # several short attempts are worth more than one long one
            try:
                s.set("random_seed", int(seed))
            except z3.Z3Exception:
                pass
        s.add(*ax)
        s.add(*fs)
        r = s.check()
        return s, r

    if is_canary:
        # vacuity canary: only an `unsat` answer matters; a short single attempt is enough
        s, r = run(tmo=min(timeout_ms, 1500 if obl.name.endswith("requires/satisfiable") else 400))
        dt = time.time() - t0
        common = dict(kind=obl.kind, props=obl.props, line=obl.line, path=obl.path, size=size, meta=obl.meta)
        if r == z3.unsat:
            return Result(obl.name, "canary-vacuous", "z3", dt, reason="hypotheses are contradictory", **common)
        return Result(obl.name, "canary-ok", "z3", dt, **common)
    # staged: a short default attempt, then the nonlinear tactic (each wins on some goals), then cvc5, then the
    # default solver with the full budget
    quantified = any(_has_quant(f) for f in fs)
    # quantified obligations (E-matching) gain nothing from the nonlinear tactic: they get the full budget in the first attempt, so that a loaded
    # machine does not push a 3-second proof through two useless stages
    s, r = run(tmo=timeout_ms if quantified else max(500, timeout_ms // 5))
    backend = "z3"
    if r == z3.unknown and not quantified:
        try:
            s2, r2 = run("qfnra-nlsat", tmo=max(1000, timeout_ms // 2))
            if r2 != z3.unknown:
                s, r, backend = s2, r2, "z3:qfnra-nlsat"
        except z3.Z3Exception:
            pass
    if r == z3.unknown and use_cvc5:
        r3 = cvc5_check(ax + fs, max(1000, timeout_ms // 2))
        if r3 in ("sat", "unsat"):
            backend = "cvc5"
            r = z3.sat if r3 == "sat" else z3.unsat
            s = None
    if r == z3.unknown and not quantified:
        s, r = run()
        backend = "z3"
    dt = time.time() - t0
    common = dict(kind=obl.kind, props=obl.props, line=obl.line, path=obl.path, size=size, meta=obl.meta)
    if is_canary:
        if r == z3.unsat:
            return Result(obl.name, "canary-vacuous", backend, dt, reason="hypotheses are contradictory", **common)
        return Result(obl.name, "canary-ok", backend, dt, **common)
    if r == z3.unsat:
        return Result(obl.name, "discharged", backend, dt, **common)
    if r == z3.sat:
        res = Result(obl.name, "failed", backend, dt, **common)
        if s is not None:
            # a counter-model that only exists because exp is uninterpreted is not a violation
            from . import numeval
            if numeval.has_exp(fs):
                verdict = numeval.classify(s.model(), hyps, goal)
                if verdict == "spurious":
                    return Result(obl.name, "unknown", backend, dt, reason="counter-model is spurious under the real exp "
                                  "(instantiated exp axioms too weak)", **common)
                res.meta = dict(res.meta, numeric_recheck=verdict)
        if want_model and s is not None:
            m = s.model()
            res.model = {str(d): str(m[d]) for d in list(m.decls())[:60] if d.arity() == 0}
            res.inputs_model = extract_inputs(m, obl.inputs)
        return res
    reason = s.reason_unknown() if s is not None else "unknown"
    return Result(obl.name, "unknown", backend, dt, reason=reason, **common)


def extract_inputs(m, inputs):
    """Project a model onto the declared inputs of the function under verification."""
    from . import vtypes as ty
    out = {}
    for name, v in inputs.items():
        try:
            out[name] = _val(m, v)
        except Exception as e:      # model extraction is best effort
            out[name] = f"<{e.__class__.__name__}>"
    out["__model__"] = m
    return out


def _val(m, v):
    from . import vtypes as ty
    if isinstance(v, z3.ExprRef):
        return model_value(m, v)
    if isinstance(v, ty.ObjV):
        return {"__ref__": model_value(m, v.ref), "__cls__": v.cls}
    if isinstance(v, ty.OptV):
        return None if model_value(m, v.isnone) else _val(m, v.val)
    if isinstance(v, ty.SeqV):
        n = model_value(m, v.len)
        n = max(0, min(int(n), 12)) if isinstance(n, int) else 0
        return [_val(m, v.at(z3.IntVal(i))) for i in range(n)]
    if isinstance(v, tuple):
        return tuple(_val(m, x) for x in v)
    return v


def cvc5_check(formulas, timeout_ms):
    """Run the cvc5 binary on the SMT-LIB rendering.  Returns 'sat' | 'unsat' | 'unknown'."""
    try:
        s = z3.Solver()
        s.add(*formulas)
        text = s.to_smt2()
    except z3.Z3Exception:
        return "unknown"
    if "lambda" in text:
        return "unknown"
    text = "(set-logic ALL)\n" + text
    fd, path = tempfile.mkstemp(suffix=".smt2")
    try:
        with os.fdopen(fd, "w") as f:
            f.write(text)
        p = subprocess.run(["/usr/bin/cvc5", f"--tlimit={timeout_ms}", path], capture_output=True, text=True, timeout=timeout_ms / 1000 + 5)
        out = p.stdout.strip().splitlines()
        return out[0] if out and out[0] in ("sat", "unsat") else "unknown"
    except Exception:
        return "unknown"
    finally:
        try:
            os.unlink(path)
        except OSError:
            pass
