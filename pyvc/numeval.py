"""Numeric re-evaluation of a quantifier-free formula under a solver model, with the *real* exp.
Used to recognise counter-models that exist only because exp is uninterpreted (axiom instances too
weak): such a model is not evidence of a violation, the obligation is merely undecided."""
from __future__ import annotations

import math
from fractions import Fraction

import z3


class CannotEval(Exception):
    pass


def _const_val(m, e):
    v = m.eval(e, model_completion=True)
    if z3.is_int_value(v):
        return Fraction(v.as_long())
    if z3.is_rational_value(v):
        return Fraction(v.numerator_as_long(), v.denominator_as_long())
    if z3.is_algebraic_value(v):
        a = v.approx(30)
        return Fraction(a.numerator_as_long(), a.denominator_as_long())
    if z3.is_true(v):
        return True
    if z3.is_false(v):
        return False
    raise CannotEval(str(e))


def ev(m, e, cache):
    i = e.get_id()
    if i in cache:
        return cache[i]
    r = _ev(m, e, cache)
    cache[i] = r
    return r


def _ev(m, e, cache):
    if z3.is_quantifier(e):
        raise CannotEval("quantifier")
    if z3.is_int_value(e) or z3.is_rational_value(e) or z3.is_true(e) or z3.is_false(e) or z3.is_algebraic_value(e):
        return _const_val(m, e)
    if not z3.is_app(e):
        raise CannotEval(str(e))
    k = e.decl().kind()
    ch = e.children()
    name = e.decl().name()
    if k == z3.Z3_OP_UNINTERPRETED:
        if not ch:
            if z3.is_arith(e) or z3.is_bool(e):
                return _const_val(m, e)
            raise CannotEval(f"constant of sort {e.sort()}")
        if name == "exp":
            x = ev(m, ch[0], cache)
            try:
                return math.exp(float(x))
            except OverflowError:
                raise CannotEval("exp overflow")
        raise CannotEval(f"uninterpreted {name}")
    vals = None

    def V():
        nonlocal vals
        if vals is None:
            vals = [ev(m, c, cache) for c in ch]
        return vals
    if k == z3.Z3_OP_ADD:
        return sum(V()[1:], V()[0])
    if k == z3.Z3_OP_SUB:
        r = V()[0]
        for x in V()[1:]:
            r = r - x
        return r
    if k == z3.Z3_OP_UMINUS:
        return -V()[0]
    if k == z3.Z3_OP_MUL:
        r = V()[0]
        for x in V()[1:]:
            r = r * x
        return r
    if k in (z3.Z3_OP_DIV,):
        a, b = V()
        if b == 0:
            raise CannotEval("division by zero")
        return a / b
    if k == z3.Z3_OP_TO_REAL:
        return V()[0]
    if k == z3.Z3_OP_TO_INT:
        return Fraction(math.floor(V()[0]))
    if k == z3.Z3_OP_ITE:
        c = ev(m, ch[0], cache)
        return ev(m, ch[1] if c else ch[2], cache)
    if k == z3.Z3_OP_AND:
        return all(ev(m, c, cache) for c in ch)
    if k == z3.Z3_OP_OR:
        return any(ev(m, c, cache) for c in ch)
    if k == z3.Z3_OP_NOT:
        return not V()[0]
    if k == z3.Z3_OP_IMPLIES:
        return (not ev(m, ch[0], cache)) or ev(m, ch[1], cache)
    if k in (z3.Z3_OP_EQ, z3.Z3_OP_IFF):
        a, b = V()
        if isinstance(a, float) or isinstance(b, float):
            a, b = float(a), float(b)
            return abs(a - b) <= 1e-9 * max(1.0, abs(a), abs(b))
        return a == b
    if k == z3.Z3_OP_DISTINCT:
        vs = V()
        return len(set(vs)) == len(vs)
    if k in (z3.Z3_OP_LE, z3.Z3_OP_LT, z3.Z3_OP_GE, z3.Z3_OP_GT):
        a, b = V()
        tol = 1e-9 * max(1.0, abs(float(a)), abs(float(b))) if (isinstance(a, float) or isinstance(b, float)) else 0
        a, b = (float(a), float(b)) if tol else (a, b)
        # a model is *confirmed* only if it violates by more than the tolerance; borderline cases count as holding
        return {z3.Z3_OP_LE: a <= b + tol, z3.Z3_OP_LT: a < b + tol, z3.Z3_OP_GE: a + tol >= b, z3.Z3_OP_GT: a + tol > b}[k]
    raise CannotEval(f"operator {name}")


def has_exp(fs):
    from .lib import collect_apps
    return bool(collect_apps(fs, "exp"))


def classify(m, hyps, goal):
    """-> 'confirmed' | 'spurious' | 'cannot-eval:<why>'   (under the real exp)"""
    cache = {}
    try:
        for h in hyps:
            if not ev(m, h, cache):
                return "spurious"
        g = ev(m, goal, cache)
        return "spurious" if g else "confirmed"
    except CannotEval as e:
        return f"cannot-eval:{e}"
    except (ZeroDivisionError, OverflowError, ValueError) as e:
        return f"cannot-eval:{e.__class__.__name__}"
