"""copy.deepcopy (A-LIB): a structurally equal value none of whose objects is shared with the original.

Value-semantic data (numbers, sequences / matrices / maps of scalars) is its own copy.  An object is copied field by field into a freshly
allocated object of the same class; reference-typed fields are copied recursively (no sharing inside the copied structure is assumed: A-OWN)."""
from __future__ import annotations

import z3

from . import vtypes as ty
from .lib import _U, _out
from .state import PyList, PyDict


def _has_ref(t):
    if isinstance(t, ty.RefT):
        return True
    if isinstance(t, ty.OptT):
        return _has_ref(t.inner)
    if isinstance(t, ty.SeqT):
        return _has_ref(t.elem)
    if isinstance(t, ty.TupT):
        return any(_has_ref(x) for x in t.items)
    if isinstance(t, ty.MapT):
        return _has_ref(t.val)
    return False


def deepcopy_obj(ex, st, obj: ty.ObjV, node, depth=0):
    if depth > 4:
        raise _U("deepcopy: reference chain too deep", node)
    new = ex.alloc_obj(st, obj.cls)
    classes = [obj.cls] + [c for c in ex.reg.schemas if c != obj.cls and ex.reg.is_subclass(c, obj.cls) and not obj.exact]
    done = set()
    for cls in classes:
        for fname, (decl, t) in ex.reg.all_fields(cls).items():
            if (decl, fname) in done:
                continue
            done.add((decl, fname))
            v = ex.read_field(st, ty.ObjV(obj.ref, decl), fname, node)
            if isinstance(t, ty.RefT):
                tgt = ty.ObjV(v.ref, t.cls, t.nullable, t.exact)
                if t.nullable:
                    raise _U(f"deepcopy of a nullable reference field {decl}.{fname}", node)
                v = deepcopy_obj(ex, st, tgt, node, depth + 1)
            elif _has_ref(t):
                raise _U(f"deepcopy of a container of references in {decl}.{fname}", node)
            ex.write_field(st, ty.ObjV(new.ref, decl), fname, v, node)
    return new


def m_deepcopy(ex, st, args, kwargs, node):
    (v,) = args
    if isinstance(v, (ty.SeqV, ty.MatV, ty.MapV, ty.CMatV)) and not (isinstance(v, ty.SeqV) and _has_ref(v.elem)) \
            and not (isinstance(v, ty.MapV) and _has_ref(v.val)):
        return _out(v, st)
    if isinstance(v, ty.ObjV):
        if v.nullable:
            ex.safety(st, "none-deepcopy", v.ref != ty.NULL, node)
        return _out(deepcopy_obj(ex, st, v, node), st)
    if v is None or isinstance(v, (int, str, bool)) or ty.is_z3(v) or ty.is_num_const(v):
        return _out(v, st)
    if isinstance(v, ty.SeqV) and isinstance(v.elem, ty.RefT):
        return _out(deepcopy_ref_seq(ex, st, v, node), st)
    raise _U(f"copy.deepcopy of {v!r}", node)


def deepcopy_ref_seq(ex, st, v: ty.SeqV, node):
    """deep copy of a list of objects: element i of the result is a fresh object NEW(i) (pairwise distinct, not allocated before), every field of
    which equals the field of element i of the original; reference fields are copied one level further the same way."""
    cls = v.elem.cls
    i, j, r = z3.Int(ty.fresh_name("dci")), z3.Int(ty.fresh_name("dcj")), z3.Const(ty.fresh_name("dcr"), ty.RefSort)
    old_alloc = st.alloc
    plan = []          # (class, fresh-object function of i, original-object term of i)
    NEW = z3.Function(ty.fresh_name(f"copy_{cls}"), z3.IntSort(), ty.RefSort)
    plan.append((cls, NEW, lambda x: ty.sel(v.arrs[0], x)))
    k = 0
    while k < len(plan):
        c, fn, orig = plan[k]
        k += 1
        classes = [c] + [x for x in ex.reg.schemas if x != c and ex.reg.is_subclass(x, c)]
        for cc in classes:
            for fname, (decl, t) in ex.reg.all_fields(cc).items():
                if isinstance(t, ty.RefT) and not any(p[0] == t.cls and getattr(p[1], "_via", None) == (decl, fname) for p in plan):
                    if t.nullable:
                        raise _U(f"deepcopy of a nullable reference field {decl}.{fname}", node)
                    if len(plan) > 6:
                        raise _U("deepcopy: object graph too large", node)
                    sub = z3.Function(ty.fresh_name(f"copy_{t.cls}"), z3.IntSort(), ty.RefSort)
                    sub._via = (decl, fname)
                    harr = ex.heap_arr(st, ex.heap_keys(decl, fname, t)[0], ty.RefSort)
                    plan.append((t.cls, sub, (lambda o, h: (lambda x: z3.Select(h, o(x))))(orig, harr)))
    rng = lambda x: z3.And(x >= 0, x < v.len)
    fns = [p[1] for p in plan]
    # freshness, distinctness, allocation
    new_alloc = z3.Const(ty.fresh_name("alloc"), old_alloc.sort())
    st.assume(ty.FA([r], z3.Implies(z3.Select(old_alloc, r), z3.Select(new_alloc, r)), patterns=[z3.Select(new_alloc, r)]))
    for a_, f in enumerate(fns):
        st.assume(ty.FA([i], z3.Implies(rng(i), z3.And(f(i) != 0, z3.Not(z3.Select(old_alloc, f(i))), z3.Select(new_alloc, f(i)))), patterns=[f(i)]))
        st.assume(ty.FA([i, j], z3.Implies(z3.And(rng(i), rng(j), i != j), f(i) != f(j)), patterns=[z3.MultiPattern(f(i), f(j))]))
        for g in fns[a_ + 1:]:
            st.assume(ty.FA([i, j], z3.Implies(z3.And(rng(i), rng(j)), f(i) != g(j)), patterns=[z3.MultiPattern(f(i), g(j))]))
    st.alloc = new_alloc
    # fields
    written = {}
    for c, fn, orig in plan:
        classes = [c] + [x for x in ex.reg.schemas if x != c and ex.reg.is_subclass(x, c)]
        for cc in classes:
            for fname, (decl, t) in ex.reg.all_fields(cc).items():
                if not isinstance(t, ty.RefT) and _has_ref(t):
                    raise _U(f"deepcopy of a container of references in {decl}.{fname}", node)
                for hk, srt in zip(ex.heap_keys(decl, fname, t), t.comps()):
                    if (hk, fn) in written:
                        continue
                    written[(hk, fn)] = True
                    h0 = ex.heap_arr(st, hk, srt)
                    h1 = st.ghost.get(("__dc__", hk))
                    if h1 is None:
                        h1 = z3.Const(ty.fresh_name(f"H:{hk}"), h0.sort())
                        st.ghost[("__dc__", hk)] = (h0, h1)
                        st.assume(ty.FA([r], z3.Implies(z3.Select(old_alloc, r), z3.Select(h1, r) == z3.Select(h0, r)), patterns=[z3.Select(h1, r)]))
                    else:
                        h0, h1 = h1
                    if isinstance(t, ty.RefT):
                        sub = next(p[1] for p in plan if getattr(p[1], "_via", None) == (decl, fname))
                        st.assume(ty.FA([i], z3.Implies(rng(i), z3.Select(h1, fn(i)) == sub(i)), patterns=[fn(i)]))
                    else:
                        st.assume(ty.FA([i], z3.Implies(rng(i), z3.Select(h1, fn(i)) == z3.Select(h0, orig(i))), patterns=[fn(i)]))
    for key in [k_ for k_ in st.ghost if isinstance(k_, tuple) and k_[0] == "__dc__"]:
        h0, h1 = st.ghost.pop(key)
        st.heap[key[1]] = h1
    return ty.SeqV(v.elem, [z3.Lambda([i], NEW(i))], v.len)
