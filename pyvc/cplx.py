"""numpy model, part 2: complex scalars / vectors / matrices, boolean matrices, matrix products, trigonometry.

Complex arrays are pairs of real arrays.  Matrix products are written with the Sum operator:  (A @ B)[i][t] = Sum(lambda j. A[i][j] * B[j][t], n).
cos, sin, deg2rad and the complex magnitude `cabs` are uninterpreted (A-MATH); every operation here is an assumed contract on numpy
(A-LIB), shapes are checked by safety obligations."""
from __future__ import annotations

import ast
from fractions import Fraction

import z3

from . import vtypes as ty
from .lib import _U, _out, _num, _isnum
from .nplib import SUM, _i, _real
from .state import PyList

R = z3.RealSort()
COS = z3.Function("cos", R, R)
SIN = z3.Function("sin", R, R)
D2R = z3.Function("deg2rad", R, R)
CABS = z3.Function("cabs", R, R, R)        # |re + i im|


class CplxV:
    __slots__ = ("re", "im")

    def __init__(self, re, im):
        self.re, self.im = re, im

    def __repr__(self):
        return f"Cplx({self.re}, {self.im})"


class CSeqV:
    """complex vector: two real arrays and a length"""
    __slots__ = ("re", "im", "len")

    def __init__(self, re, im, length):
        self.re, self.im, self.len = re, im, length

    def __repr__(self):
        return f"CSeqV(len={self.len})"


class BMatV:
    __slots__ = ("arr", "rows", "cols")

    def __init__(self, arr, rows, cols):
        self.arr, self.rows, self.cols = arr, rows, cols

    def at(self, i, j):
        return ty.sel(ty.sel(self.arr, i), j)

    def __repr__(self):
        return f"BMatV({self.rows}x{self.cols})"


def is_zero(x):
    if ty.is_num_const(x):
        return x == 0
    if ty.is_z3(x):
        x = z3.simplify(x)
        if z3.is_int_value(x):
            return x.as_long() == 0
        if z3.is_rational_value(x):
            return x.as_fraction() == 0
    return False


def _r(x):
    return ty.to_real(x)


def _mul(x, y):
    """product of two real terms with 0 / 1 folded (keeps `0 * cos(..)` out of the formulas)"""
    if is_zero(x) or is_zero(y):
        return z3.RealVal(0)
    return _r(x) * _r(y)


def _sub(x, y):
    if is_zero(y):
        return _r(x)
    if is_zero(x):
        return -_r(y)
    return _r(x) - _r(y)


def _add(x, y):
    if is_zero(y):
        return _r(x)
    if is_zero(x):
        return _r(y)
    return _r(x) + _r(y)


def cmul(a_re, a_im, b_re, b_im):
    return _sub(_mul(a_re, b_re), _mul(a_im, b_im)), _add(_mul(a_re, b_im), _mul(a_im, b_re))


def seq_real_arr(v: ty.SeqV):
    if v.elem is ty.Real:
        return v.arrs[0]
    if v.elem is ty.Int:
        i = _i("ri")
        return z3.Lambda([i], z3.ToReal(ty.sel(v.arrs[0], i)))
    raise _U(f"numeric vector expected, got a sequence of {v.elem}")


def is_cplx(v):
    return isinstance(v, (CplxV, CSeqV, ty.CMatV))


# ---------------------------------------------------------------------------- arithmetic
def binop(ex, st, op, a, b, node):
    """complex-aware elementwise arithmetic and the matrix product; returns None when not applicable"""
    if isinstance(op, ast.MatMult):
        return matmul(ex, st, a, b, node)
    if not (is_cplx(a) or is_cplx(b)):
        return None
    if isinstance(op, ast.Mult):
        return cplx_mult(ex, st, a, b, node)
    raise _U(f"complex operator {op.__class__.__name__}", node)


def cplx_mult(ex, st, a, b, node):
    if not is_cplx(a):
        a, b = b, a            # multiplication commutes
    if isinstance(a, CplxV):
        if isinstance(b, CplxV):
            return CplxV(*cmul(a.re, a.im, b.re, b.im))
        if isinstance(b, ty.SeqV):
            arr = seq_real_arr(b)
            i = _i("ci")
            x = ty.sel(arr, i)
            re, im = cmul(a.re, a.im, x, 0)
            return CSeqV(z3.Lambda([i], _r(re)), z3.Lambda([i], _r(im)), b.len)
        if _isnum(b):
            return CplxV(*cmul(a.re, a.im, _num(ex, st, b, node), 0))
    if isinstance(a, CSeqV):
        if isinstance(b, ty.MatV):
            # M * c : broadcasting along the last axis, (M * c)[t][j] = M[t][j] * c[j]
            ex.safety(st, "shape(broadcast)", b.cols == a.len, node)
            i, j = _i("bi"), _i("bj")
            m = b.at(i, j)
            re, im = cmul(ty.sel(a.re, j), ty.sel(a.im, j), m, 0)
            return ty.CMatV(ty.MatV(z3.Lambda([i], z3.Lambda([j], _r(re))), b.rows, b.cols),
                            ty.MatV(z3.Lambda([i], z3.Lambda([j], _r(im))), b.rows, b.cols))
        if isinstance(b, ty.SeqV):
            ex.safety(st, "shape(elementwise)", b.len == a.len, node)
            i = _i("ci")
            re, im = cmul(ty.sel(a.re, i), ty.sel(a.im, i), ty.sel(seq_real_arr(b), i), 0)
            return CSeqV(z3.Lambda([i], _r(re)), z3.Lambda([i], _r(im)), a.len)
        if _isnum(b):
            i = _i("ci")
            re, im = cmul(ty.sel(a.re, i), ty.sel(a.im, i), _num(ex, st, b, node), 0)
            return CSeqV(z3.Lambda([i], _r(re)), z3.Lambda([i], _r(im)), a.len)
    raise _U(f"complex product of {a!r} and {b!r}", node)


def _dot(f, n):
    j = _i("dj")
    return SUM(z3.Lambda([j], f(j)), n)


def matmul(ex, st, a, b, node):
    if isinstance(a, ty.MatV) and isinstance(b, ty.MatV):
        ex.safety(st, "shape(matmul)", a.cols == b.rows, node)
        i, t = _i("mi"), _i("mt")
        return ty.MatV(z3.Lambda([i], z3.Lambda([t], _dot(lambda j: a.at(i, j) * b.at(j, t), a.cols))), a.rows, b.cols)
    if isinstance(a, ty.MatV) and isinstance(b, ty.CMatV):
        ex.safety(st, "shape(matmul)", a.cols == b.re.rows, node)
        i, t = _i("mi"), _i("mt")
        return ty.CMatV(ty.MatV(z3.Lambda([i], z3.Lambda([t], _dot(lambda j: a.at(i, j) * b.re.at(j, t), a.cols))), a.rows, b.re.cols),
                        ty.MatV(z3.Lambda([i], z3.Lambda([t], _dot(lambda j: a.at(i, j) * b.im.at(j, t), a.cols))), a.rows, b.re.cols))
    if isinstance(a, ty.MatV) and isinstance(b, ty.SeqV):
        ex.safety(st, "shape(matmul)", a.cols == b.len, node)
        i = _i("mi")
        bb = seq_real_arr(b)
        return ty.SeqV(ty.Real, [z3.Lambda([i], _dot(lambda j: a.at(i, j) * ty.sel(bb, j), a.cols))], a.rows)
    if isinstance(a, ty.SeqV) and isinstance(b, ty.MatV):
        ex.safety(st, "shape(matmul)", a.len == b.rows, node)
        t = _i("mt")
        aa = seq_real_arr(a)
        return ty.SeqV(ty.Real, [z3.Lambda([t], _dot(lambda j: ty.sel(aa, j) * b.at(j, t), a.len))], b.cols)
    if isinstance(a, ty.SeqV) and isinstance(b, ty.SeqV):
        ex.safety(st, "shape(matmul)", a.len == b.len, node)
        aa, bb = seq_real_arr(a), seq_real_arr(b)
        return _dot(lambda j: ty.sel(aa, j) * ty.sel(bb, j), a.len)
    raise _U(f"matrix product of {a!r} and {b!r}", node)


# ---------------------------------------------------------------------------- elementwise comparison
def compare_arrays(ex, st, op, a, b, node):
    fs = {ast.Lt: lambda x, y: x < y, ast.LtE: lambda x, y: x <= y, ast.Gt: lambda x, y: x > y, ast.GtE: lambda x, y: x >= y}
    f = fs.get(type(op))
    if f is None:
        raise _U("elementwise == / != on arrays", node)
    if isinstance(a, ty.MatV) and isinstance(b, ty.MatV):
        ex.safety(st, "shape(elementwise)", z3.And(a.rows == b.rows, a.cols == b.cols), node)
        i, j = _i("ci"), _i("cj")
        return BMatV(z3.Lambda([i], z3.Lambda([j], f(a.at(i, j), b.at(i, j)))), a.rows, a.cols)
    if isinstance(a, ty.SeqV) and isinstance(b, ty.SeqV):
        ex.safety(st, "shape(elementwise)", a.len == b.len, node)
        i = _i("ci")
        return ty.SeqV(ty.Bool, [z3.Lambda([i], f(ty.sel(seq_real_arr(a), i), ty.sel(seq_real_arr(b), i)))], a.len)
    if isinstance(a, ty.SeqV) and _isnum(b):
        i = _i("ci")
        bb = _real(ex, st, b, node)
        return ty.SeqV(ty.Bool, [z3.Lambda([i], f(ty.sel(seq_real_arr(a), i), bb))], a.len)
    if _isnum(a) and isinstance(b, ty.SeqV):
        i = _i("ci")
        aa = _real(ex, st, a, node)
        return ty.SeqV(ty.Bool, [z3.Lambda([i], f(aa, ty.sel(seq_real_arr(b), i)))], b.len)
    if isinstance(a, ty.MatV) and _isnum(b):
        i, j = _i("ci"), _i("cj")
        bb = _real(ex, st, b, node)
        return BMatV(z3.Lambda([i], z3.Lambda([j], f(a.at(i, j), bb))), a.rows, a.cols)
    raise _U(f"elementwise comparison of {a!r} and {b!r}", node)


# ---------------------------------------------------------------------------- numpy functions
def np_deg2rad(ex, st, args, kwargs, node):
    (v,) = args
    if isinstance(v, ty.SeqV):
        i = _i("di")
        return _out(ty.SeqV(ty.Real, [z3.Lambda([i], D2R(ty.sel(seq_real_arr(v), i)))], v.len), st)
    return _out(D2R(_real(ex, st, v, node)), st)


def _trig(fn):
    def f(ex, st, args, kwargs, node):
        (v,) = args
        if isinstance(v, ty.SeqV):
            i = _i("ti")
            return _out(ty.SeqV(ty.Real, [z3.Lambda([i], fn(ty.sel(seq_real_arr(v), i)))], v.len), st)
        return _out(fn(_real(ex, st, v, node)), st)
    return f


np_cos, np_sin = _trig(COS), _trig(SIN)


def np_exp_complex(ex, st, v, node):
    """exp of a complex value; for a purely imaginary argument exp(i x) = cos x + i sin x"""
    from .dsl import EXP
    if isinstance(v, CSeqV):
        i = _i("xi")
        re, im = ty.sel(v.re, i), ty.sel(v.im, i)
        pure = is_zero(z3.simplify(re))
        c, s_ = COS(im), SIN(im)
        if pure:
            return CSeqV(z3.Lambda([i], c), z3.Lambda([i], s_), v.len)
        return CSeqV(z3.Lambda([i], EXP(re) * c), z3.Lambda([i], EXP(re) * s_), v.len)
    if isinstance(v, CplxV):
        if is_zero(v.re):
            return CplxV(COS(_r(v.im)), SIN(_r(v.im)))
        return CplxV(EXP(_r(v.re)) * COS(_r(v.im)), EXP(_r(v.re)) * SIN(_r(v.im)))
    raise _U("np.exp of a complex matrix", node)


def np_abs_complex(ex, st, v, node):
    if isinstance(v, ty.CMatV):
        i, j = _i("ai"), _i("aj")
        return ty.MatV(z3.Lambda([i], z3.Lambda([j], CABS(v.re.at(i, j), v.im.at(i, j)))), v.re.rows, v.re.cols)
    if isinstance(v, CSeqV):
        i = _i("ai")
        return ty.SeqV(ty.Real, [z3.Lambda([i], CABS(ty.sel(v.re, i), ty.sel(v.im, i)))], v.len)
    if isinstance(v, CplxV):
        return CABS(_r(v.re), _r(v.im))
    raise _U("np.abs", node)


def np_all_bmat(ex, st, v, is_any):
    i, j = _i("qi"), _i("qj")
    rng = z3.And(i >= 0, i < v.rows, j >= 0, j < v.cols)
    return z3.Exists([i, j], z3.And(rng, v.at(i, j))) if is_any else ty.FA([i, j], z3.Implies(rng, v.at(i, j)))


def np_stack(ex, st, args, kwargs, node):
    v = args[0]
    if isinstance(v, PyList) and v.items and all(isinstance(x, ty.SeqV) for x in v.items) and not kwargs:
        n = v.items[0].len
        for x in v.items[1:]:
            ex.safety(st, "np.stack-equal-lengths", x.len == n, node)
        rows = z3.K(z3.IntSort(), z3.K(z3.IntSort(), z3.RealVal(0)))
        for k, x in enumerate(v.items):
            rows = z3.Store(rows, k, seq_real_arr(x))
        return _out(ty.MatV(rows, z3.IntVal(len(v.items)), n), st)
    raise _U(f"np.stack of {v!r}", node)


def np_linalg_norm(ex, st, args, kwargs, node):
    """only the use made of it: the Euclidean norm of 2-vectors (A-LIB: sqrt(x^2 + y^2) = |x + iy|), along axis 0"""
    v = args[0]
    axis = kwargs.get("axis", args[1] if len(args) > 1 else None)
    if isinstance(v, ty.MatV) and axis == 0 and z3.is_int_value(z3.simplify(v.rows)) and z3.simplify(v.rows).as_long() == 2:
        t = _i("nt")
        return _out(ty.SeqV(ty.Real, [z3.Lambda([t], CABS(v.at(0, t), v.at(1, t)))], v.cols), st)
    if isinstance(v, ty.SeqV) and axis in (0, None) and z3.is_int_value(z3.simplify(v.len)) and z3.simplify(v.len).as_long() == 2:
        a = seq_real_arr(v)
        return _out(CABS(ty.sel(a, 0), ty.sel(a, 1)), st)
    raise _U(f"np.linalg.norm of {v!r} (axis={axis!r})", node)


def astype(ex, st, recv, args, kwargs, node):
    if args and args[0] == "complex" and isinstance(recv, ty.MatV):
        zero = ty.MatV(z3.K(z3.IntSort(), z3.K(z3.IntSort(), z3.RealVal(0))), recv.rows, recv.cols)
        return _out(ty.CMatV(recv, zero), st)
    raise _U(f"astype({args!r}) of {recv!r}", node)


def ctranspose(v):
    from .nplib import transpose
    return ty.CMatV(transpose(v.re), transpose(v.im))


# ---------------------------------------------------------------------------- fancy indexing
def rows_by_index(ex, st, m: ty.MatV, idx: ty.SeqV, node):
    """M[[i0, i1, ..]] : the listed rows, in the listed order"""
    k = _i("fk")
    ex.safety(st, "index(fancy rows)", ty.FA([k], z3.Implies(z3.And(k >= 0, k < idx.len), z3.And(ty.sel(idx.arrs[0], k) >= 0, ty.sel(idx.arrs[0], k) < m.rows))), node)
    i = _i("fi")
    return ty.MatV(z3.Lambda([i], ty.sel(m.arr, ty.sel(idx.arrs[0], i))), idx.len, m.cols)


def cols_by_index(ex, st, m: ty.MatV, idx: ty.SeqV, node):
    """M[:, [t0, t1, ..]] : the listed columns, in the listed order"""
    k = _i("fk")
    ex.safety(st, "index(fancy columns)", ty.FA([k], z3.Implies(z3.And(k >= 0, k < idx.len), z3.And(ty.sel(idx.arrs[0], k) >= 0, ty.sel(idx.arrs[0], k) < m.cols))), node)
    i, j = _i("fi"), _i("fj")
    return ty.MatV(z3.Lambda([i], z3.Lambda([j], m.at(i, ty.sel(idx.arrs[0], j)))), m.rows, idx.len)


def mat_rows_seq(m: ty.MatV):
    """the rows of a matrix as a sequence of real vectors (iteration over a 2-D array)"""
    return ty.SeqV(ty.SeqT(ty.Real), [m.arr, z3.K(z3.IntSort(), m.cols)], m.rows)


# ---------------------------------------------------------------------------- theory axioms (instantiated per occurrence)
def cabs_axioms(formulas):
    from .lib import collect_apps, _is_ground
    out = []
    for app in collect_apps(formulas, "cabs"):
        x, y = app.arg(0), app.arg(1)
        if not (_is_ground(x) and _is_ground(y)):
            continue
        out.append(app >= 0)
        out.append(z3.Implies(y == 0, app == z3.If(x >= 0, x, -x)))
        out.append(z3.Implies(x == 0, app == z3.If(y >= 0, y, -y)))
    return out
