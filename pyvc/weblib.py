"""Strings and the HTTP client (A-LIB), as far as acndata/data_client.py needs them.

Strings are z3 strings.  The server is a ghost: three uninterpreted functions of the requested URL - the page's items (a z3 sequence of document
references), whether the page has a next link, and that link's href.  requests.get(url, ...) appends url to the ghost request log and returns a
response whose .json() is the payload of that URL."""
from __future__ import annotations

import z3

from . import vtypes as ty
from .lib import _U, _out, _num

S = z3.StringSort()
RefSeq = z3.SeqSort(z3.IntSort())
StrSeq = z3.SeqSort(S)
SRV_ITEMS = z3.Function("srv_items", S, RefSeq)
SRV_HASNEXT = z3.Function("srv_has_next", S, z3.BoolSort())
SRV_HREF = z3.Function("srv_next_href", S, S)


def is_str(v):
    return isinstance(v, str) or (ty.is_z3(v) and v.sort() == S)


def to_str(v):
    if isinstance(v, str):
        return z3.StringVal(v)
    if ty.is_z3(v) and v.sort() == S:
        return v
    if isinstance(v, int) and not isinstance(v, bool):
        return z3.StringVal(str(v))
    if ty.is_z3(v) and z3.is_int(v):
        return z3.IntToStr(v)
    if ty.is_z3(v) and z3.is_real(v):
        return NUMSTR(v)
    raise TypeError(f"not a string: {v!r}")


def concat(*parts):
    ps = [to_str(p) for p in parts if not (isinstance(p, str) and p == "")]
    if not ps:
        return z3.StringVal("")
    return ps[0] if len(ps) == 1 else z3.Concat(*ps)


def fmt(template: str, args):
    """"..{0}..{1}..".format(*args) for positional fields only"""
    import re
    out, pos = [], 0
    for m in re.finditer(r"\{(\d*)\}", template):
        out.append(template[pos:m.start()])
        k = int(m.group(1)) if m.group(1) else len([x for x in out if not isinstance(x, str)])
        out.append(args[k])
        pos = m.end()
    out.append(template[pos:])
    return concat(*out)


class ResponseV:
    __slots__ = ("url",)

    def __init__(self, url):
        self.url = url

    def havoc(self, base):
        return ResponseV(z3.Const(ty.fresh_name(base + "_url"), S))


class PayloadV(ResponseV):
    def havoc(self, base):
        return PayloadV(z3.Const(ty.fresh_name(base + "_url"), S))


class LinksV(ResponseV):
    pass


class HeadResponseV(ResponseV):
    pass


class HeadersV(ResponseV):
    pass


SRV_TOTAL = z3.Function("srv_total_count_header", S, S)          # the x-total-count header the server answers a HEAD request for this URL with
NUMSTR = z3.Function("str_of_number", z3.RealSort(), S)          # str(x) / "{0}".format(x) of a number: an unspecified function of its value


def requests_head(ex, st, args, kwargs, node):
    """requests.head(url, headers=...): logged like a GET; the answer's headers are a function of the URL (ghost server)"""
    url = to_str(args[0])
    log = st.ghost.get("requests", z3.Empty(StrSeq))
    st.ghost["requests"] = z3.Concat(log, z3.Unit(url))
    return _out(HeadResponseV(url), st)


class NextV(ResponseV):
    pass


def refs_of(seq):
    """a z3 sequence of references as a SeqV"""
    i = z3.Int(ty.fresh_name("wi"))
    return ty.SeqV(ty.Ref("SessionDoc"), [z3.Lambda([i], seq[i])], z3.Length(seq))


def requests_get(ex, st, args, kwargs, node):
    url = to_str(args[0])
    log = st.ghost.get("requests", z3.Empty(StrSeq))
    st.ghost["requests"] = z3.Concat(log, z3.Unit(url))
    return _out(ResponseV(url), st)


def web_attr(ex, st, v, attr, node):
    from .symex import Intrinsic
    if type(v) is HeadResponseV and attr == "headers":
        return _out(HeadersV(v.url), st)
    if type(v) is ResponseV and attr == "json":
        return _out(Intrinsic("Response.json", lambda ex_, st_, recv, a, k, n: _out(PayloadV(recv.url), st_), recv=v), st)
    return None


def web_getitem(ex, st, v, idx, node):
    if type(v) is HeadersV and idx == "x-total-count":
        return _out(SRV_TOTAL(v.url), st)
    if type(v) is PayloadV and idx == "_items":
        return _out(refs_of(SRV_ITEMS(v.url)), st)
    if type(v) is PayloadV and idx == "_links":
        return _out(LinksV(v.url), st)
    if type(v) is LinksV and idx == "next":
        ex.safety(st, "key('next')", SRV_HASNEXT(v.url), node)
        return _out(NextV(v.url), st)
    if type(v) is NextV and idx == "href":
        return _out(SRV_HREF(v.url), st)
    return None


def web_contains(ex, st, v, x, node):
    if type(v) is LinksV and x == "next":
        return SRV_HASNEXT(v.url)
    return None


def do_yield(ex, st, val, node):
    if not isinstance(val, ty.ObjV):
        raise _U(f"yield of {val!r}", node)
    out = st.ghost.get("yielded", z3.Empty(RefSeq))
    st.ghost["yielded"] = z3.Concat(out, z3.Unit(val.ref))
