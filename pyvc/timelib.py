"""datetime / timedelta / Decimal model (A-LIB).

A datetime object is a schema object with the ghost field theta (seconds since the epoch, a real).  Its calendar fields are uninterpreted
functions of theta (one fixed time zone per run); datetime + timedelta allocates a new datetime with theta shifted by the duration.
Decimal arithmetic is exact rational arithmetic, i.e. real arithmetic."""
from __future__ import annotations

from fractions import Fraction

import z3

from . import vtypes as ty
from .lib import _U, _out, _num

R, I = z3.RealSort(), z3.IntSort()
CAL = {n: z3.Function("cal_" + n, R, I) for n in ("weekday", "month", "day", "hour", "minute", "second")}
RANGES = dict(weekday=(0, 6), month=(1, 12), day=(1, 31), hour=(0, 23), minute=(0, 59), second=(0, 59))


class TimedeltaV:
    __slots__ = ("seconds",)

    def __init__(self, seconds):
        self.seconds = seconds

    def __repr__(self):
        return f"timedelta({self.seconds}s)"


def m_timedelta(ex, st, args, kwargs, node):
    if args:
        raise _U("timedelta with positional arguments", node)
    unit = dict(days=86400, hours=3600, minutes=60, seconds=1)
    total = z3.RealVal(0)
    for k, v in kwargs.items():
        if k not in unit:
            raise _U(f"timedelta({k}=...)", node)
        total = total + ty.to_real(_num(ex, st, v, node)) * unit[k]
    return _out(TimedeltaV(z3.simplify(total)), st)


def m_decimal(ex, st, args, kwargs, node):
    (v,) = args
    if isinstance(v, str):
        return _out(Fraction(v), st)
    v = _num(ex, st, v, node)
    return _out(Fraction(v) if ty.is_num_const(v) else ty.to_real(v), st)


def cal_field(ex, st, obj, name, node):
    theta = ex.read_field(st, obj, "theta", node)
    v = CAL[name](theta)
    lo, hi = RANGES[name]
    st.assume(z3.And(v >= lo, v <= hi))
    return v


def datetime_attr(ex, st, obj, attr, node):
    from .symex import Intrinsic
    if attr in ("month", "day", "hour", "minute", "second"):
        return _out(cal_field(ex, st, obj, attr, node), st)
    if attr == "replace":
        return _out(Intrinsic("datetime.replace", dt_replace, recv=obj), st)
    if attr == "weekday":
        return _out(Intrinsic("datetime.weekday", lambda ex_, st_, recv, a, k, n: _out(cal_field(ex_, st_, recv, "weekday", n), st_), recv=obj), st)
    return None


WALL = z3.Function("wall_clock_reading_as_naive", R, R)      # dt.replace(tzinfo=None): the same wall-clock fields without a zone, as a position on the naive time line


def dt_replace(ex, st, recv, args, kwargs, node):
    """datetime.replace(tzinfo=None): a new, naive datetime showing the same wall-clock reading (A-LIB); other replacements are not modelled"""
    if args or set(kwargs) != {"tzinfo"} or kwargs["tzinfo"] is not None:
        raise _U("datetime.replace other than replace(tzinfo=None)", node)
    theta = ex.read_field(st, recv, "theta", node)
    new = ex.alloc_obj(st, "datetime")
    ex.write_field(st, new, "theta", WALL(theta), node)
    return _out(new, st)


def m_np_datetime64(ex, st, args, kwargs, node):
    """np.datetime64(naive datetime): the same instant of the naive time line (resolution effects - microseconds - are not modelled)"""
    (v,) = args
    if isinstance(v, ty.ObjV) and v.cls == "datetime" and not kwargs:
        return _out(v, st)
    raise _U(f"np.datetime64({v!r})", node)


def shifted(ex, st, dt, secs, node):
    theta = ex.read_field(st, dt, "theta", node)
    new = ex.alloc_obj(st, "datetime")
    ex.write_field(st, new, "theta", theta + secs, node)
    return new


def binop(ex, st, op, a, b, node):
    import ast
    if isinstance(op, ast.Mult):
        if isinstance(a, TimedeltaV) and not isinstance(b, TimedeltaV):
            return TimedeltaV(a.seconds * ty.to_real(_num(ex, st, b, node)))
        if isinstance(b, TimedeltaV) and not isinstance(a, TimedeltaV):
            return TimedeltaV(b.seconds * ty.to_real(_num(ex, st, a, node)))
    if isinstance(op, ast.Add):
        if isinstance(a, ty.ObjV) and a.cls == "datetime" and isinstance(b, TimedeltaV):
            return shifted(ex, st, a, b.seconds, node)
        if isinstance(b, ty.ObjV) and b.cls == "datetime" and isinstance(a, TimedeltaV):
            return shifted(ex, st, b, a.seconds, node)
        if isinstance(a, TimedeltaV) and isinstance(b, TimedeltaV):
            return TimedeltaV(a.seconds + b.seconds)
    if isinstance(op, ast.Sub) and isinstance(a, ty.ObjV) and a.cls == "datetime" and isinstance(b, TimedeltaV):
        return shifted(ex, st, a, -b.seconds, node)
    raise _U(f"operator on {a!r}, {b!r}", node)
