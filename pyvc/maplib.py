"""dict / OrderedDict model on MapV (domain array, value arrays, and for ordered maps the key sequence)."""
from __future__ import annotations

import z3

from . import vtypes as ty
from .lib import _U, _out, _raise, seq_remove_value


_KPOS = {}


def _kpos(ka, key):
    """position of a key in the key sequence: one uninterpreted function per (index sort, key sort), applied to the key
    array itself, so that the same map value always yields the same witness term"""
    srt = ka.sort()
    f = _KPOS.get(srt.name())
    if f is None:
        f = _KPOS[srt.name()] = z3.Function(f"kpos[{srt.range()}]", srt, srt.range(), z3.IntSort())
    return f(ka, key)


def keys_wf(m: ty.MapV):
    """Well-formedness of an ordered map: the key sequence lists exactly the domain, without repetition."""
    if m.keys is None:
        return z3.BoolVal(True)
    (ka,) = m.keys.arrs
    i, j = z3.Int(ty.fresh_name("ki")), z3.Int(ty.fresh_name("kj"))
    ks = ka.sort().range()
    x = z3.Const(ty.fresh_name("kx"), ks)
    pos = lambda key: _kpos(ka, key)
    return z3.And(
        m.keys.len >= 0,
        ty.FA([i], z3.Implies(z3.And(i >= 0, i < m.keys.len), z3.And(z3.Select(m.dom, z3.Select(ka, i)), pos(z3.Select(ka, i)) == i)),
                  patterns=[z3.Select(ka, i)]),
        ty.FA([x], z3.Implies(z3.Select(m.dom, x), z3.And(pos(x) >= 0, pos(x) < m.keys.len, z3.Select(ka, pos(x)) == x)),
                  patterns=[z3.Select(m.dom, x)]))


def assume_map_wf(st, m: ty.MapV):
    """Type invariant of the ordered-map sort (A-LIB): a Python dict / OrderedDict value is always well-formed - its key list
    enumerates its domain without repetition.  Assumed whenever such a value is read from the heap or produced by a modelled
    dict operation (once per key array)."""
    if m.keys is None:
        return
    seen = st.ghost.setdefault("__mapwf__", set())
    key = (m.keys.arrs[0].get_id(), m.dom.get_id(), m.keys.len.get_id())
    if key in seen:
        return
    seen.add(key)
    st.assume(keys_wf(m))


def values_seq(m: ty.MapV):
    if m.keys is None:
        raise _U("values() of an unordered symbolic map")
    (ka,) = m.keys.arrs
    i = z3.Int(ty.fresh_name("vi"))
    return ty.SeqV(m.val, [z3.Lambda([i], z3.Select(a, z3.Select(ka, i))) for a in m.arrs], m.keys.len)


def items_seq(m: ty.MapV):
    (ka,) = m.keys.arrs
    i = z3.Int(ty.fresh_name("vi"))
    return ty.SeqV(ty.Tup(m.key, m.val), [ka] + [z3.Lambda([i], z3.Select(a, z3.Select(ka, i))) for a in m.arrs], m.keys.len)


def mv_keys(ex, st, recv, args, kwargs, node):
    if recv.keys is None:
        raise _U("keys() of an unordered symbolic map", node)
    return _out(recv.keys, st)


def mv_values(ex, st, recv, args, kwargs, node):
    return _out(values_seq(recv), st)


def mv_items(ex, st, recv, args, kwargs, node):
    return _out(items_seq(recv), st)


def mv_get(ex, st, recv, args, kwargs, node):
    k = ex.coerce(recv.key, args[0], node)
    dflt = args[1] if len(args) > 1 else None
    res = []
    for taken, s2 in ex.branch(st, recv.has(k), f"get@L{getattr(node, 'lineno', 0)}"):
        res.extend(_out(recv.at(k) if taken else dflt, s2))
    return res


def mutate(ex, st, recv: ty.MapV, meth, args, kwargs, node):
    """-> list of (new map, return value, state, exception)"""
    from .symex import ExcV
    ln = getattr(node, "lineno", 0)
    if meth == "popitem":
        last = kwargs.get("last", args[0] if args else True)
        if recv.keys is None or not isinstance(last, bool):
            raise _U("popitem on unordered map / symbolic `last`", node)
        out = []
        for taken, s2 in ex.branch(st, recv.keys.len > 0, f"nonempty@L{ln}"):
            if not taken:
                out.append((recv, None, s2, ExcV("KeyError", ln)))
                continue
            (ka,) = recv.keys.arrs
            if last:
                k = z3.Select(ka, recv.keys.len - 1)
                keys = recv.keys.with_len(recv.keys.len - 1)
            else:
                k = z3.Select(ka, 0)
                i = z3.Int(ty.fresh_name("i"))
                keys = ty.SeqV(recv.keys.elem, [z3.Lambda([i], z3.Select(ka, i + 1))], recv.keys.len - 1)
            v = recv.at(k)
            ex.assume_wf(s2, recv.val, v)
            new = ty.MapV(recv.key, recv.val, z3.Store(recv.dom, k, z3.BoolVal(False)), recv.arrs, keys)
            assume_map_wf(s2, new)
            out.append((new, (k, v), s2, None))
        return out
    if meth == "pop":
        k = ex.coerce(recv.key, args[0], node)
        (kc,) = ty.pack(recv.key, k)
        out = []
        for taken, s2 in ex.branch(st, recv.has(k), f"has@L{ln}"):
            if not taken:
                if len(args) > 1:
                    out.append((recv, args[1], s2, None))
                else:
                    out.append((recv, None, s2, ExcV("KeyError", ln)))
                continue
            keys = seq_remove_value(ex, s2, recv.keys, kc) if recv.keys is not None else None
            v = recv.at(k)
            ex.assume_wf(s2, recv.val, v)
            new = ty.MapV(recv.key, recv.val, z3.Store(recv.dom, kc, z3.BoolVal(False)), recv.arrs, keys)
            assume_map_wf(s2, new)
            out.append((new, v, s2, None))
        return out
    if meth == "move_to_end":
        # OrderedDict.move_to_end(key, last=True): KeyError if absent; otherwise the key leaves its place and is appended
        last = kwargs.get("last", args[1] if len(args) > 1 else True)
        if recv.keys is None or last is not True:
            raise _U("move_to_end on unordered map / last != True", node)
        k = ex.coerce(recv.key, args[0], node)
        (kc,) = ty.pack(recv.key, k)
        out = []
        for taken, s2 in ex.branch(st, recv.has(k), f"has@L{ln}"):
            if not taken:
                out.append((recv, None, s2, ExcV("KeyError", ln)))
                continue
            rem = seq_remove_value(ex, s2, recv.keys, kc)
            keys = ty.SeqV(rem.elem, [z3.Store(rem.arrs[0], rem.len, kc)], rem.len + 1)
            new = ty.MapV(recv.key, recv.val, recv.dom, recv.arrs, keys)
            assume_map_wf(s2, new)
            out.append((new, None, s2, None))
        return out
    raise _U(f"method .{meth} on symbolic map", node)
