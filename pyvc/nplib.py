"""numpy model: 1-D arrays are SeqV(Real), 2-D real arrays are MatV (Array Int -> Array Int -> Real, rows, cols).
Each operation below is an assumed contract on the dependency (A-LIB).  Shapes are checked by safety obligations."""
from __future__ import annotations

import ast

import z3

from . import vtypes as ty
from .lib import _U, _out, _num, _isnum
from .state import PyList


def _i(name):
    return z3.Int(ty.fresh_name(name))


def _real(ex, st, v, node):
    return ty.to_real(_num(ex, st, v, node))


def np_array(ex, st, args, kwargs, node):
    v = args[0]
    if isinstance(v, ty.MatV):
        return _out(ty.MatV(v.arr, v.rows, v.cols), st)
    if isinstance(v, PyList):
        v = ex.coerce(ty.type_of(ex.to_storable(v)), ex.to_storable(v), node) if ty.type_of(ex.to_storable(v)) is not None else v
    if isinstance(v, ty.SeqV):
        if isinstance(v.elem, ty.SeqT) and v.elem.elem in (ty.Real, ty.Int):
            # list of equal-length rows -> matrix (numpy builds a ragged object array otherwise: safety obligation)
            rows_arr, lens = v.arrs[0], v.arrs[1]
            i = _i("ri")
            cols = z3.If(v.len > 0, ty.sel(lens, 0), z3.IntVal(0))
            ex.safety(st, "np.array-rows-of-equal-length", ty.FA([i], z3.Implies(z3.And(i >= 0, i < v.len), ty.sel(lens, i) == cols)), node)
            arr = rows_arr
            if v.elem.elem is ty.Int:
                j = _i("rj")
                arr = z3.Lambda([i], z3.Lambda([j], z3.ToReal(ty.sel(ty.sel(rows_arr, i), j))))
            return _out(ty.MatV(arr, v.len, cols), st)
        if v.elem is ty.Int:
            i = _i("ai")
            return _out(ty.SeqV(ty.Real, [z3.Lambda([i], z3.ToReal(ty.sel(v.arrs[0], i)))], v.len), st)
        return _out(ty.SeqV(v.elem, v.arrs, v.len), st)
    raise _U(f"np.array of {v!r}", node)


def np_zeros(ex, st, args, kwargs, node):
    shape = args[0]
    if isinstance(shape, tuple) and len(shape) == 2:
        r, c = ty.to_z3num(_num(ex, st, shape[0], node)), ty.to_z3num(_num(ex, st, shape[1], node))
        ex.safety(st, "np.zeros-nonnegative-shape", z3.And(r >= 0, c >= 0), node)
        return _out(ty.MatV(z3.K(z3.IntSort(), z3.K(z3.IntSort(), z3.RealVal(0))), r, c), st)
    n = ty.to_z3num(_num(ex, st, shape[0] if isinstance(shape, tuple) else shape, node))
    ex.safety(st, "np.zeros-nonnegative-shape", n >= 0, node)
    if kwargs.get("dtype") is not None:
        dt = kwargs["dtype"]
        if getattr(dt, "name", dt) in (int, "int"):
            return _out(ty.SeqV(ty.Int, [z3.K(z3.IntSort(), z3.IntVal(0))], n), st)
        raise _U(f"np.zeros with dtype {dt!r}", node)
    return _out(ty.SeqV(ty.Real, [z3.K(z3.IntSort(), z3.RealVal(0))], n), st)


def _slice_bounds(ex, st, sl, n, node):
    """python slice on an axis of length n with unit step and non-negative bounds -> (lo, hi) clipped to [0, n]"""
    if sl.step not in (None, 1):
        raise _U("slice with a step", node)
    lo = z3.IntVal(0) if sl.start is None else ty.to_z3num(_num(ex, st, sl.start, node))
    hi = n if sl.stop is None else ty.to_z3num(_num(ex, st, sl.stop, node))
    ex.safety(st, "slice-bounds-nonnegative (encoding)", z3.And(lo >= 0, hi >= 0), node)
    lo_c = z3.If(lo > n, n, lo)
    hi_c = z3.If(hi > n, n, hi)
    hi_c = z3.If(hi_c < lo_c, lo_c, hi_c)
    return lo_c, hi_c


def mat_getitem(ex, st, m, idx, node):
    if isinstance(idx, tuple) and len(idx) == 2:
        a, b = idx
        if not isinstance(a, slice) and not isinstance(b, slice):
            i, j = ty.to_z3num(_num(ex, st, a, node)), ty.to_z3num(_num(ex, st, b, node))
            ex.safety(st, "index", z3.And(i >= 0, i < m.rows, j >= 0, j < m.cols), node)
            return _out(m.at(i, j), st)
        if isinstance(a, slice) and not isinstance(b, slice) and a.start is None and a.stop is None:
            j = ty.to_z3num(_num(ex, st, b, node))
            ex.safety(st, "index", z3.And(j >= 0, j < m.cols), node)
            i = _i("ci")
            return _out(ty.SeqV(ty.Real, [z3.Lambda([i], m.at(i, j))], m.rows), st)
        if isinstance(b, slice) and not isinstance(a, slice) and b.start is None and b.stop is None:
            i = ty.to_z3num(_num(ex, st, a, node))
            ex.safety(st, "index", z3.And(i >= 0, i < m.rows), node)
            return _out(ty.SeqV(ty.Real, [ty.sel(m.arr, i)], m.cols), st)
        if isinstance(a, slice) and isinstance(b, slice) and a.start is None and a.stop is None:
            lo, hi = _slice_bounds(ex, st, b, m.cols, node)
            i, j = _i("si"), _i("sj")
            return _out(ty.MatV(z3.Lambda([i], z3.Lambda([j], m.at(i, j + lo))), m.rows, hi - lo), st)
    if _isnum(idx):
        i = ty.to_z3num(_num(ex, st, idx, node))
        ex.safety(st, "index", z3.And(i >= 0, i < m.rows), node)
        return _out(ty.SeqV(ty.Real, [ty.sel(m.arr, i)], m.cols), st)
    raise _U(f"matrix index {idx!r}", node)


def mat_store(ex, st, m, idx, v, node):
    """M[i, j] = x ; M[:, j] = vector ; M[:, lo:hi] = matrix   -> new MatV"""
    if isinstance(idx, tuple) and len(idx) == 2:
        a, b = idx
        if not isinstance(a, slice) and not isinstance(b, slice):
            i, j = ty.to_z3num(_num(ex, st, a, node)), ty.to_z3num(_num(ex, st, b, node))
            ex.safety(st, "index", z3.And(i >= 0, i < m.rows, j >= 0, j < m.cols), node)
            return ty.MatV(z3.Store(m.arr, i, z3.Store(ty.sel(m.arr, i), j, _real(ex, st, v, node))), m.rows, m.cols)
        if isinstance(a, slice) and a.start is None and a.stop is None and not isinstance(b, slice):
            j = ty.to_z3num(_num(ex, st, b, node))
            ex.safety(st, "index", z3.And(j >= 0, j < m.cols), node)
            if not isinstance(v, ty.SeqV):
                raise _U("column assignment of a non-vector", node)
            ex.safety(st, "shape(column assignment)", v.len == m.rows, node)
            i, jj = _i("ci"), _i("cj")
            return ty.MatV(z3.Lambda([i], z3.Lambda([jj], z3.If(jj == j, ty.to_real(ty.sel(v.arrs[0], i)), m.at(i, jj)))), m.rows, m.cols)
        if isinstance(a, slice) and a.start is None and a.stop is None and isinstance(b, slice):
            lo, hi = _slice_bounds(ex, st, b, m.cols, node)
            if not isinstance(v, ty.MatV):
                raise _U("block assignment of a non-matrix", node)
            ex.safety(st, "shape(block assignment)", z3.And(v.rows == m.rows, v.cols == hi - lo), node)
            i, j = _i("bi"), _i("bj")
            return ty.MatV(z3.Lambda([i], z3.Lambda([j], z3.If(z3.And(j >= lo, j < hi), v.at(i, j - lo), m.at(i, j)))), m.rows, m.cols)
    raise _U(f"matrix store at {idx!r}", node)


def transpose(v):
    i, j = _i("ti"), _i("tj")
    return ty.MatV(z3.Lambda([i], z3.Lambda([j], v.at(j, i))), v.cols, v.rows)


def elementwise2(ex, st, a, b, f, node):
    if isinstance(a, ty.SeqV) and isinstance(b, ty.SeqV):
        ex.safety(st, "shape(elementwise)", a.len == b.len, node)
        i = _i("ei")
        return ty.SeqV(ty.Real, [z3.Lambda([i], f(ty.to_real(ty.sel(a.arrs[0], i)), ty.to_real(ty.sel(b.arrs[0], i))))], a.len)
    if isinstance(a, ty.SeqV):
        bb = _real(ex, st, b, node)
        i = _i("ei")
        return ty.SeqV(ty.Real, [z3.Lambda([i], f(ty.to_real(ty.sel(a.arrs[0], i)), bb))], a.len)
    if isinstance(b, ty.SeqV):
        aa = _real(ex, st, a, node)
        i = _i("ei")
        return ty.SeqV(ty.Real, [z3.Lambda([i], f(aa, ty.to_real(ty.sel(b.arrs[0], i))))], b.len)
    if isinstance(a, ty.MatV) and isinstance(b, ty.MatV):
        ex.safety(st, "shape(elementwise)", z3.And(a.rows == b.rows, a.cols == b.cols), node)
        i, j = _i("ei"), _i("ej")
        return ty.MatV(z3.Lambda([i], z3.Lambda([j], f(a.at(i, j), b.at(i, j)))), a.rows, a.cols)
    if isinstance(a, ty.MatV):
        bb = _real(ex, st, b, node)
        i, j = _i("ei"), _i("ej")
        return ty.MatV(z3.Lambda([i], z3.Lambda([j], f(a.at(i, j), bb))), a.rows, a.cols)
    if isinstance(b, ty.MatV):
        aa = _real(ex, st, a, node)
        i, j = _i("ei"), _i("ej")
        return ty.MatV(z3.Lambda([i], z3.Lambda([j], f(aa, b.at(i, j)))), b.rows, b.cols)
    raise _U("elementwise operation", node)


def array_binop(ex, st, op, a, b, node):
    fs = {ast.Add: lambda x, y: x + y, ast.Sub: lambda x, y: x - y, ast.Mult: lambda x, y: x * y}
    if type(op) in fs:
        return elementwise2(ex, st, a, b, fs[type(op)], node)
    if isinstance(op, ast.Div) and not isinstance(b, (ty.SeqV, ty.MatV)):
        bb = _real(ex, st, b, node)
        ex.safety(st, "div-by-zero", bb != 0, node)
        return elementwise2(ex, st, a, bb, lambda x, y: x / y, node)
    raise _U(f"array operator {op.__class__.__name__}", node)


def seq_slice(ex, st, v, sl, node):
    lo, hi = _slice_bounds(ex, st, sl, v.len, node)
    i = _i("si")
    return ty.SeqV(v.elem, [z3.Lambda([i], ty.sel(a, i + lo)) for a in v.arrs], hi - lo)


class MaskedV:
    """a[mask] for a boolean mask of the same length: the selected entries in order.  Kept symbolic (source, mask) so that the idiom
    x[mask] = y[mask] becomes an elementwise conditional; materialised as an order-preserving selection when used as a sequence."""
    __slots__ = ("src", "mask", "_seq")

    def __init__(self, src, mask):
        self.src, self.mask, self._seq = src, mask, None

    def to_seq(self, ex, st):
        if self._seq is None:
            from . import seqlib
            i = _i("mi")
            self._seq = seqlib.filtered(ex, st, i, self.src.len, ty.sel(self.mask.arrs[0], i), self.src.elem, [ty.sel(a, i) for a in self.src.arrs], src_arrs=self.src.arrs)
        return self._seq


def seq_fancy(ex, st, cont, idx, node):
    if isinstance(idx, ty.SeqV) and idx.elem is ty.Bool:
        ex.safety(st, "shape(boolean mask)", idx.len == cont.len, node)
        return MaskedV(cont, idx)
    raise _U("fancy index", node)


def seq_mask_store(ex, st, cont, mask, val, node):
    """a[mask] = v : entries where the mask is set are replaced - by the scalar v, or, for v = b[mask] (same mask), by the entries of b"""
    ex.safety(st, "shape(boolean mask)", mask.len == cont.len, node)
    t = _i("mt")
    m = ty.sel(mask.arrs[0], t)
    if isinstance(val, MaskedV):
        if not (val.mask.arrs[0].eq(mask.arrs[0])):
            raise _U("a[m1] = b[m2] with different masks", node)
        ex.safety(st, "shape(boolean mask)", val.src.len == cont.len, node)
        new = z3.Lambda([t], z3.If(m, ty.to_real(ty.sel(val.src.arrs[0], t)), ty.sel(cont.arrs[0], t)))
    elif _isnum(val):
        new = z3.Lambda([t], z3.If(m, _real(ex, st, val, node), ty.sel(cont.arrs[0], t)))
    else:
        raise _U(f"masked assignment of {val!r}", node)
    return ty.SeqV(cont.elem, [new], cont.len)


# ---------------------------------------------------------------------------- sums
SUM = z3.Function("Sum", z3.ArraySort(z3.IntSort(), z3.RealSort()), z3.IntSort(), z3.RealSort())   # Sum(a, n) = a[0] + .. + a[n-1]


def np_sum(ex, st, args, kwargs, node):
    v = args[0]
    if isinstance(v, ty.SeqV) and "axis" not in kwargs:
        a = v.arrs[0]
        if v.elem is ty.Int:
            i = _i("si")
            a = z3.Lambda([i], z3.ToReal(ty.sel(a, i)))
        return _out(SUM(a, v.len), st)
    raise _U(f"np.sum of {v!r}", node)


def np_tile(ex, st, args, kwargs, node):
    v, reps = args
    if isinstance(v, ty.SeqV) and isinstance(reps, tuple) and len(reps) == 2 and reps[1] == 1:
        n = ty.to_z3num(_num(ex, st, reps[0], node))
        ex.safety(st, "np.tile-nonnegative-reps", n >= 0, node)
        i = _i("ti")
        return _out(ty.MatV(z3.Lambda([i], v.arrs[0] if v.elem is ty.Real else z3.Lambda([_i("tj")], z3.ToReal(ty.sel(v.arrs[0], _i("tk"))))), n, v.len), st) \
            if v.elem is ty.Real else _U("np.tile of an integer vector", node)
    raise _U(f"np.tile({v!r}, {reps!r})", node)


def np_argmax(ex, st, args, kwargs, node):
    (v,) = args
    if isinstance(v, ty.MatV) and not kwargs:
        ex.safety(st, "np.argmax-of-empty-array", z3.And(v.rows > 0, v.cols > 0), node)
        k = _i("argmax")
        i, j = _i("ai"), _i("aj")
        # flat index of a maximal cell (row-major); only the range and maximality are modelled
        st.assume(z3.And(k >= 0, k < v.rows * v.cols))
        return _out(k, st)
    raise _U(f"np.argmax of {v!r}", node)


def np_unravel_index(ex, st, args, kwargs, node):
    k, shape = args
    if isinstance(shape, tuple) and len(shape) == 2:
        k = ty.to_z3num(_num(ex, st, k, node))
        r, c = ty.to_z3num(shape[0]), ty.to_z3num(shape[1])
        ex.safety(st, "np.unravel_index-in-range", z3.And(k >= 0, k < r * c, c > 0), node)
        qi, ri = _i("uq"), _i("ur")
        # k = q * c + r with 0 <= r < c  (introduced by their defining equation: no nonlinear div/mod handed to the solver)
        st.assume(z3.And(k == qi * c + ri, ri >= 0, ri < c, qi >= 0, qi < r))
        return _out((qi, ri), st)
    raise _U("np.unravel_index", node)


def np_append(ex, st, args, kwargs, node):
    """np.append(vector, scalar): the vector with the scalar added at the end"""
    v, x = args
    if isinstance(v, PyList):
        v = ex.coerce(ty.Seq(ty.Real), v, node)
    if isinstance(v, ty.SeqV) and not kwargs:
        a = v.arrs[0]
        if v.elem is ty.Int:
            i = _i("ai")
            a = z3.Lambda([i], z3.ToReal(ty.sel(v.arrs[0], i)))
        return _out(ty.SeqV(ty.Real, [z3.Store(a, v.len, _real(ex, st, x, node))], v.len + 1), st)
    raise _U(f"np.append({v!r}, ..)", node)


def np_delete(ex, st, args, kwargs, node):
    """np.delete(a, i, axis=0): without row / entry i"""
    v, idx = args[0], args[1]
    axis = kwargs.get("axis", args[2] if len(args) > 2 else None)
    p = ty.to_z3num(_num(ex, st, idx, node))
    if isinstance(v, ty.OptV):
        ex.safety(st, "none-passed-to-np.delete", z3.Not(v.isnone), node)
        v = v.val
    if isinstance(v, ty.MatV) and axis == 0:
        ex.safety(st, "index(np.delete)", z3.And(p >= 0, p < v.rows), node)
        i = _i("di")
        return _out(ty.MatV(z3.Lambda([i], z3.If(i < p, ty.sel(v.arr, i), ty.sel(v.arr, i + 1))), v.rows - 1, v.cols), st)
    if isinstance(v, ty.SeqV) and axis in (0, None):
        ex.safety(st, "index(np.delete)", z3.And(p >= 0, p < v.len), node)
        i = _i("di")
        return _out(ty.SeqV(v.elem, [z3.Lambda([i], z3.If(i < p, ty.sel(a, i), ty.sel(a, i + 1))) for a in v.arrs], v.len - 1), st)
    raise _U(f"np.delete({v!r}, axis={axis!r})", node)


def mat_sum_axis0(m: ty.MatV):
    """M.sum(axis=0): column sums"""
    i, t = _i("si"), _i("st")
    return ty.SeqV(ty.Real, [z3.Lambda([t], SUM(z3.Lambda([i], ty.sel(m.arr, i, t)), m.rows))], m.cols)


def nd_sum(ex, st, recv, args, kwargs, node):
    axis = kwargs.get("axis", args[0] if args else None)
    if isinstance(recv, ty.MatV) and axis == 0:
        return _out(mat_sum_axis0(recv), st)
    if isinstance(recv, ty.SeqV) and axis in (None, 0):
        return np_sum(ex, st, [recv], {}, node)
    raise _U(f"ndarray.sum(axis={axis!r}) of {recv!r}", node)


def nd_dot(ex, st, recv, args, kwargs, node):
    from . import cplx
    return _out(cplx.matmul(ex, st, recv, args[0], node), st)


MAXF = z3.Function("seq_max", z3.ArraySort(z3.IntSort(), z3.RealSort()), z3.IntSort(), z3.RealSort())      # max of a[0..n-1], n >= 1


def seq_max_term(ex, st, arr, n):
    """max(a[0..n-1]) as a canonical term with its two defining facts (upper bound, attained)"""
    m = MAXF(arr, n)
    k, w = _i("mk"), z3.Int(ty.fresh_name("argmax"))
    st.assume(ty.FA([k], z3.Implies(z3.And(k >= 0, k < n), ty.sel(arr, k) <= m)))
    st.assume(z3.Implies(n >= 1, z3.And(w >= 0, w < n, ty.sel(arr, w) == m)))
    return m


def np_max(ex, st, args, kwargs, node):
    v = args[0]
    axis = kwargs.get("axis", args[1] if len(args) > 1 else None)
    from .cplx import seq_real_arr
    if isinstance(v, ty.SeqV) and axis in (None, 0):
        ex.safety(st, "np.max-of-empty-array", v.len >= 1, node)
        return _out(seq_max_term(ex, st, seq_real_arr(v), v.len), st)
    if isinstance(v, ty.MatV) and axis == 0:
        ex.safety(st, "np.max-of-empty-array", v.rows >= 1, node)
        i, t = _i("xi"), _i("xt")
        col = lambda tt: z3.Lambda([i], ty.sel(v.arr, i, tt))
        k = _i("mk")
        # per column: canonical max term; defining facts quantified over the columns
        st.assume(ty.FA([t, k], z3.Implies(z3.And(t >= 0, t < v.cols, k >= 0, k < v.rows), ty.sel(v.arr, k, t) <= MAXF(col(t), v.rows))))
        w = z3.Function(ty.fresh_name("argmax"), z3.IntSort(), z3.IntSort())
        st.assume(ty.FA([t], z3.Implies(z3.And(t >= 0, t < v.cols), z3.And(w(t) >= 0, w(t) < v.rows, ty.sel(v.arr, w(t), t) == MAXF(col(t), v.rows)))))
        return _out(ty.SeqV(ty.Real, [z3.Lambda([t], MAXF(col(t), v.rows))], v.cols), st)
    raise _U(f"np.max({v!r}, axis={axis!r})", node)


def np_mean(ex, st, args, kwargs, node):
    v = args[0]
    axis = kwargs.get("axis", args[1] if len(args) > 1 else None)
    if isinstance(v, ty.MatV) and axis == 0:
        ex.safety(st, "np.mean-of-empty-array", v.rows >= 1, node)
        s_ = mat_sum_axis0(v)
        t = _i("mt")
        return _out(ty.SeqV(ty.Real, [z3.Lambda([t], ty.sel(s_.arrs[0], t) / z3.ToReal(v.rows))], v.cols), st)
    raise _U(f"np.mean({v!r}, axis={axis!r})", node)


def np_vstack(ex, st, args, kwargs, node):
    from . import cplx
    return cplx.np_stack(ex, st, args, kwargs, node)
