"""numpy model (vectors and matrices).  Filled in as the verified functions need it."""
from __future__ import annotations

import z3

from . import vtypes as ty
from .lib import _U, _out


def array_binop(ex, st, op, a, b, node):
    raise _U("array arithmetic", node)


def elementwise2(ex, st, a, b, f, node):
    raise _U("elementwise", node)


def seq_slice(ex, st, cont, idx, node):
    raise _U("slice of symbolic sequence", node)


def seq_fancy(ex, st, cont, idx, node):
    raise _U("fancy index", node)


def mat_getitem(ex, st, cont, idx, node):
    raise _U("matrix index", node)


def mat_store(ex, st, m, idx, v, node):
    raise _U("matrix store", node)


def transpose(v):
    i, j = z3.Int(ty.fresh_name("ti")), z3.Int(ty.fresh_name("tj"))
    return ty.MatV(z3.Lambda([i], z3.Lambda([j], v.at(j, i))), v.cols, v.rows)


def np_array(ex, st, args, kwargs, node):
    v = args[0]
    if isinstance(v, (ty.SeqV, ty.MatV)):
        return _out(v, st)
    raise _U(f"np.array of {v!r}", node)
