#!/bin/sh
# Build the overlay interpreter: a 3.12 venv with z3-solver / cvc5 / jsonschema from the offline
# wheelhouse plus a .pth that makes /venv's site-packages (numpy, pandas, the editable acnportal) visible.
cd "$(dirname "$0")" || exit 1
# two checks started side by side in a fresh checkout must not build the interpreter at the same time
if command -v flock >/dev/null 2>&1; then exec 9>.venv.lock; flock 9; fi
if [ -x .venv/bin/python ] && .venv/bin/python -c "import z3, numpy, acnportal" 2>/dev/null; then exit 0; fi
rm -rf .venv
/venv/bin/python -m venv .venv || exit 1
PIP_NO_INDEX=1 .venv/bin/python -m pip install -q --no-index --find-links /opt/veriftools/wheels z3-solver cvc5 jsonschema || exit 1
echo "import site; site.addsitedir('/venv/lib/python3.12/site-packages')" > .venv/lib/python3.12/site-packages/repo_deps.pth
.venv/bin/python -c "import z3, numpy, pandas, acnportal, jsonschema; print('ok', z3.get_version_string())"
