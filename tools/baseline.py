#!/usr/bin/env python3
"""Run the repository's pinned baseline suite (guard off) and compare with /root/.vp/BASELINE.json stable_pass.
usage: tools/baseline.py [repo_dir]   exit 0 iff every stable_pass test passes."""
import json, os, subprocess, sys, tempfile
import xml.etree.ElementTree as ET
repo = sys.argv[1] if len(sys.argv) > 1 else "/repo"
base = json.load(open("/root/.vp/BASELINE.json"))
fd, x = tempfile.mkstemp(suffix=".xml"); os.close(fd)
env = dict(os.environ); env.pop("ACNPORTAL_VERIF", None)
p = subprocess.run(["/venv/bin/python", "-m", "pytest", "-q", "-p", "no:cacheprovider", "--timeout=900",
                    "--continue-on-collection-errors", f"--junitxml={x}"], cwd=repo, env=env, capture_output=True, text=True)
passed = set()
for tc in ET.parse(x).getroot().iter("testcase"):
    if not any(c.tag in ("failure", "error", "skipped") for c in tc):
        passed.add(f"{tc.get('classname')}::{tc.get('name')}")
os.unlink(x)
missing = [t for t in base["stable_pass"] if t not in passed]
print(p.stdout.strip().splitlines()[-1] if p.stdout.strip() else p.stderr[-300:])
print(f"stable_pass={len(base['stable_pass'])} passed_now={len(passed)} missing={len(missing)}")
for m in missing[:20]:
    print("  MISSING", m)
sys.exit(1 if missing else 0)
