#!/bin/sh
# robustness sweep: every check under several VERIF_SEED values on the unchanged tree (evidence redirected); prints non-zero exits
out=${TMPDIR:-/tmp}/acnverif-sweep-$$; mkdir -p $out
for sd in "$@"; do
  for p in C02 C04 C06 C07 C08 C10 C11 C12 C13 C15 C16 C17 C18 C19 C20 C01 C05 C09; do
    VERIF_SEED=$sd VERIF_EVIDENCE_DIR=$out/$sd ./check $p > $out/$p.$sd.log 2>&1; rc=$?
    [ $rc -ne 0 ] && { echo "seed=$sd $p exit=$rc"; grep -h "VIOLATION\|UNDECIDED\|BROKEN" $out/$p.$sd.log | cut -c1-300 | head -3; }
  done
done
echo "sweep done: $*"; rm -rf $out
