#!/bin/sh
# tools/mutfn.sh <file relative to repo> <python expr: s -> s (source text transform)> <dev args...>
f=$1; tr=$2; shift 2
d=$(mktemp -d /tmp/acnverif-mutfn-XXXXXX)
git -C /repo archive HEAD | tar -x -C "$d"
python3 - "$d/$f" "$tr" <<'PY'
import sys
p, tr = sys.argv[1], sys.argv[2]
s = open(p).read()
s2 = eval(tr, {"s": s})
assert s2 != s, "mutation did not change the file"
open(p, "w").write(s2)
PY
[ $? -eq 0 ] || { rm -rf "$d"; exit 2; }
cd /verif && ACN_REPO="$d" PYTHONWARNINGS=ignore .venv/bin/python -m pyvc.dev "$@" 2>&1 | grep -v "^WARNING"
rm -rf "$d"
