#!/bin/sh
# tools/seedfn.sh <seeded-id> <dev args...>: apply one seeded change to a scratch copy and run pyvc.dev on single functions / lemmas against it
id=$1; shift
d=$(mktemp -d /tmp/acnverif-seedfn-XXXXXX)
git -C /repo archive HEAD | tar -x -C "$d"
( cd "$d" && patch -s -p1 < /verif/seeded/$id/patch.diff ) || { echo "patch failed"; rm -rf "$d"; exit 2; }
cd /verif && ACN_REPO="$d" PYTHONWARNINGS=ignore .venv/bin/python -m pyvc.dev "$@" 2>&1 | grep -v "^WARNING"
rm -rf "$d"
