#!/usr/bin/env python3
"""Seeded-change bookkeeping.
  seedtest.py confirm <outdir> <PROP>        confirm every m<i>.diff of a sub-agent (demo passes on the clean tree, fails with the
                                             change, baseline suite unchanged) on a scratch copy and store it as seeded/<PROP>-m<i>/
  seedtest.py run <seeded-id>|all [PROP ...] apply the change to a scratch copy of /repo HEAD, run ./check <PROP> --tier quick with
                                             ACN_REPO pointing at the copy, print exit codes; scratch copy removed afterwards
Scratch copies live under ${TMPDIR:-/tmp}/acnverif-seed-<pid> and are always removed."""
import json, os, shutil, subprocess, sys, tempfile

VERIF = os.path.dirname(os.path.dirname(os.path.abspath(__file__)))


def scratch():
    d = tempfile.mkdtemp(prefix="acnverif-seed-")
    subprocess.run(f"git -C /repo archive HEAD | tar -x -C {d}", shell=True, check=True)
    return d


def sh(cmd, cwd=None, env=None, timeout=1800):
    p = subprocess.run(cmd, shell=True, cwd=cwd, env=env, capture_output=True, text=True, timeout=timeout)
    return p.returncode, (p.stdout + p.stderr)


def demo(tree, script):
    env = dict(os.environ, PYTHONPATH=tree)
    return sh(f"/venv/bin/python {script}", cwd=tree, env=env, timeout=600)


def confirm(outdir, prop, offset=0):
    for i in range(1, 10):
        diff = os.path.join(outdir, f"m{i}.diff")
        dm = os.path.join(outdir, f"m{i}_demo.py")
        if not os.path.exists(diff):
            continue
        d = scratch()
        try:
            rc0, out0 = demo(d, dm)
            rca, outa = sh(f"git apply --directory=. {diff}" if False else f"patch -p1 < {diff}", cwd=d)
            rc1, out1 = demo(d, dm)
            rcb, outb = sh(f"python3 {VERIF}/tools/baseline.py {d}")
            ok = rc0 == 0 and rca == 0 and rc1 != 0 and rcb == 0
            print(f"{prop}-m{i + offset}: demo clean rc={rc0}, apply rc={rca}, demo changed rc={rc1}, baseline rc={rcb} -> {'CONFIRMED' if ok else 'REJECTED'}")
            if not ok:
                print("   ", (out0 if rc0 else outa if rca else out1 if rc1 == 0 else outb)[-400:])
                continue
            dst = os.path.join(VERIF, "seeded", f"{prop}-m{i + offset}")
            os.makedirs(dst, exist_ok=True)
            shutil.copy(diff, os.path.join(dst, "patch.diff"))
            shutil.copy(dm, os.path.join(dst, "demo.py"))
            notes = os.path.join(outdir, "notes.md")
            if os.path.exists(notes):
                shutil.copy(notes, os.path.join(dst, "agent_notes.md"))
            meta = dict(property=prop, origin="independent sub-agent given only the property text and a scratch worktree",
                        needs_to_manifest="see agent_notes.md (section for change %d)" % i,
                        confirmed=dict(demo_on_clean_tree="exit 0", demo_with_change=f"exit {rc1}: " + out1.strip().splitlines()[-1][:200] if out1.strip() else f"exit {rc1}",
                                       baseline_with_change="386 stable tests pass (tools/baseline.py exit 0)"),
                        ran=f"scratch copy of /repo HEAD; /venv/bin/python demo.py (PYTHONPATH=copy); patch -p1 < patch.diff; demo again; tools/baseline.py <copy>")
            json.dump(meta, open(os.path.join(dst, "meta.json"), "w"), indent=1)
        finally:
            shutil.rmtree(d, ignore_errors=True)


def run(seed_id, props):
    sd = os.path.join(VERIF, "seeded", seed_id)
    meta = json.load(open(os.path.join(sd, "meta.json")))
    props = props or [meta["property"]]
    d = scratch()
    res = {}
    try:
        rca, outa = sh(f"patch -p1 < {sd}/patch.diff", cwd=d)
        if rca:
            print(seed_id, "PATCH DOES NOT APPLY", outa[-300:])
            return res
        for p in props:
            env = dict(os.environ, ACN_REPO=d, VERIF_EVIDENCE_DIR=os.path.join(d, "_evidence"))
            rc, out = sh(f"./check {p} --tier quick", cwd=VERIF, env=env, timeout=3600)
            lines = [l for l in out.splitlines() if l.startswith(("VIOLATION", "KNOWN-FINDING", "UNDECIDED", "CHECKER-BROKEN")) or " obligations=" in l]
            res[p] = rc
            viol = [l for l in lines if l.startswith("VIOLATION")]
            ded = [l.split("obligation=", 1)[1] for l in viol if "obligation=bounded:" not in l]
            bnd = [l for l in viol if "obligation=bounded:" in l]
            print(f"{seed_id} vs {p}: exit={rc} deductive={len(ded)} bounded={len(bnd)}")
            for l in ded[:4]:
                print("     D:", l[:230])
            for l in bnd[:2]:
                print("     B:", l.split("obligation=", 1)[1][:200])
            for l in [x for x in lines if not x.startswith("VIOLATION")][:4]:
                print("    ", l[:230])
    finally:
        shutil.rmtree(d, ignore_errors=True)
    return res


def table(ids, jobs=3):
    """run every seeded change against its property's check (scratch copies, `jobs` at a time) and write seeded/CATCHES.md"""
    import concurrent.futures as cf

    def one(i):
        # one subprocess per seeded change (stdout of concurrent runs must not mix)
        p = subprocess.run([sys.executable, os.path.abspath(__file__), "run", i], capture_output=True, text=True, timeout=7200)
        out = p.stdout
        head = next((l for l in out.splitlines() if " vs " in l), "")
        rc = None
        if "exit=" in head:
            rc = int(head.split("exit=")[1].split()[0])
        meta = json.load(open(os.path.join(VERIF, "seeded", i, "meta.json")))
        return i, {meta["property"]: rc}, out
    rows = []
    cache = os.path.join(VERIF, "seeded", "catches.json")      # results so far (a long table is built over several invocations)
    known = json.load(open(cache)) if os.path.exists(cache) else {}

    def write():
        with open(os.path.join(VERIF, "seeded", "CATCHES.md"), "w") as f:
            f.write("# Seeded changes and what reports them\n\nGenerated by `tools/seedtest.py table` (each change applied to a scratch copy of /repo HEAD, "
                    "`./check <property> --tier quick` with ACN_REPO pointing at the copy). D = failing deductive obligation (named), B = firing clause of a "
                    "bounded run-time monitor. Only the first few of each are listed.\n\n")
            f.write("| change | property | exit | summary | deductive obligations | monitor clauses |\n|---|---|---|---|---|---|\n")
            for i in sorted(known):
                r = known[i]
                esc = lambda xs: "<br>".join(x.replace("|", "\\|")[:160] for x in xs[:3]) or "-"
                f.write(f"| {i} | {r['property']} | {r['exit']} | {r['summary']} | {esc(r['deductive'])} | {esc(r['bounded'])} |\n")
        json.dump(known, open(cache, "w"), indent=0, sort_keys=True)

    with cf.ThreadPoolExecutor(jobs) as ex:
        futs = {ex.submit(one, i): i for i in ids}
        for fut in cf.as_completed(futs):
            i, res, out = fut.result()
            meta = json.load(open(os.path.join(VERIF, "seeded", i, "meta.json")))
            ded = [l.strip()[3:] for l in out.splitlines() if l.strip().startswith("D:")]
            bnd = [l.strip()[3:] for l in out.splitlines() if l.strip().startswith("B:")]
            head = next((l for l in out.splitlines() if " vs " in l), "")
            rows.append((i, meta["property"], res.get(meta["property"]), head.split(": ", 1)[-1], ded, bnd))
            known[i] = dict(property=meta["property"], exit=res.get(meta["property"]), summary=head.split(": ", 1)[-1], deductive=ded, bounded=bnd)
            write()
            print(head, flush=True)
    missed = [r[0] for r in rows if r[2] != 1]
    print("not reported with exit 1:", missed)


if __name__ == "__main__":
    if sys.argv[1] == "confirm":
        confirm(sys.argv[2], sys.argv[3], int(sys.argv[4]) if len(sys.argv) > 4 else 0)
    elif sys.argv[1] == "table":
        allids = sorted(x for x in os.listdir(os.path.join(VERIF, "seeded")) if os.path.isdir(os.path.join(VERIF, "seeded", x)))
        table([x for x in allids if not sys.argv[2:] or x in sys.argv[2:] or x.split("-")[0] in sys.argv[2:]])
    elif sys.argv[1] == "run":
        ids = sorted(x for x in os.listdir(os.path.join(VERIF, "seeded")) if os.path.isdir(os.path.join(VERIF, "seeded", x))) if sys.argv[2] == "all" else [sys.argv[2]]
        for i in ids:
            run(i, sys.argv[3:])
