#!/usr/bin/env python3
"""tools/rebaseline.py PROP [PROP ...]: re-record the baseline of a property on the unchanged tree and keep every name that was in it before (an
obligation is only ever dropped from the baseline by hand): recording on a busy machine can leave a slow obligation undecided, and a name that silently
leaves the baseline would turn a later regression into a mere 'undecided'."""
import json, os, subprocess, sys
V = os.path.dirname(os.path.dirname(os.path.abspath(__file__)))
P = os.path.join(V, "baseline_obligations.json")
for prop in sys.argv[1:]:
    old = set(json.load(open(P)).get(prop, []))
    r = subprocess.run(["./check", prop, "--tier", "quick", "--record-baseline"], cwd=V, capture_output=True, text=True)
    print(r.stdout.strip().splitlines()[-1][:200] if r.stdout.strip() else r.stderr[-300:])
    d = json.load(open(P))
    new = set(d.get(prop, []))
    d[prop] = sorted(old | new)
    json.dump(d, open(P, "w"), sort_keys=True, indent=0)
    print(f"{prop}: {len(old)} -> {len(d[prop])} names (+{len(new - old)}, kept {len(old - new)} that this run did not discharge)")
    for n in sorted(old - new)[:10]:
        print("   kept:", n)
