#!/bin/sh
# usage: tools/mutquick.sh <file-relative-to-repo> <sed-expr> <pyvc.dev args...>   (scratch copy, removed afterwards)
f=$1; e=$2; shift 2
d=$(mktemp -d /tmp/acnverif-mut-XXXX); git -C /repo archive HEAD | tar -x -C $d
sed -i "$e" $d/$f; (cd $d && git -C /repo diff --no-index --stat /repo/$f $d/$f | tail -1)
ACN_REPO=$d /verif/.venv/bin/python -m pyvc.dev "$@" 2>&1 | grep -v "WARN\|pkg_res\|model:\|replay:"
rm -rf $d
