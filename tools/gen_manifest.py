#!/usr/bin/env python3
"""Regenerate MANIFEST.json from plan.py (single source of truth for what is claimed)."""
import json, os, sys
VERIF = os.path.dirname(os.path.dirname(os.path.abspath(__file__)))
sys.path.insert(0, VERIF)
import plan

props = [json.loads(l) for l in open(os.path.join(VERIF, "properties.jsonl"))]
ids = [p["id"] for p in props]
checks, na = [], []
for pid in ids:
    P = plan.PLAN.get(pid)
    if P is None or P.get("unclaimed"):
        na.append(dict(property_id=pid, reason=plan.NOT_CLAIMED.get(pid, "not yet brought under contract in this round; no check is claimed (see DESIGN.md section 10)")))
        continue
    checks.append(dict(
        property_id=pid,
        quick_cmd=f"./check {pid} --tier quick",
        thorough_cmd=f"./check {pid} --tier thorough",
        evidence_file=f"evidence/{pid}.json",
        replay_cmd_template=f"./check {pid} --replay {{path}}",
        engine="pyvc",
        level_claimed=dict(category=P["level"], design_ref=f"DESIGN.md section 6 {pid}, section 10", text=P["text"]),
        level_note=P["note"],
        technique=P.get("technique", "contract-based deductive verification (own VC generator over the Python AST of the real functions, z3/cvc5)"),
    ))
man = dict(
    version=1,
    setup_cmd="sh ./setup.sh",
    hooks=dict(
        guard="ACNPORTAL_VERIF",
        enable="no hooks: contracts are sidecar files under /verif/contracts keyed by qualified name; run-time contract monitors monkey-patch inside the checking process; nothing in /repo is instrumented",
        baseline_off_cmd="cd /repo && /venv/bin/python -m pytest -ra -q -p no:cacheprovider --timeout=900 --continue-on-collection-errors",
        source_commits=[], add_only=True),
    engines=[dict(name="pyvc", path="pyvc/", serves_properties=[c["property_id"] for c in checks],
                  kind_free_text="own VC generator: forward symbolic execution of the real function ASTs re-read from /repo on every run, "
                                 "callee contracts at call sites, invariant-cut loops, Boogie-style heap; obligations discharged by z3 5.1 "
                                 "(nlsat tactic, then cvc5, on unknown); run-time contract monitors on the real functions as the labelled bounded stand-in")],
    checks=checks,
    not_applicable=na,
    notes="exit codes of ./check: 0 held, 1 violation (VIOLATION line), 2 undecided (unknown/unsupported construct; never reported as a violation), 3 checker broken",
)
json.dump(man, open(os.path.join(VERIF, "MANIFEST.json"), "w"), indent=1)
print(f"claimed={len(checks)} not_applicable={len(na)}")
