"""Which functions / lemmas / bounded stand-ins decide which property."""
B = "acnportal.acnsim.models.battery."
E = "acnportal.acnsim.models.ev."
S = "acnportal.acnsim.models.evse."

TRUSTED_COMMON = [
    "A-REAL: Python float / numpy float64 arithmetic is treated as exact real arithmetic; int is unbounded",
    "A-PY: pyvc's encoding of the Python subset (evaluation order, short-circuit, truncating int(), attribute/property "
    "lookup along the MRO); re-validated against CPython by the replay of every counter-model, not proved",
    "A-SOLVER: z3 5.1.0 (cvc5 for z3's unknowns) unsat answers are correct",
    "A-OWN: objects reaching a method satisfy the representation invariant of their class (established by the "
    "constructors and preserved by every method under contract; nobody mutates private fields from outside)",
]
EXP_AXIOMS = ("A-MATH: exp is uninterpreted with the axioms exp x > 0, x<=0 => exp x <= 1, x>=0 => exp x >= 1, "
              "exp x >= 1 + x, exp 0 = 1, monotone (instantiated per occurring argument)")

BATTERY_FNS = [B + "Battery.__init__", B + "Battery.charge", B + "Battery.reset",
               B + "Linear2StageBattery.__init__", B + "Linear2StageBattery.charge",
               B + "Linear2StageBattery._charge", B + "Linear2StageBattery._charge_stepwise"]
SET_PILOT = [S + "BaseEVSE.set_pilot@EVSE", S + "BaseEVSE.set_pilot@DeadbandEVSE", S + "BaseEVSE.set_pilot@FiniteRatesEVSE"]

SHARDS = {B + "Linear2StageBattery._charge": 6, B + "Linear2StageBattery._charge_stepwise": 2}

PLAN = {
    "C03": dict(
        level="proof",
        functions=BATTERY_FNS + [E + "EV.charge", E + "EV.reset"] + SET_PILOT,
        trusted=[EXP_AXIOMS, "np.random.normal returns an arbitrary real (every noise draw is covered)"],
    ),
}
