"""Which functions / lemmas / bounded stand-ins decide which property."""
NET = "acnportal.acnsim.network.charging_network.ChargingNetwork."
B = "acnportal.acnsim.models.battery."
E = "acnportal.acnsim.models.ev."
S = "acnportal.acnsim.models.evse."
SA = "acnportal.algorithms.sorted_algorithms.SortedSchedulingAlgo."
SEARCH = [SA + "discrete_max_feasible_rate", SA + "max_feasible_rate", SA + "max_feasible_rate.<locals>.bisection"]
IFC = "acnportal.acnsim.interface.Interface."
IIC = "acnportal.acnsim.interface.InfrastructureInfo."
INFRA = [IFC + "_infrastructure_info", IFC + "infrastructure_info", IIC + "__init__", IIC + "get_station_index",
         "acnportal.acnsim.network.charging_network.ChargingNetwork._update_info_store", "acnportal.acnsim.network.charging_network.ChargingNetwork.register_evse"]
ACCESSORS = [IFC + "max_pilot_signal", IFC + "min_pilot_signal", IFC + "evse_voltage", IFC + "evse_phase", IFC + "remaining_amp_periods",
             IFC + "allowable_pilot_signals", IFC + "max_recompute_time", IFC + "_violation_tolerance", IFC + "_relative_tolerance"]
OBSERVE = ["acnportal.acnsim.network.charging_network.ChargingNetwork.active_evs", "acnportal.acnsim.simulator.Simulator.get_active_evs",
           "acnportal.acnsim.simulator.Simulator.index_of_evse", IFC + "_active_sessions", IFC + "active_sessions", IFC + "last_actual_charging_rate",
           IFC + "last_applied_pilot_signals", IFC + "current_time", IFC + "current_datetime", IFC + "period", IFC + "get_prev_peak"]
SORTMOD = "acnportal.algorithms.sorted_algorithms."
SORTFNS = [SORTMOD + f for f in ("first_come_first_served", "last_come_first_served", "earliest_deadline_first", "least_laxity_first",
                                 "largest_remaining_processing_time")]
GREEDY = [SA + "sorting_algorithm"]
RRM = "acnportal.algorithms.sorted_algorithms.RoundRobin."
RROBIN = [RRM + "round_robin"]
PREP = "acnportal.algorithms.preprocessing."
PREPROC = [PREP + f for f in ("remove_finished_sessions", "enforce_pilot_limit", "reconcile_max_and_min", "expand_max_min_rates", "apply_upper_bound_estimate",
                              "apply_minimum_charging_rate")] \
          + ["acnportal.algorithms.utils.remaining_amp_periods", "acnportal.algorithms.utils.infrastructure_constraints_feasible"]
SIM = "acnportal.acnsim.simulator.Simulator."
AE = "acnportal.acnsim.events.acndata_events."
EVT = "acnportal.acnsim.events.event."
EQ = "acnportal.acnsim.events.event_queue.EventQueue."
AN = "acnportal.acnsim.analysis."
CURR = "acnportal.acnsim.network.current.Current."
TOU = "acnportal.signals.tariffs.tou_tariff.TimeOfUseTariff."
SN = "acnportal.contrib.acnsim.network.stochastic_network.StochasticNetwork."

SERIAL = [B + "Battery._to_dict", B + "Battery._from_dict", B + "Linear2StageBattery._to_dict", B + "Linear2StageBattery._from_dict",
          E + "EV._to_dict", E + "EV._from_dict", EVT + "Event._to_dict", EVT + "Event._from_dict", EVT + "EVEvent._to_dict", EVT + "EVEvent._from_dict",
          EQ + "_to_dict", EQ + "_from_dict"]

TRUSTED_COMMON = [
    "A-REAL: Python float / numpy float64 arithmetic is treated as exact real arithmetic; int is unbounded",
    "A-PY: pyvc's encoding of the Python subset (evaluation order, short-circuit, truncating int(), attribute/property "
    "lookup along the MRO); re-validated against CPython by the replay of every counter-model, not proved",
    "A-SOLVER: z3 5.1.0 (cvc5 for z3's unknowns) unsat answers are correct",
    "A-OWN: objects reaching a method satisfy the representation invariant of their class (established by the "
    "constructors and preserved by every method under contract; nobody mutates private fields from outside)",
]
EXP_AXIOMS = ("A-MATH: exp is uninterpreted with the axioms exp x > 0, x<=0 => exp x <= 1, x>=0 => exp x >= 1, "
              "exp x >= 1 + x, exp 0 = 1, monotone (instantiated per occurring argument)")

BATTERY_FNS = [B + "Battery.__init__", B + "Battery.charge", B + "Battery.reset",
               B + "Linear2StageBattery.__init__", B + "Linear2StageBattery.charge",
               B + "Linear2StageBattery._charge", B + "Linear2StageBattery._charge_stepwise"]
SET_PILOT = [S + "BaseEVSE.set_pilot@EVSE", S + "BaseEVSE.set_pilot@DeadbandEVSE", S + "BaseEVSE.set_pilot@FiniteRatesEVSE"]

SHARDS = {"acnportal.acndata.data_client.DataClient.get_sessions": 12, NET + "add_constraint": 12, NET + "update_constraint": 4, "acnportal.acnsim.interface.Interface.is_feasible": 8, NET + "is_feasible": 6, NET + "constraint_current": 4, "acnportal.algorithms.utils.infrastructure_constraints_feasible": 4, SA + "sorting_algorithm": 8, "acnportal.algorithms.sorted_algorithms.RoundRobin.round_robin": 8, SN + "unplug": 6, SN + "post_charging_update": 4, SN + "plugin": 3, SIM + "_update_schedules": 8, SIM + "_store_actual_charging_rates": 4, B + "batt_cap_fn": 8, AE + "_convert_to_ev": 4, SIM + "run": 16, SIM + "_process_event": 4, EQ + "get_current_events": 8, EQ + "add_events": 3, EQ + "__init__": 3, B + "Linear2StageBattery._charge": 6, B + "Linear2StageBattery._charge_stepwise": 2}

EVSE_FNS = [S + x for x in (
    "BaseEVSE.__init__", "EVSE.__init__", "DeadbandEVSE.__init__", "FiniteRatesEVSE.__init__",
    "EVSE._valid_rate", "DeadbandEVSE._valid_rate", "FiniteRatesEVSE._valid_rate",
    "EVSE.max_rate", "EVSE.min_rate", "DeadbandEVSE.max_rate", "FiniteRatesEVSE.max_rate", "FiniteRatesEVSE.min_rate",
    "EVSE.allowable_pilot_signals", "DeadbandEVSE.allowable_pilot_signals", "FiniteRatesEVSE.allowable_pilot_signals",
    "BaseEVSE.plugin", "BaseEVSE.unplug", "get_evse_by_type")]
SHARDS[S + "get_evse_by_type"] = 8

PLAN = {
    "C02": dict(
        level="other",
        functions=BATTERY_FNS + [E + "EV.charge", E + "EV.reset"] + SET_PILOT + [NET + "update_pilots", NET + "current_charging_rates",
                                                                                   SIM + "_store_actual_charging_rates", SIM + "run", SIM + "__init__"],
        lemmas=["C02.whole_run_ledger_sums_follow_from_the_per_period_clauses"],
        bounded=[dict(module="rt.drivers", fn="sim_monitor", label="whole-simulation ledger clauses"),
                 dict(module="rt.drivers", fn="stochastic_sim_monitor", label="ledger clauses with early departure (StochasticNetwork)")],
        text="PROVED (all inputs, all histories; no bound): (1) per call - every battery charge variant updates the stored charge by exactly rate x V/1000 x "
             "period/60 for the rate it returns; EV.charge adds the same energy to the session's delivered energy and records the rate; the EV invariant "
             "'delivered = battery charge - initial charge' is preserved by charge and re-established by reset; set_pilot performs exactly one charge of "
             "the occupant (none when vacant or rejected). (2) per network sweep - ChargingNetwork.update_pilots (loop invariant): every connected EV gains "
             "exactly its new rate x its station's voltage x dt, once; EVs that are not connected gain nothing and keep their recorded rate (no EV is at two "
             "stations: an occupant carries its station's id). (3) per period of Simulator.run, as clauses of the run loop's step contract (one arbitrary "
             "iteration from the inductive invariant, i.e. every period of every run): column t of charging_rates records, for every station, what its "
             "occupant actually drew and 0 for a vacant station; the energy a connected session gained in the period is that recorded rate x station "
             "voltage x period length; sessions that are not connected gain nothing; every earlier column is left untouched; peak = max(previous peak, "
             "aggregate current of the period). current_charging_rates / _store_actual_charging_rates: whole-matrix postconditions (Sum theory). (4) the INDUCTION "
             "over the periods as a lemma whose hypotheses are those step clauses (tied to them by name): delivered energy = initial value + sum over the "
             "connected periods tau < t of recorded rate[tau] x V/1000 x period/60 (Sum unfolding + congruence on the untouched earlier columns), the peak "
             "dominates every recorded aggregate current and is attained or 0; base case: Simulator.__init__ (under contract) starts from an all-zero rate matrix, peak 0, "
             "period 0 and empty histories. BOUNDED "
             "(run-time contracts on the real Simulator over seeded scenarios): the closed sums over a whole run - delivered = sum over connected periods of "
             "recorded rate x V x dt = battery gain, peak = max over periods, total energy = integral of aggregate power, analysis totals - which follow from "
             "the per-period clauses by induction over the periods (the telescoping itself is not restated as an obligation), and the battery side of the "
             "per-period equality (needs 'no two EVs share a battery', A-OWN).",
        note="floats as reals; the per-period ledger is proved inside the same run-loop proof as C01 (needs the occupancy invariant 'an occupant carries "
             "its station's id'); an EV's battery has no other owner during a run (A-OWN); the scheduler is an assumed contract",
        explanation="proved: per-call ledger contracts of battery/EV/EVSE, the network sweep, and the per-period ledger clauses of the run loop's step contract; "
                    "bounded: closed whole-run sums via rt.simcheck",
        technique="contract-based deductive verification: per-call ledger, loop invariant of the network sweep, per-iteration step contract of the run loop (pyvc, z3) "
                  "+ run-time contract monitor (bounded) for the closed whole-run sums",
    ),
    "C01": dict(
        level="other",
        functions=[SIM + "run", SIM + "_process_event", NET + "plugin", NET + "unplug", NET + "get_ev", S + "BaseEVSE.plugin", S + "BaseEVSE.unplug",
                   EVT + "PluginEvent.__init__", EVT + "UnplugEvent.__init__", EVT + "RecomputeEvent.__init__", EVT + "Event.__lt__",
                   EQ + "get_current_events", EQ + "add_event", EQ + "get_event", EQ + "empty", NET + "post_charging_update", SIM + "__init__"],
        bounded=[dict(module="rt.drivers", fn="sim_monitor", label="lifecycle clauses on whole simulations")],
        text="PROVED (all networks, all finite sets of valid non-overlapping sessions, all max_recompute values; every history, no bound): the main loop "
             "of Simulator.run is verified against an inductive invariant and a per-iteration step contract. Invariant (over the pending multiset = "
             "queue bag, and inside the per-period loop queue bag + the not-yet-processed suffix of the popped events): every pending event is not "
             "in the past; pending plug-ins describe valid sessions on registered stations; pending events carry the precedence of their type; EVERY "
             "OCCUPANT OF A STATION HAS ITS UNPLUG EVENT PENDING AT ITS DEPARTURE (Hilbert-choice witness function per state); no plug-in is pending "
             "on a station before its occupant leaves; pending plug-ins on one station do not overlap and are not duplicated; among the events of "
             "one period no unplug follows a plug-in (from the queue's time-then-precedence order, C11). From it, as named obligations at the call "
             "site: processing an event NEVER raises StationOccupiedError or KeyError (back-to-back reuse of a space included), and the loop "
             "TERMINATES (ranking function: horizon bound - period while events are pending, then at most the one owed schedule). Step contract: the "
             "period counter advances by exactly one, the events of the period are popped (all with timestamp = the period), recorded in history and "
             "applied in queue order before the scheduler precondition 'no event of this period is pending'. _process_event: a plug-in attaches the EV "
             "to its station, records it and schedules exactly one fresh Unplug (precedence 0) at ev.departure, every other station keeps its "
             "occupant; an unplug vacates the station iff the session matches and never another one; network plugin/unplug/get_ev with KeyError / "
             "StationOccupiedError frames; on normal return the queue is empty, nothing is owed, the last event was one period before the final "
             "counter and EVERY STATION IS VACATED (postcondition of run: an occupant would have its Unplug pending, and nothing is pending); per period "
             "(step clause): whoever is connected at the end of period t departs later than t - nobody stays connected into its departure period. BOUNDED: the "
             "remaining end-to-end lifecycle clause on whole simulations (each session connected in exactly [arrival, departure)) - a corollary of the "
             "proved invariant and step contract not restated as one obligation.",
        note="update_pilots / _update_schedules / _store_actual_charging_rates / _increase_width enter the loop proof through their contracts (C04 / C02); "
             "the scheduler is an assumed contract (user code); events are not mutated while queued; verbose=False (printing is not modelled); the horizon "
             "bound is a ghost parameter of run (a finite queue has a largest timestamp / departure); definitional axioms (choice function, recursive "
             "definition of cnt) are assumed where the invariant is assumed or proved (dsl.Given); distinct sessions with equal session ids on one "
             "station are outside the precondition",
        explanation="proved: run-loop invariant incl. occupancy <-> pending-unplug, exception freedom of event processing, termination, step contract, "
                    "_process_event, network plug/unplug, queue contracts; bounded: end-to-end lifecycle clauses (rt.simcheck C01.*)",
        technique="contract-based deductive verification of the run loop (inductive invariant over the pending multiset with a choice-function witness, ranking "
                  "function, per-iteration step contract; pyvc/z3) + run-time contract monitor (bounded)",
        trusted=["A-FIN: a finite event queue has a horizon bound (ghost parameter of run)",
                 "definitional axioms: Hilbert choice function for 'the pending unplug of an occupant'; cnt over list prefixes is defined by recursion (A-LIB)"],
    ),
    "C04": dict(
        level="other",
        functions=[SIM + "_update_schedules", "acnportal.acnsim.simulator._increase_width", NET + "update_pilots", SIM + "run", SIM + "__init__"] + SET_PILOT,
        lemmas=["C04.recorded_and_applied_pilots_are_the_overlay_of_all_submitted_schedules"],
        bounded=[dict(module="rt.drivers", fn="sim_monitor", label="schedule overlay clauses on whole simulations")],
        text="PROVED (all schedules: any subset of stations, any common length, empty, longer than the horizon, at any period incl. the last; all matrix "
             "sizes; no bound): Simulator._update_schedules against a whole-matrix postcondition keyed by station id - for EVERY cell, columns "
             "t..t+len-1 hold the submitted value of that station or 0 if the mapping omits it, every other old column is unchanged, new columns are 0, "
             "the width never shrinks and covers the schedule; an empty schedule changes nothing; an unknown station raises KeyError and unequal lengths "
             "raise InvalidScheduleError, both with every heap field unchanged and exactly in those cases; the infeasible-schedule branch only warns and "
             "is exception free (shape obligations of its numpy arithmetic); _increase_width keeps old content and pads with zeros; "
             "ChargingNetwork.update_pilots (loop invariant) leaves every station with exactly column i of the matrix as its pilot; BaseEVSE.set_pilot (each of the "
             "three EVSE classes) records exactly the pilot it was sent, attached EV or not; in Simulator.run "
             "every precondition of these callees is discharged at its call site (shapes, column index inside the matrix). Because the postcondition "
             "is keyed by station id it does not depend on the order of the mapping's entries. PROVED per period of Simulator.run (clauses of the run "
             "loop's step contract, i.e. for every period of every run): the pilot every station holds at the end of period t is column t of the pilot "
             "matrix (applied = recorded); if the scheduler was invoked the matrix is the previous one overlaid with the submitted schedule - cell (station, "
             "j) = the schedule's value for j in t..t+len-1 (0 if the station is omitted), the previous cell otherwise, 0 in new columns - and an empty "
             "schedule changes no recorded pilot; if it was not invoked no recorded pilot changes and new columns are 0 (periods no schedule covers have "
             "pilot 0); the matrix always covers the current period, covers a submitted schedule entirely, and never shrinks. THE INDUCTION over the periods "
             "(lemma; its hypotheses are those step clauses, tied to them by name): with OV_k(station, j) = the value of the latest of the first k submitted "
             "schedules that covers period j (0 for an omitted station, 0 if none covers j), every recorded cell equals OV_k and OV_k is 0 beyond the "
             "recorded width - from a fresh zero matrix (base) and preserved by every period (step); a later schedule never rewrites a past period; the "
             "pilot a station holds in period t is OV(station, t) - i.e. recorded = applied = overlay of ALL submitted schedules, for every run. BOUNDED: the "
             "same closed form re-checked on the real simulator in seeded simulations. The base case is the REAL initial state: Simulator.__init__ (under "
             "contract) builds an all-zero pilot matrix with one row per registered station and at least one column.",
        note="numpy operations (np.array of equal-length rows, zeros, slice / column assignment, tile, argmax, unravel_index, shape) are assumed "
             "contracts (A-LIB); network.is_feasible / constraint_current enter only through structural facts (shape; no constraints or no columns => "
             "feasible); set(len(x) ...) is characterised by 'at most one element iff all lengths are equal'",
        explanation="proved: whole-matrix postcondition of _update_schedules, _increase_width, update_pilots, callee preconditions in run, per-period overlay / applied = recorded clauses of the run loop, induction lemma to the closed-form overlay; bounded: the closed form on real whole runs (rt.simcheck C04.*)",
        technique="contract-based deductive verification with a matrix theory for the numpy operations used (pyvc/z3) + run-time contract monitor (bounded) for the whole-run overlay",
        trusted=["numpy axioms used: array(list of equal-length rows), zeros, [:, lo:hi] = M, [:, j] = v, [i, j], shape, tile(v,(n,1)).T, abs, -, argmax range, unravel_index"],
    ),
    "C05": dict(
        level="other",
        functions=[SIM + "run", SIM + "_process_event", SIM + "__init__", "acnportal.algorithms.base_algorithm.BaseAlgorithm.register_interface",
                   "acnportal.algorithms.sorted_algorithms.SortedSchedulingAlgo.register_interface",
                   "acnportal.algorithms.upper_bound_estimator.UpperBoundEstimatorBase.register_interface"] + INFRA + ACCESSORS + OBSERVE,
        bounded=[dict(module="rt.drivers", fn="sim_monitor", label="scheduler invocation / observation / isolation clauses")],
        text="PROVED (all event histories, all max_recompute values, every period; no bound): per-iteration step contract of Simulator.run over a "
             "ghost log of scheduler invocations - the scheduler is invoked in a period if and only if an event was processed in it, or a schedule "
             "was still owed (resumed run), or max_recompute is set and the last invocation is None or at least max_recompute periods ago (the "
             "invariant '_last_schedule_update = period of the last invocation' makes the code's test the property's test); at most once per period; "
             "the invocation is logged for exactly the current period; and the scheduler's precondition 'every event of this period has been "
             "popped and applied' is discharged at the call site. PROVED additionally (the true infrastructure description): "
             "Interface._infrastructure_info / infrastructure_info return a FRESH InfrastructureInfo (not allocated before, so mutating it cannot touch "
             "the simulation) whose limits, phases, voltages, constraint names, station ids (registration order), max / min pilots, allowable pilots and "
             "continuity flags equal the network's current fields entry by entry, whose matrix equals the network's (an empty 0 x N matrix for a "
             "constraint-free network) and which satisfies the shape / station-index invariant; InfrastructureInfo.__init__ stores its arguments, builds "
             "the station index dictionary (dict comprehension) and raises ValueError exactly when the shapes are inconsistent; max_pilot_signal, "
             "min_pilot_signal, evse_voltage, evse_phase return the network's entry at the station's registration position (KeyError exactly for an "
             "unknown station); remaining_amp_periods = (requested - delivered) x 1000 / voltage x 60 / period. PROVED additionally (what the scheduler "
             "observes, every accessor from its source): ChargingNetwork.active_evs lists exactly the occupants whose remaining demand exceeds 1e-3 kWh, once "
             "each, in station registration order; Simulator.get_active_evs returns FRESH copies (fresh batteries too) carrying the same session data, the "
             "originals untouched (frame obligations); Interface._active_sessions / active_sessions return fresh SessionInfo records - exactly one per connected, "
             "not-yet-satisfied session, in station order, each with that session's TRUE station id, session id, requested and delivered energy, arrival, "
             "departure, estimated departure and the current period; last_actual_charging_rate maps exactly those sessions' ids to the rate each drew in the "
             "previous period; last_applied_pilot_signals is empty in the first two periods and afterwards maps the active sessions that had arrived to "
             "pilot_signals[station row, t-1]; current_time / period / get_prev_peak / current_datetime (= start + t x period) return the simulator's values; "
             "at the scheduler call site in run the well-formedness these accessors need (every connected EV carries its station's id) is discharged from the "
             "loop invariant. The station descriptions themselves are TRUE: ChargingNetwork._update_info_store (loop invariant; no longer an assumed contract) "
             "fills entry i of the cached max / min pilots, allowable lists and continuity flags with what the i-th registered station's own property "
             "returns, register_evse refreshes them, Interface.allowable_pilot_signals / max_recompute_time / the tolerance accessors return the network's / "
             "simulator's values, and Simulator.__init__ attaches the scheduler through an Interface on this simulator (register_interface and its overrides). "
             "BOUNDED: isolation against arbitrary mutation (everything handed out is scribbled over, the simulator state digest must not "
             "change) and the observations re-checked natively at every invocation of every seeded scenario.",
        note="the scheduler itself is an assumed contract; the observation accessors require: connected sessions have distinct session ids and departure / "
             "estimated departure after arrival (type invariant of valid sessions, not carried by the run-loop invariant); deepcopy per A-LIB (fresh, "
             "structurally equal, no sharing); comprehension bodies that construct objects are lifted to fresh objects NEW(i)",
        explanation="proved: invocation condition / once per period / after the period's events (run-loop step contract), infrastructure description and every "
                    "observation accessor (fresh, true, complete); bounded: isolation under arbitrary mutation and native re-observation (rt.simcheck C05.*)",
        technique="contract-based deductive verification of the invocation condition (ghost call log, loop step contract, pyvc/z3) + run-time contract monitor (bounded) for observations and isolation",
    ),
    "C09": dict(
        level="other",
        functions=[SIM + "run"] + SERIAL,
        lemmas=["C09.dump_then_load_restores_every_state_field"],
        bounded=[dict(module="rt.drivers", fn="resume_monitor", label="interrupt at every period, resume directly and through JSON")],
        text="PROVED (every period as interruption point, all simulations; no bound): exceptional postcondition of Simulator.run - in the state a "
             "scheduler exception leaves behind, run()'s own precondition holds again, the loop guard is true (also when the interrupted period "
             "was the period of the last event), the schedule of that period is still owed and no event of that period is pending, so a second "
             "run() pops nothing and reaches the same scheduler call in the same state; counters advance only after the pilots were applied "
             "(step contract). PROVED for the JSON half, per class (Battery, Linear2StageBattery, EV, Event, EVEvent incl. Plugin events, EventQueue): "
             "_to_dict writes every state field of the object under its own name (a referenced battery / EV / queued event by the registry id of THAT "
             "object; the queue's heap array position by position) and nothing else; _from_dict rebuilds an object whose state fields are the "
             "dictionary's entries and whose references are the objects registered under the dumped ids; lemma: dump-then-load restores every state "
             "field and re-attaches the same registered object (so an EV shared by its station, the history and a pending event is one object again, "
             "given the registry hands out one id per object). BOUNDED: equality of the completed trajectory with the uninterrupted run, and the whole JSON part (loaded object "
             "carries the complete state, shared EV objects stay shared, resumed run equal) - the serialisers are reflective code outside the "
             "verifier's reach - are monitored with every period of every seeded scenario as interruption point.",
        note="the scheduler is assumed to be a function of what it observes; the registry plumbing of base.py (_to_registry / _build_from_id / to_json / from_json: "
             "reflective) is an assumed contract (A-REGISTRY); Simulator / ChargingNetwork / EVSE / UnplugEvent (try / except fallbacks) serialisers are only monitored",
        explanation="proved: resumability of the interrupted state (exceptional postcondition of run), per-class dump / load contracts and their round-trip lemma; bounded: trajectory equality and the whole-simulator JSON round trip (rt.drivers.resume_monitor)",
        technique="contract-based deductive verification (exceptional postcondition re-establishing the precondition, pyvc/z3) + run-time monitor (bounded, exhaustive over interruption points of seeded scenarios)",
    ),
    "C11": dict(
        level="other",
        functions=[EVT + x for x in ("Event.__init__", "Event.__lt__", "EVEvent.__init__", "PluginEvent.__init__", "UnplugEvent.__init__",
                                     "RecomputeEvent.__init__")]
                  + [EQ + x for x in ("__init__", "__len__", "empty", "add_event", "add_events", "get_event", "get_current_events",
                                      "get_last_timestamp", "_to_dict", "_from_dict")]
                  + [EVT + "Event._to_dict", EVT + "Event._from_dict", EVT + "EVEvent._to_dict", EVT + "EVEvent._from_dict"],
        bounded=[dict(module="rt.fnmon", fn="queue_monitor", label="queue operation sequences incl. JSON round trip against the pending-set model")],
        text="PROVED (all queue contents, all interleavings by induction over calls, no bound): every EventQueue method is verified "
             "from its source against a postcondition over the whole pending multiset (bag): add_event/add_events add exactly the given "
             "events, get_event removes and returns a time-then-precedence minimal pending event, get_current_events(t) returns exactly "
             "the pending events with timestamp <= t, sorted by time then precedence, and leaves exactly the later ones (loop invariant + "
             "termination measure), len/empty/get_last_timestamp are functions of the pending set; the representation invariant (heap "
             "order, stored timestamp = event timestamp) is preserved by every method; the event constructors pin precedence 0/10/20. "
             "PROVED for the JSON half: EventQueue._to_dict writes the heap array position by position as (stored timestamp, registry id of the "
             "event) and _from_dict rebuilds it position by position with the objects registered under those ids (loop invariants); Event / EVEvent "
             "dump and load every state field (timestamp, type, precedence, the EV by registry id) - so the restored heap array is the dumped one "
             "and every method's contract applies to it unchanged. BOUNDED: the registry plumbing itself (reflective) - a restored queue behaves "
             "identically - is monitored over seeded operation sequences.",
        note="heapq.heappush/heappop are assumed contracts (heap invariant, bag update, minimum at index 0); Python's tuple order on "
             "(timestamp, event) is modelled as time, then identity, then Event.__lt__ (itself proved); events are not mutated while queued",
        explanation="proved: all EventQueue methods and event constructors (pyvc); bounded: JSON round trip and whole-sequence behaviour (rt.fnmon.queue_monitor)",
        technique="contract-based deductive verification over a multiset abstraction of the heap (pyvc, z3) + bounded run-time monitor for the JSON round trip",
        trusted=["heapq axioms (A-LIB): heappush/heappop preserve the heap invariant, update the multiset by exactly the pushed/popped element, "
                 "heappop returns index 0, a heap's index 0 is minimal under Python's tuple order",
                 "cnt (multiplicity in a list prefix) is defined by recursion on the prefix length; list.append extends it (A-LIB)",
                 "A-INF: float('inf') stored in a real-sorted field is a constant > 1e30"],
    ),
    "C06": dict(
        level="other",
        functions=[NET + "constraint_current", NET + "is_feasible", "acnportal.acnsim.interface.Interface.is_feasible",
                   "acnportal.algorithms.utils.infrastructure_constraints_feasible", NET + "station_ids"] + INFRA,
        lemmas=["C06.three_checkers_agree", "C06.linear_relaxation_is_conservative"],
        bounded=[dict(module="rt.netmon", fn="feasibility_monitor", label="three feasibility checkers against the phasor definition near the limits")],
        text="PROVED (all constraint matrices incl. mixed signs, limits, phase angles, tolerances, schedule matrices of any size; no bound), each from its "
             "current source against ONE specification FEASDEF written from the property - for every constraint i and period t, |sum_j A[i][j] S[j][t] "
             "e^{i phi_j}| <= limit_i + max(abs tol, rel tol x limit_i): ChargingNetwork.constraint_current returns exactly the matrix of those phasor "
             "sums (linear mode: sum_j |A[i][j]| S[j][t]), rows in network order, columns = the requested periods in the order given; "
             "ChargingNetwork.is_feasible returns True iff FEASDEF holds (explicit tolerances or the network's defaults; both directions), and True "
             "whenever there is no constraint; Interface.is_feasible builds the matrix the mapping denotes (row i = list of the i-th registered station, "
             "0 if omitted), rejects unequal lengths with InvalidScheduleError exactly then, accepts the empty mapping, and otherwise returns True iff "
             "FEASDEF holds for that matrix; algorithms.utils.infrastructure_constraints_feasible (both loops, loop invariants) returns True iff FEASDEF "
             "holds for the rate vector with its tolerance arguments. Lemmas: the three verdicts coincide (same specification); for non-negative "
             "schedules the phase-aware magnitude is at most the linear sum, so whatever the linear relaxation accepts the phase-aware check accepts. "
             "BOUNDED: behaviour under IEEE-754 rounding near the limits, constraint-free networks handed to schedulers, 2-D rate matrices on the "
             "algorithm side, subsets of constraints.",
        note="numpy operations per A-LIB (matrix product as a finite Sum, elementwise broadcasting, tile, transpose, np.all, np.abs of a complex array = "
             "cabs, linalg.norm of a 2-vector = cabs, exp(1j x) = cos x + i sin x); cos / sin / deg2rad / cabs uninterpreted; the linear-conservative "
             "lemma uses the triangle inequality for finite sums and |k e^{i theta}| = |k| (A-MATH); constraint_current is verified for constraints=None "
             "(the form is_feasible uses); FEAS (the predicate of the search procedures, C07/C08) is DEFINED as this function's verdict under default arguments",
        explanation="proved: the three checkers and constraint_current against one phasor specification + agreement / conservativeness lemmas (pyvc/z3); "
                    "bounded: floating-point boundary behaviour and the remaining call forms (rt.netmon.feasibility_monitor)",
        technique="contract-based deductive verification against a single specification predicate, numpy matrix / complex theory with a Sum operator (pyvc/z3) + run-time contract monitor (bounded)",
        trusted=["A-LIB numpy: @ as Sum of products, broadcasting M * c along the last axis, .T, tile, maximum, abs, all, stack, linalg.norm(2-vector), "
                 "astype('complex'), fancy row/column indexing, exp(1j x) = cos x + i sin x",
                 "A-MATH: cabs >= 0, cabs(x, 0) = |x|, triangle inequality for finite sums, |k e^{i theta}| = |k|",
                 "definition: FEAS(v, infrastructure) := verdict of infrastructure_constraints_feasible under default arguments"],
    ),
    "C07": dict(
        level="other",
        functions=SEARCH + GREEDY + RROBIN + [IFC + "remaining_amp_periods"] + PREPROC + [SA + "schedule", RRM + "schedule", "acnportal.algorithms.postprocessing.format_array_schedule",
                                                                                   "acnportal.algorithms.base_algorithm.BaseAlgorithm.interface"] + INFRA,
        lemmas=["C07.remaining_amp_periods_are_non_negative_for_unmet_demand"],
        bounded=[dict(module="rt.algomon", fn="algo_monitor", label="every schedule() call of greedy / round-robin during seeded simulations"),
                 dict(module="rt.drivers", fn="sim_monitor", label="simulation-level corollaries under the sorted algorithms", schedulers=["sorted", "rr"])],
        text="PROVED (all infrastructures, session lists, vectors, level lists, brackets; relative to the algorithm-side feasibility predicate FEAS, which C06 proves equal "
             "to the phasor definition): (1) the two search procedures every greedy grant goes through - discrete_max_feasible_rate (loop invariant + "
             "termination measure): the returned level is feasible unless no level is, then 0; max_feasible_rate / its recursive bisection: the result is "
             "feasible and inside [lb, ub]; ValueError exactly when the incoming schedule is infeasible. (2) the greedy allocation "
             "SortedSchedulingAlgo.sorting_algorithm (two loops, invariants + step contract), stated over the sessions as handed in, whatever order the sort "
             "function puts them in: the result is FEAS; every session's entry lies between its lower bound and min(first upper rate bound, remaining "
             "demand in amp-periods); a finite-rate station holds 0 or one of its allowable levels; every station without a session holds 0. (2b) the "
             "round-robin allocation RoundRobin.round_robin (deque loop; invariants over the local, filtered level lists - for a continuous station the "
             "np.arange discretisation, every continuous increment > 0): every level kept for a session lies within [lower bound, min(rate bound, station "
             "maximum pilot, remaining demand in amp-periods)] and, at a finite-rate station, is one of the advertised levels; the schedule is FEAS after "
             "every increment (an infeasible trial is reverted); every session sits at the level its index points to; the result gives each session 0 or a "
             "pilot within those bounds, finite-rate stations an advertised level or 0, other stations 0. (3) "
             "preprocessing: remove_finished_sessions (ghost index maps), enforce_pilot_limit, reconcile_max_and_min, apply_upper_bound_estimate (bound looked "
             "up by SESSION id), expand_max_min_rates, remaining_amp_periods; apply_minimum_charging_rate (uninterrupted charging; loop invariant + exit clauses): "
             "every session is either GRANTED its station's minimum pilot (capped by the override) as first lower bound - an existing larger lower bound is kept, "
             "the first upper bound is raised to it if it was smaller, the granted pilot does not exceed the remaining demand in amp-periods - or SWITCHED OFF "
             "(both first bounds 0); the vector of granted minimum pilots is accepted by the algorithm-side feasibility check (or is all zeros). (4) THE COMPOSITION SortedSchedulingAlgo.schedule for the plain greedy "
             "configuration (no estimator, no uninterrupted charging) AND RoundRobin.schedule for the plain round-robin configuration: "
             "interface.infrastructure_info -> run_preprocessing -> sorting_algorithm / round_robin -> "
             "format_array_schedule, every callee precondition discharged at its call site; postcondition: exactly one pilot for every registered station; "
             "the pilots form a vector the algorithm-side check accepts for a description whose limits / phases / station order equal the network's; no "
             "session gets a negative pilot, more than its remaining demand (amp-periods), more than its rate bound or its station's maximum pilot; a "
             "finite-rate station gets 0 or one of its advertised levels; stations without an active session get 0. format_array_schedule: one one-element "
             "list per registered station, InvalidScheduleError exactly on a length mismatch. BOUNDED: the configurations with an estimator / uninterrupted "
             "charging as a whole (their preprocessing steps are proved individually) and the simulation-level corollaries (no warning, no "
             "invalid rate, no over-delivery) - checked at every call of the real schedule() on constructed binding states and in seeded simulations.",
        note="FEAS is the value of utils.infrastructure_constraints_feasible under default arguments (that it equals the phasor definition is C06, proved); "
             "termination of the bisection is not proved (Archimedean property); schedule() requires what Interface.active_sessions delivers (one live "
             "SessionInfo per station, first minimum rate <= 0 <= first maximum rate) and what the EVSE classes advertise through the network's cache "
             "(non-negative max / min pilots, positive voltages and period, strictly increasing level lists containing 0 - C13); the cache-filling "
             "_update_info_store IS under contract (entry i of every cached description is what the i-th registered station's own property returns; "
             "dynamic dispatch on the station named by uninterpreted functions of the EVSE object); the sort function and a custom estimator are assumed contracts (user code)",
        explanation="proved: search procedures, greedy and round-robin allocation (feasible, bounds, levels, zeros), preprocessing steps, and the whole plain-greedy / "
                    "plain round-robin schedule() compositions; bounded: estimator / uninterrupted configurations as a whole, simulations (rt.algomon, rt.simcheck)",
        technique="contract-based deductive verification of the search procedures, the allocation loops, the preprocessing steps and the schedule() composition (loop invariants, step contracts, recursive contract, pyvc/z3) + run-time contract monitor (bounded) for the remaining configurations",
    ),
    "C08": dict(
        level="other",
        functions=SEARCH + GREEDY + RROBIN + SORTFNS + [IFC + "remaining_amp_periods", IFC + "max_pilot_signal",
                                                "acnportal.algorithms.uncontrolled_charging.UncontrolledCharging.schedule"],
        lemmas=["C08.feasible_set_along_one_coordinate_is_an_interval"],
        bounded=[dict(module="rt.algomon", fn="algo_monitor", label="priority allocation of greedy / round-robin / uncontrolled against the specification")],
        text="PROVED (relative to FEAS): discrete_max_feasible_rate returns the LARGEST allowable level that is feasible given the fixed other entries "
             "(every higher level is infeasible; 0 if none is feasible) - loop invariant 'all levels above the current index are infeasible'; "
             "max_feasible_rate returns ub when ub is feasible, otherwise a feasible value in [lb, ub] with an infeasible point at most eps above it "
             "(contract of the recursive bisection, used at its own recursive calls); the greedy allocation loop (step contract): sessions are served in "
             "queue order, each grant changes only that session's entry and is maximal given the grants already made (largest feasible level / within "
             "eps for continuous); the five sort functions return a permutation ordered by their priority key; UncontrolledCharging.schedule (loop invariant): "
             "every active session gets exactly its station's maximum pilot, no other station gets anything; ROUND ROBIN (RoundRobin.round_robin, step contract of the deque "
             "loop + exit clause): in each turn the session at the front of the queue is raised by exactly one level of its kept level list and re-queued at the "
             "BACK iff it has a next level and that level is feasible right now; otherwise it leaves the queue and nothing changes; only its own entry ever "
             "changes; the allocation ends only when the queue is empty (also through any `break`), i.e. a session stops only in a turn in which its next level "
             "was infeasible at that moment or did not exist (levels above its own bound are filtered out beforehand); lemma: along one coordinate each constraint is a convex "
             "quadratic, so an infeasible point above a feasible one makes everything above it infeasible - hence 'within eps of the largest "
             "feasible pilot'. BOUNDED: the priority order (five sort keys, amp-periods from each station's voltage), the sequential allocation loop "
             "with earlier grants fixed, round robin level by level (whole allocations) and the uncontrolled baseline are compared with an executable specification "
             "on constructed binding states and in simulations.",
        note="FEAS as in C07; the reduction of the phasor constraint to the quadratic normal form is standard algebra and is not machine-checked here; "
             "termination of the bisection is not proved",
        explanation="proved: maximality postconditions of the search procedures + interval lemma, greedy step contract, round-robin step contract and exit clause, sort orders, uncontrolled baseline; bounded: whole allocations against an executable specification (rt.algomon)",
        technique="contract-based deductive verification of the search procedures, the greedy and round-robin allocation loops (step contracts), the sort orders and a convexity lemma (pyvc/z3) + run-time contract monitor against an executable specification (bounded)",
    ),
    "C10": dict(
        level="other",
        functions=[SIM + "_update_schedules", NET + "station_ids", NET + "add_constraint", CURR + "__add__", NET + "constraint_current",
                   "acnportal.acnsim.network.sites.auto_acn.simple_acn"] + SORTFNS,
        bounded=[dict(module="rt.drivers", fn="pair_monitor", label="paired runs: same inputs, permuted stations / constraints / sessions, shifted events, fresh interpreter")],
        text="The property relates PAIRS of whole runs (2-safety); no single-function contract states it. What contracts can and do decide are the "
             "order-independence of the individual steps, as id-keyed FUNCTIONAL postconditions - PROVED (no bound): Simulator._update_schedules writes, "
             "for every station ID, the value the mapping assigns to that id (0 if omitted), so the result does not depend on the order of the "
             "mapping's entries; ChargingNetwork.add_constraint writes for every registered station its coefficient in the Current, whatever order the "
             "Current lists its stations in, and Current addition is pointwise; station_ids is the registration order (the only order the matrices "
             "depend on); constraint_current returns rows in network order whatever order the names are requested in; the five sort functions return a "
             "permutation ordered by the priority key alone (hence independent of the listing order of sessions with distinct keys); every contract of "
             "the form result == term over the inputs (C06, C12, C17, C18) is by construction deterministic. BOUNDED: the relation between whole runs - "
             "equal inputs give identical outputs, permuted station registration / constraint / session order give the same per-station pilots, rates "
             "and energies, shifting all events by k shifts the outputs by k, no state leaks between simulations (fresh interpreter) - is checked by "
             "paired runs of the real simulator on seeded scenarios.",
        note="the whole-run relation itself (composition of the per-step facts along two executions) is only monitored; floats are compared exactly there",
        explanation="proved: id-keyed / key-ordered functional postconditions of the steps where an incidental order could leak (pyvc/z3); bounded: the 2-safety "
                    "relation on whole runs (rt.drivers.pair_monitor)",
        technique="contract-based deductive verification of order-independence per step (id-keyed functional postconditions, pyvc/z3) + run-time paired-run monitor (bounded) for whole runs",
    ),
    "C12": dict(
        level="other",
        functions=[CURR + "__add__", CURR + "__sub__", CURR + "__mul__", CURR + "__init__@list", NET + "add_constraint", NET + "remove_constraint",
                   NET + "update_constraint", NET + "register_evse", NET + "constraint_current", NET + "station_ids", NET + "__init__", NET + "_update_info_store",
                   "acnportal.acnsim.network.sites.auto_acn.simple_acn"],
        bounded=[dict(module="rt.netmon", fn="constraint_monitor", label="add/remove/update/register sequences with algebra-built Currents against the row model")],
        text="PROVED (all Currents over arbitrary station subsets, all tables, all registration orders; by induction over calls, no bound): the Current "
             "algebra - a + b, a - b, c * a (and the reflected forms, which are the same methods) return a NEW Current whose coefficient at every station "
             "is the pointwise sum / difference / multiple with absent stations read as 0; a Current built from a list of station ids has coefficient 1 for each "
             "of them and mentions no other station; add_constraint appends exactly one row that holds, for every "
             "registered station in registration order, that station's coefficient in the Current (0 if absent) - whatever order the Current lists its "
             "stations in -, appends the limit and the name (the given name when it is free), leaves every existing row, limit and name untouched, raises "
             "KeyError exactly when the Current mentions an unregistered station and then changes nothing; the first constraint of a network (empty "
             "frame branch, loop invariant) and later ones (concat branch) alike; remove_constraint removes the first row carrying the name together with "
             "its limit and its name, every other (row, limit, name) triple stays aligned, KeyError exactly for an unused name; update_constraint = that "
             "removal followed by that addition (the updated constraint becomes the last row); register_evse appends the station to the registration "
             "order with its voltage and phase angle and raises EVSERegistrationError exactly when constraints exist; constraint_current returns the "
             "rows in network order and the requested periods in the order given (see C06). The alignment invariant (M names, M limits, M x N matrix) is "
             "preserved by all of them. (constraint_current for a SUBSET of constraint names: the order-preserving selection in network order, proved - see C06 / C18.) "
             "ChargingNetwork.__init__ builds an empty, aligned table with a live registry; _update_info_store (loop invariant) and register_evse keep the "
             "descriptions cached for schedulers truthful - entry i is what the i-th registered station advertises, the index dictionary inverts the "
             "registration order; sites.simple_acn registers the stations IN THE ORDER GIVEN (loop invariant; a re-ordering such as list(set(ids)) - "
             "iteration over a set is an unspecified enumeration - fails it), each at the given voltage and phase 0, with one aggregate constraint of "
             "coefficient 1 per station and limit cap / voltage x 1000. BOUNDED: duplicate-name "
             "suffixing, Current construction from a str / dict / Series, long mixed sequences.",
        note="pandas per A-LIB (pyvc/pdlib.py): a Series is a finite mapping label -> number, Series.add(fill_value=0) is the union-sum, scalar multiple; a "
             "DataFrame is (row labels, column labels, cell and NaN functions of (row position, column label)) with DataFrame(matrix, columns, index), "
             "to_frame().T, frame[label] = scalar, concat of two frames (missing cells NaN), fillna, reindex(columns=), to_numpy (obligation: no NaN left), "
             "index; np.append / np.delete; '_const_{n}'.format and name + '_v2' are uninterpreted functions into identifiers; _update_info_store enters "
             "through a frame-only contract (it only rewrites the five cached descriptions); update_constraint with an unregistered station raises after the "
             "removal has happened (the constraint is lost) - outside the property's statement, noted in DESIGN",
        explanation="proved: Current algebra, add / remove / update_constraint, register_evse against the row model (pyvc/z3 over a pandas axiomatisation); "
                    "bounded: subset queries and long mixed sequences (rt.netmon.constraint_monitor)",
        technique="contract-based deductive verification over an axiomatisation of the pandas / numpy operations used (pyvc/z3) + run-time contract monitor (bounded)",
        trusted=["A-LIB pandas / numpy as listed in the note (each exercised against the real library by the monitor's sequences)"],
    ),
    "C16": dict(
        level="other",
        lemmas=[f"C16.{site}.{kind}_evses" for site in ("caltech", "jpl", "office001") for kind in ("real", "basic")],
        bounded=[dict(module="rt.netmon", fn="sites_monitor", label="site models: largest feasible multiples of many load directions against the physical ratings")],
        text="PROVED (z3, for ALL non-negative schedules and ALL positive transformer capacities / EVSE voltages, both EVSE types; no bound): for "
             "Caltech, JPL and Office001 the constraint table (matrix, limits as affine expressions of the capacity parameters, phase angles, "
             "registration order) is obtained by running the REAL factory with its numeric parameters replaced by symbolic affine objects - the "
             "factories are closed programs; a comparison on a symbol is decided concolically, recorded as a path constraint and the other side "
             "explored - and over that table, with FEASDEF (the predicate ChargingNetwork.is_feasible is proved equal to under C06) as hypothesis: "
             "total power behind each transformer (at 120 sqrt 3 V line-to-line) <= rated capacity (+ the checker's own tolerance), the three "
             "delta line currents I_a = I_ab - I_ca, ... of every transformer <= rated secondary current, of every JPL sub-panel / panel <= 100 / 225 A, "
             "Caltech pod totals <= 80 A; per constraint row a reduction obligation links FEASDEF's phasor sum (cos / sin form, trig table) to the "
             "quadratic normal form 3P^2 + Q^2 over class sums. Structural facts decided by evaluation of the closed program: every EVSE carries 30 / "
             "-90 / 150 degrees, is behind exactly one transformer and has a non-zero coefficient in a row whose limit depends on that transformer's "
             "capacity; the limits do not depend on the EVSE voltage. Counter-models (capacities + class sums) are turned into a schedule and replayed on "
             "the real network (is_feasible must accept it and the first-principles quantity must exceed the rating). BOUNDED: the same ratings "
             "checked on the real is_feasible verdicts (IEEE-754) for many load directions scaled by bisection.",
        note="the factories' own statements are evaluated (CPython on the real source with symbolic numeric parameters), not verified against contracts "
             "(A-CLOSED); the physical topology and rating formulas are the oracle written in contracts/sites.py from the site documentation "
             "(A-TOPOLOGY); that is_feasible computes FEASDEF is C06; np.sqrt(3) in the JPL primary limits enters as the float's exact rational value",
        explanation="proved: rating theorems over the constraint table the real factory builds, for all schedules and capacities (z3 nonlinear real arithmetic, "
                    "lemmas generated from the evaluated factory); bounded: IEEE-754 verdicts of is_feasible along sampled directions (rt.netmon.sites_monitor)",
        technique="deductive lemmas (z3, nonlinear reals) over the constraint table obtained by concolic evaluation of the closed site factories, composed with "
                  "the C06 contract of is_feasible + run-time contract monitor (bounded)",
        trusted=["A-CLOSED: factories evaluated by CPython with symbolic affine parameters", "A-TOPOLOGY: site documentation oracle in contracts/sites.py",
                 "A-MATH: trig table at 30 / -90 / 150 degrees, cabs^2 = re^2 + im^2"],
    ),
    "C18": dict(
        level="other",
        functions=[AN + f for f in ("aggregate_current", "aggregate_power", "total_energy_delivered", "total_energy_requested",
                                    "proportion_of_energy_delivered", "proportion_of_demands_met", "energy_cost", "demand_charge", "datetimes_array")]
                  + [NET + "constraint_current"],
        bounded=[dict(module="rt.netmon", fn="analysis_monitor", label="analysis functions against first-principles recomputation on completed simulations")],
        text="PROVED (all recorded trajectories, voltages, session histories, thresholds; no bound), each function against its first-principles "
             "definition as a functional contract (result == definition): aggregate_current[t] = sum over stations of the recorded rate; "
             "aggregate_power[t] = sum over stations of voltage x rate / 1000; total energy delivered / requested = sums over the session history; "
             "proportion of energy delivered = their quotient; proportion of demands met = (number of sessions whose remaining demand is STRICTLY below "
             "the threshold) / number of sessions; energy_cost = sum_k price(start + k x period) x aggregate power_k x period/60 with the prices being the "
             "tariff lookups of C17; demand_charge = demand rate of the schedule in effect at the start x max_k aggregate power_k; and on the network "
             "side constraint_current: the phase-aware weighted sums for the requested constraint names, returned in NETWORK order whatever order they "
             "were requested in (order-preserving selection), for the requested periods; datetimes_array: one timestamp per completed period, entry i = the "
             "start's wall-clock reading (zone dropped) + i x period x 60 s - fractional periods included -, a warning exactly when events are still pending. "
             "BOUNDED: constraint_currents (the name-keyed dictionary), current_unbalance (NEMA).",
        note="numpy per A-LIB (sum(axis=0), dot, max as a canonical term with its two defining facts, Sum operator); sum() over a generator is the Sum "
             "operator, sum(1 for ... if c) is the length of the order-preserving selection; ghost witness: the price vector returned by get_tariffs",
        explanation="proved: nine analysis functions and constraint_current as functional contracts (pyvc/z3); bounded: the remaining two functions (rt.netmon.analysis_monitor)",
        technique="contract-based deductive verification, functional contracts over a Sum / max theory (pyvc/z3) + run-time contract monitor (bounded)",
        trusted=["A-LIB numpy as in the note; the tariff lookups through their C17 contracts"],
    ),
    "C20": dict(
        level="other",
        functions=["acnportal.acndata.data_client.DataClient.get_sessions", "acnportal.acndata.data_client.DataClient.count_sessions",
                   "acnportal.acndata.data_client.DataClient.get_sessions_by_time"],
        bounded=[dict(module="rt.fnmon", fn="dataclient_monitor", label="DataClient against a stub server; RFC-1123 conversions around DST transitions")],
        text="PROVED (every paging of the server's result set - any number of pages, empty pages anywhere, any page sizes -, every argument combination; "
             "no bound), over a ghost server (page items / has-next / next-href as functions of the requested URL): the generator get_sessions yields "
             "exactly the concatenation of the pages' items along the chain of next links - every session once, in server order (outer loop invariant "
             "'yielded ++ CHAIN(current page) = CHAIN(first page)', inner loop invariant 'the first k items of this page have been yielded'), stops "
             "only when a page has no next link, issues exactly one request per page (request log = the chain's URLs), the first URL is base + "
             "'sessions/' + site [+ '/ts/'] + '?' + [where=cond&][project=p&][sort=s&]max_results=100 (1 for time series) built from the arguments as "
             "given (z3 string theory), and an invalid site raises ValueError before any request is made (request log and output unchanged). "
             "count_sessions: exactly one HEAD request to base + 'sessions/' + site + '?' + [where=cond&]limit=1, the result is the server's x-total-count "
             "header for that URL, invalid sites rejected before any request. get_sessions_by_time (32 paths): the filter is 'connectionTime >= \"<http_date(start)>\"', "
             "'connectionTime <= \"<http_date(end)>\"', 'kWhDelivered > <min_energy>', each present exactly when its argument is not None (0 included), in "
             "this order, joined by ' and '; with count it is handed to count_sessions, otherwise to get_sessions with sort=connectionTime and the "
             "time-series flag as given - the sessions yielded and the request log are those of that call. "
             "BOUNDED: the time half of the property - every RFC-1123 field and time-series timestamp becomes an aware datetime of the same instant in "
             "the document's zone, http_date / parse_http_date are inverse to the second (strptime / strftime / pytz: no contract of ours constrains them) - "
             "checked against a stub server and around DST transitions (the wrappers are monitored there too).",
        note="requests.get(url).json() is the ghost server's page for that URL (A-LIB / A-SERVER: the next links form a finite chain); parse_dates enters "
             "through a frame-only assumed contract (its effect on the documents is the monitored half); http_date is an assumed contract (an unspecified "
             "function of the datetime object); get_sessions_by_time returns the generator unconsumed - the contract describes what consuming it yields; sequence-theory lemma s[0:k+1] = s[0:k] ++ [s[k]] "
             "instantiated per occurrence",
        explanation="proved: pagination, ordering, request count and URL construction of get_sessions, count_sessions, the filter construction and delegation of "
                    "get_sessions_by_time (pyvc/z3 sequence and string theories); bounded: time conversions (rt.fnmon.dataclient_monitor)",
        technique="contract-based deductive verification of the generator over a ghost server (loop invariants, z3 sequence / string theory) + run-time contract monitor (bounded) for the time conversions",
        trusted=["A-LIB: requests.get / Response.json as a function URL -> page; str.format / join / + as string concatenation",
                 "A-SERVER: finite chain of next links"],
    ),
    "C15": dict(
        level="other",
        functions=[AE + "_datetime_to_timestamp", AE + "_convert_to_ev", B + "batt_cap_fn.<locals>._get_init_cap", B + "batt_cap_fn",
                   "acnportal.acnsim.events.stochastic_events.StochasticEvents._convert_ev_matrix"],
        bounded=[dict(module="rt.fnmon", fn="events_monitor", label="session documents, sample matrices and the capacity fit against the property's formulas")],
        text="PROVED (all documents, starts, periods, max_len, force_feasible; no bound): _datetime_to_timestamp returns floor(unix time / (60 x period)) "
             "(and the ceiling with round_up); _convert_to_ev with the default battery: arrival / departure = period index of connection / "
             "disconnection minus the offset, order preserving, stay capped at max_len, requested energy = delivered energy capped (force_feasible) at "
             "max power x stay x period/60, ids copied, battery capacity = request with empty initial charge (free capacity covers the request); "
             "batt_cap_fn on its closed-form branch (start at or beyond the transition SoC): the capacity is a listed size >= the request and "
             "F(s0, stay) - s0 = request / capacity, i.e. charging at 32 A for the whole stay delivers exactly the request, initial charge in kWh "
             "within the free capacity; StochasticEvents._convert_ev_matrix with the default battery (loop invariant with ghost index maps sample row <-> "
             "session): every session built comes from a valid sample row (arrival >= 0, stay > 0, energy > 0), in sample order, and every valid row has "
             "its session; arrival = floor(arrival time x periods per hour), departure = floor((arrival time + stay capped at max_len) x periods per "
             "hour), requested energy = the sample's energy (capped at max power x capped stay under force_feasible), nothing delivered yet, the "
             "battery holds exactly the request with empty initial charge. BOUNDED: the bisection branch of the fit, custom capacity functions / "
             "battery classes, get_evs / generate_events through a stubbed client, time zones.",
        note="datetime.timestamp() is a ghost real (A-LIB); exp uninterpreted with instantiated axioms; binsearch (higher-order, recursive) is an "
             "assumed frame-only contract, so the search branch of the fit is not proved; zero-length stays are excluded by precondition (the "
             "Battery constructor would be handed capacity 0)",
        explanation="proved: timestamp conversion, document conversion and sample-matrix conversion (default battery), closed-form branch of the capacity fit; bounded: the rest (rt.fnmon.events_monitor)",
        technique="contract-based deductive verification (pyvc/z3) of the scalar converters and the closed-form fit + run-time contract monitor (bounded) for the remaining paths",
        trusted=[EXP_AXIOMS, "datetime.timestamp() returns the ghost real theta of the datetime object; pytz conversions are not modelled"],
    ),
    "C17": dict(
        level="other",
        functions=[TOU + "_get_tariff_schedule", TOU + "get_tariff", TOU + "get_tariffs", TOU + "get_demand_charge", TOU + "__init__",
                   "acnportal.acnsim.interface.Interface.get_prices", "acnportal.acnsim.interface.Interface.get_demand_charge",
                   AN + "energy_cost", AN + "demand_charge", AN + "aggregate_power"],
        lemmas=["C17.period_offsets_add", "C17.a_wrapping_season_is_the_union_of_its_halves"],
        bounded=[dict(module="rt.fnmon", fn="tariff_monitor", label="all bundled tariffs x every (month, day, weekday) x every breakpoint; interface / analysis alignment")],
        text="PROVED (every well-formed schedule list - any number of schedules, seasons, weekday masks, breakpoint lists - and every instant; no bound): "
             "_get_tariff_schedule returns the schedule in effect (weekday mask admits the weekday, (month, day) inside the inclusive season) when exactly "
             "one is, and raises ValueError exactly when none or several are; get_tariff returns the rate of the latest breakpoint at or before the time of "
             "day (hour + minute/60 + second/3600, exact Decimal arithmetic) of that schedule - loop invariant over the descending breakpoint list, the "
             "final 'could not find a price' error is unreachable because every list starts at hour 0; get_demand_charge returns that schedule's demand "
             "charge; get_tariffs(start, n, period) has n entries and entry k is the lookup at start + k x period (and raises exactly when some of those "
             "instants has no unique schedule); Interface.get_prices / get_demand_charge are aligned with simulation time: entry k is the price of "
             "simulation period (start or current) + k, i.e. of the instant sim.start + (start + k) x period. SEASONS THAT WRAP THE NEW YEAR: the constructor "
             "TimeOfUseTariff.__init__ (loop invariant with ghost index maps; the file is an arbitrary list of schedule documents, their parsing an assumed "
             "contract) leaves, for every document, exactly the pieces of its season - the season itself if start <= end, otherwise the two halves "
             "start..Dec 31 and Jan 1..end (the copy made by copy(s)), each with the document's weekday mask - and nothing else, in some order; lemma: for "
             "valid dates a wrapping season is the disjoint union of its halves, so the plain start <= (month, day) <= end test of the lookup decides "
             "membership in the document's season. EXHAUSTIVE / BOUNDED (run-time contracts on the "
             "real functions): that each of the five bundled files yields a well-formed list which is total and unambiguous for every (month, day, "
             "weekday) - a finite fact about data, seasons wrapping the new year included -, the constructor's parsing, analysis.energy_cost / demand_charge.",
        note="a datetime is an object with a ghost instant theta; weekday / month / day / hour / minute / second are uninterpreted functions of theta with "
             "their ranges (A-LIB: one fixed zone per run), datetime + k x timedelta(minutes=p) has theta + 60 p k; Decimal arithmetic is exact; "
             "sorted(list of tuples, reverse=True) is a descending rearrangement (A-LIB); TariffSchedule / TimeOfUseTariff constructors (file IO, string "
             "parsing) are outside the verifier's reach and covered exhaustively by the monitor over the five files",
        explanation="proved: the four lookups and the interface alignment for every well-formed schedule list (pyvc/z3); exhaustive over (tariff file, month, day, "
                    "weekday) and bounded otherwise: constructors, data files, analysis costs (rt.fnmon.tariff_monitor)",
        technique="contract-based deductive verification of the lookups over an abstract calendar (pyvc/z3) + exhaustive run-time contract monitor over the bundled data files",
        trusted=["A-LIB datetime: calendar fields are functions of the instant; datetime + timedelta shifts the instant; Decimal = exact rationals; "
                 "sorted() of numeric tuples is a lexicographically ordered rearrangement"],
    ),
    "C19": dict(
        level="other",
        functions=[SN + "plugin", SN + "unplug", SN + "available_evses", SN + "post_charging_update",
                   EQ + "add_event", EQ + "get_event", EQ + "get_current_events", EQ + "empty", EVT + "Event.__lt__",
                   "acnportal.acnsim.network.sites.auto_acn.simple_acn"],
        bounded=[dict(module="rt.fnmon", fn="stochastic_monitor", label="operation sequences on StochasticNetwork against the FCFS model"),
                 dict(module="rt.drivers", fn="stochastic_sim_monitor", label="whole simulations on a StochasticNetwork")],
        text="PROVED (all registries, occupancies, waiting queues, every random choice of a free station; by induction over calls, no bound): the "
             "representation invariant - registry well-formed; every waiting EV is a live object filed under its own session id with no station; every "
             "occupant knows the station it is connected to (hence no EV at two stations and none both waiting and connected; a station holds one EV by "
             "construction); nobody waits while a station is free - is preserved by plugin, unplug and post_charging_update (loop invariant). plugin: the "
             "arriving EV is connected to a station that was free if and only if one exists (whichever random.choice picks), all other stations and the "
             "queue unchanged; otherwise it is appended at the END of the waiting queue, everything else unchanged. unplug: a waiting EV leaves the queue, "
             "is counted as never charged and the others keep their order; a matching departure frees the station when nobody waits, otherwise admits "
             "exactly the FIRST-come waiting EV to that station (swap counted, rest of the queue in order); a stale unplug changes nothing; KeyError / "
             "ValueError exactly for an unknown station / missing session id, state unchanged. post_charging_update never raises, keeps the invariant and "
             "changes nothing without early_departure or when nobody waits. The event queue the arrivals and departures come through (add_event, get_event, "
             "get_current_events, empty, Event.__lt__; shared with C11 / C01): every due event is delivered, in time-then-precedence order. BOUNDED: 'every session is gone by the end of the run', reproducibility under a "
             "seed and the early-departure accounting over whole simulations.",
        note="random.choice(seq) is an arbitrary element of seq (A-LIB, every seed covered); OrderedDict operations (item assignment, move_to_end, "
             "popitem(last=False), del) per A-LIB with well-formedness of a dict value as a type invariant; precondition of plugin: the arriving EV is not "
             "already in the network (a session is plugged in once - C01); reproducibility: sites.simple_acn (the factory the stochastic examples build their "
             "network with) registers stations in the order given - proved; across interpreters nothing else in scope iterates a hash-ordered container",
        explanation="proved: representation invariant preserved + functional postconditions of plugin / unplug / available_evses / post_charging_update (pyvc); "
                    "bounded: whole-run clauses (rt.fnmon.stochastic_monitor, rt.drivers.stochastic_sim_monitor)",
        technique="contract-based deductive verification of a data-structure invariant over an ordered-map abstraction (pyvc/z3) + run-time contract monitor (bounded) for whole runs",
        trusted=["A-LIB: random.choice returns some element of a non-empty sequence; OrderedDict: d[k]=v appends a new key / keeps an existing key's place, "
                 "move_to_end moves the key to the end, popitem(last=False) removes the first key, del removes the key keeping the order of the others; "
                 "a dict value is always well-formed (key list = domain, no repetition)"],
    ),
    "C13": dict(
        level="proof",
        text="Every validity predicate (_valid_rate of the three EVSE classes) is proved equal to the acceptance predicate written "
             "from the property (within 1e-3 A of the allowable set); constructors establish the class invariants (finite list: strictly "
             "increasing, contains 0, same members); set_pilot per receiver class: accepted => pilot recorded and exactly one charge of "
             "the occupant, rejected => InvalidRateError with every heap field unchanged; plugin on an occupied station => "
             "StationOccupiedError, occupant unchanged; every advertised value (max_rate, min_rate, allowable_pilot_signals, factory "
             "products) satisfies the acceptance predicate. All parameters and pilots, no bound.",
        note="floats as reals (a pilot exactly at a boundary +-1e-3 is decided in exact arithmetic); np.isclose/np.any and "
             "set/sorted axioms; the Interface/network-side advertised-value cache is covered under C05/C12 when claimed",
        functions=EVSE_FNS + SET_PILOT,
        lemmas=["C13.advertised_is_accepted"],
        bounded=[dict(module="rt.fnmon", fn="evse_monitor", label="EVSE boundary monitor (IEEE specials the real-arithmetic proof cannot see)")],
        trusted=["np.isclose(a, b, atol, rtol=0) <=> |a-b| <= atol ; np.any over a list is the disjunction (numpy axioms)",
                 "set()/add/sorted(list(set)) yield the strictly increasing list of the distinct members (builtin axioms)"],
    ),
    "C14": dict(
        level="proof",
        text="Battery.charge is proved to draw min(pilot power, max power, power to exactly fill); Linear2StageBattery._charge "
             "(noise off) is proved equal, on every path, to the closed-form solution F of the documented two-stage law written "
             "independently from the docstring; over F alone: F(F(s,h1),h2)=F(s,h1+h2) (so T = T/2 twice), monotone in the duration "
             "and in the pilot, F(s,0)=s; zero pilot delivers nothing; reset restores the initial charge and zero power. All "
             "capacities, charges, powers, transition SoCs, pilots, voltages, periods.",
        note="floats as reals; exp uninterpreted with instantiated axioms (positivity, monotonicity, exp x >= 1+x, product "
             "instances); noise off as the property states",
        functions=[B + "Battery.charge", B + "Battery.reset", B + "Linear2StageBattery.charge",
                   B + "Linear2StageBattery._charge"],
        lemmas=["C14.F_semigroup_monotone", "C14.F_monotone_in_pilot"],
        trusted=[EXP_AXIOMS, "exp(a+b) = exp(a) exp(b) supplied as ground instances inside the C14 lemmas",
                 "the spec function F (contracts/battery.py: F_core) is the closed-form solution of the documented law "
                 "ds/dt = min(r, R(1-s)/(1-tr)); that it solves the ODE is checked by differentiation in the thorough tier"],
    ),
    "C03": dict(
        level="proof",
        text="Every battery charge variant (ideal, two-stage continuous and stepwise, any noise draw), EV.charge and set_pilot for "
             "each EVSE class are symbolically executed from the current source and proved against postconditions 0<=rate<=pilot, "
             "power<=max_power, charge non-decreasing and <=capacity, plus preservation of the battery invariant (which carries the "
             "bound along sequences of pilots). All inputs, no bound.",
        note="floats as reals; exp uninterpreted with instantiated axioms; np.random.normal is an arbitrary real; objects satisfy "
             "their class invariant on entry",
        functions=BATTERY_FNS + [E + "EV.charge", E + "EV.reset"] + SET_PILOT,
        trusted=[EXP_AXIOMS, "np.random.normal returns an arbitrary real (every noise draw is covered)"],
    ),
}

NOT_CLAIMED = {}


def all_verified_functions():
    """every function whose body is verified by some claimed check (a callee contract used elsewhere is discharged there)"""
    out = set()
    for P in PLAN.values():
        out.update(P.get("functions", []))
    return out
