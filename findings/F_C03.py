"""F-C03: continuous two-stage battery with noise: the subtractive noise was not clamped, the returned rate
could be negative and the stored charge could fall.  Passes on the fixed tree."""
import numpy as np
from acnportal.acnsim.models.battery import Linear2StageBattery

rng = np.random.default_rng(0)
bad = 0
for k in range(2000):
    np.random.seed(k)
    b = Linear2StageBattery(50, float(rng.uniform(0, 50)), 6.6, noise_level=1.0)
    c0 = b._current_charge
    r = b.charge(float(rng.uniform(0, 2)), 208, 5)
    if r < 0 or b._current_charge < c0:
        bad += 1
assert bad == 0, f"{bad}/2000 draws gave a negative rate / falling charge"
print("F-C03 ok")
