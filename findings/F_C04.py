"""F-C04: a schedule longer than the remaining horizon submitted in the LAST period (queue drained)
made Simulator._update_schedules evaluate None + 1.  Passes on the fixed tree."""
from datetime import datetime
from acnportal import acnsim
from acnportal.algorithms import BaseAlgorithm


class Long(BaseAlgorithm):
    def schedule(self, active_sessions):
        return {"A": [5, 5, 5, 5, 5]}


net = acnsim.ChargingNetwork()
net.register_evse(acnsim.EVSE("A", max_rate=32), 208, 0)
ev = acnsim.EV(0, 3, 10, "A", "s1", acnsim.Battery(100, 0, 7))
q = acnsim.EventQueue([acnsim.PluginEvent(0, ev)])
sim = acnsim.Simulator(net, Long(), q, datetime(2020, 1, 1), period=5, verbose=False)
sim.run()          # TypeError: unsupported operand type(s) for +: 'NoneType' and 'int'  on the unfixed tree
assert list(sim.pilot_signals[0, :3]) == [5, 5, 5], sim.pilot_signals
assert sim.iteration == 4
print("F-C04 ok")
