"""F-C07: apply_upper_bound_estimate looked the estimator's bound up by station_id although estimators key
their result by session_id; whenever the two differ the bound was silently ignored.  Passes on the fixed tree."""
import numpy as np
from acnportal.acnsim.interface import SessionInfo
from acnportal.algorithms.preprocessing import apply_upper_bound_estimate


class Est:
    def get_maximum_rates(self, sessions):
        return {s.session_id: 9.2 for s in sessions}


s = SessionInfo(station_id="A", session_id="s1", requested_energy=10, energy_delivered=0, arrival=0, departure=5,
                current_time=0, min_rates=0, max_rates=32)
out = apply_upper_bound_estimate(Est(), [s])
assert np.all(out[0].max_rates <= 9.2), out[0].max_rates
print("F-C07 ok")
