"""F-C09: a scheduler exception in the FINAL period (the last event already popped and applied) could not be
resumed: run() saw an empty queue and returned, leaving the last period unscheduled and iteration one short.
Passes on the fixed tree."""
from copy import deepcopy
from datetime import datetime
import numpy as np
from acnportal import acnsim
from acnportal.algorithms import BaseAlgorithm


class Scripted(BaseAlgorithm):
    def __init__(self, fail_at=None):
        super().__init__()
        self.fail_at, self.failed = fail_at, False
        self.max_recompute = 1

    def schedule(self, active_sessions):
        t = self.interface.current_time
        if t == self.fail_at and not self.failed:
            self.failed = True
            raise RuntimeError("boom")
        return {"A": [5], "B": [7]}


def build(fail_at):
    net = acnsim.ChargingNetwork()
    net.register_evse(acnsim.EVSE("A", max_rate=32), 208, 0)
    net.register_evse(acnsim.EVSE("B", max_rate=32), 208, 0)
    ev = acnsim.EV(0, 3, 10, "A", "s1", acnsim.Battery(100, 0, 7))
    q = acnsim.EventQueue([acnsim.PluginEvent(0, ev)])
    return acnsim.Simulator(net, Scripted(fail_at), q, datetime(2020, 1, 1), period=5, verbose=False,
                            store_schedule_history=True)


ref = build(None)
ref.run()
for t in range(4):
    sim = build(t)
    try:
        sim.run()
        raise SystemExit("scheduler did not fail")
    except RuntimeError:
        pass
    sim.run()
    assert sim.iteration == ref.iteration, (t, sim.iteration, ref.iteration)
    assert np.array_equal(sim.pilot_signals, ref.pilot_signals), (t, sim.pilot_signals, ref.pilot_signals)
    assert np.array_equal(sim.charging_rates, ref.charging_rates)
    assert sim.schedule_history == ref.schedule_history, (t, sim.schedule_history, ref.schedule_history)
    assert [type(e).__name__ for e in sim.event_history] == [type(e).__name__ for e in ref.event_history]
print("F-C09 ok")
