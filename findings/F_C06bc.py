"""F-C06b / F-C06c: the 'linear' relaxations were not the documented |A| . s.
 b) ChargingNetwork.constraint_current(linear=True) computed |A . s|: with mixed-sign coefficients it accepts
    schedules the phase-aware check rejects (not conservative).
 c) algorithms.utils.infrastructure_constraints_feasible(linear=True) took a norm across TIME (and raised
    AxisError for a 1-D rate vector).
Passes on the fixed tree."""
import sys
import numpy as np
from datetime import datetime
from acnportal import acnsim
from acnportal.acnsim.interface import Interface
from acnportal.algorithms.utils import infrastructure_constraints_feasible

net = acnsim.ChargingNetwork()
net.register_evse(acnsim.EVSE("A", max_rate=64), 208, 30)
net.register_evse(acnsim.EVSE("C", max_rate=64), 208, 150)
net.add_constraint(acnsim.Current({"A": 1, "C": -1}), 40, name="line")
S = np.array([[30.0], [30.0]])
which = sys.argv[1] if len(sys.argv) > 1 else "bc"
if "b" in which:
    lin, pha = net.is_feasible(S, linear=True), net.is_feasible(S)
    assert not (lin and not pha), f"network linear check accepted ({lin}) what the phasor check rejects ({pha})"
    assert abs(net.constraint_current(S, linear=True)[0, 0]) == 60
if "c" in which:
    sim = acnsim.Simulator(net, None, acnsim.EventQueue(), datetime(2020, 1, 1), period=5, verbose=False)
    info = Interface(sim).infrastructure_info()
    # two periods, each feasible on its own for the linear reading (|1|*20+|-1|*15 = 35 <= 40)
    R = np.array([[20.0, 20.0], [15.0, 15.0]])
    assert infrastructure_constraints_feasible(R, info, linear=True), "per-period feasible schedule rejected (norm over time)"
    assert infrastructure_constraints_feasible(np.array([20.0, 15.0]), info, linear=True)
    assert not infrastructure_constraints_feasible(S, info, linear=True)
print("F-C06" + which + " ok")
