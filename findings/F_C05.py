"""F-C05: Interface.get_constraints() handed the scheduler the network's own constraint_index list and
magnitudes array; mutating them altered the simulation.  Passes on the fixed tree."""
from datetime import datetime
from acnportal import acnsim
from acnportal.acnsim.interface import Interface

net = acnsim.ChargingNetwork()
net.register_evse(acnsim.EVSE("A", max_rate=32), 208, 0)
net.add_constraint(acnsim.Current(["A"]), 20, name="c0")
sim = acnsim.Simulator(net, None, acnsim.EventQueue(), datetime(2020, 1, 1), period=5, verbose=False)
iface = Interface(sim)
c = iface.get_constraints()
c.constraint_index.append("bogus")
c.magnitudes[0] = 1e9
c.evse_index.append("ZZ")
assert net.constraint_index == ["c0"], net.constraint_index
assert net.magnitudes[0] == 20, net.magnitudes
assert net.station_ids == ["A"]
print("F-C05 ok")
