"""F-C12: the Current algebra did not compose: c * Current was a plain pandas Series, Current + (c * Current)
returned None (the TypeError was constructed, not raised) and (c * Current) - Current used pandas subtraction
(NaN for stations present on one side only).  Passes on the fixed tree."""
import math
from acnportal.acnsim import Current

a, b = Current({"A": 1, "B": 2}), Current({"B": 1, "C": 3})
m = 2 * a
assert isinstance(m, Current) and dict(m) == {"A": 2, "B": 4}, (type(m), dict(m))
assert isinstance(a * 2, Current) and dict(a * 2) == {"A": 2, "B": 4}
s = b + 2 * a
assert isinstance(s, Current) and dict(s) == {"A": 2, "B": 5, "C": 3}, s
d = 2 * a - b
assert isinstance(d, Current) and not any(math.isnan(v) for v in d.values), d
assert dict(d) == {"A": 2, "B": 3, "C": -3}, dict(d)
try:
    a + 3
    raise SystemExit("adding a non-Current must raise TypeError")
except TypeError:
    pass
print("F-C12 ok")
