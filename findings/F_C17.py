"""F-C17: pge_a10_tou_aug_2019 declared both winter schedules for ALL days, so every lookup from 1 Nov to
30 Apr raised 'More than one tariff schedule is valid'.  Passes on the fixed tree."""
from datetime import datetime, timedelta
from acnportal.signals.tariffs import TimeOfUseTariff

t = TimeOfUseTariff("pge_a10_tou_aug_2019")
d = datetime(2019, 1, 1)
bad = 0
for k in range(366 + 365):
    try:
        t.get_tariff(d + timedelta(days=k, hours=9))
    except ValueError:
        bad += 1
assert bad == 0, f"{bad} of 731 days have no unique schedule"
print("F-C17 ok")
