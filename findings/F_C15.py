"""F-C15: batt_cap_fn's closed-form branch returned the initial state of charge (a fraction) where the caller
expects the initial charge in kWh; charging at full rate for the stay then delivered far more than requested.
Passes on the fixed tree."""
from acnportal.acnsim.models.battery import batt_cap_fn, Linear2StageBattery

for req, stay in [(0.5, 12), (1.0, 30), (3.0, 100), (6.0, 40), (20.0, 60)]:
    cap, init = batt_cap_fn(req, stay, 208, 5)
    b = Linear2StageBattery(cap, init, 32 * 208 / 1000)
    for _ in range(stay):
        b.charge(32, 208, 5)
    delivered = b._current_charge - init
    assert abs(delivered - req) < 1e-6 * max(1, req), (req, stay, cap, init, delivered)
print("F-C15 ok")
