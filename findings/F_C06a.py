"""F-C06a: a network without constraints (constraint_matrix is None) crashed Interface.infrastructure_info(),
so every scheduler that looks at the infrastructure was unusable on it.  Passes on the fixed tree."""
from datetime import datetime
from acnportal import acnsim, algorithms

net = acnsim.ChargingNetwork()
net.register_evse(acnsim.EVSE("A", max_rate=32), 208, 0)
ev = acnsim.EV(0, 3, 2, "A", "s1", acnsim.Battery(100, 0, 7))
for sch in (algorithms.UncontrolledCharging(), algorithms.SortedSchedulingAlgo(algorithms.first_come_first_served)):
    from copy import deepcopy
    q = acnsim.EventQueue([acnsim.PluginEvent(0, deepcopy(ev))])
    sim = acnsim.Simulator(deepcopy(net), sch, q, datetime(2020, 1, 1), period=5, verbose=False)
    sim.run()
    assert sim.charging_rates[0, 0] == 32, sim.charging_rates
    info = sim.scheduler.interface.infrastructure_info() if hasattr(sim.scheduler, "interface") else None
    assert info.constraint_matrix.shape == (0, 1) and len(info.constraint_limits) == 0
print("F-C06a ok")
