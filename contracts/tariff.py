"""Contracts for acnportal/signals/tariffs/tou_tariff.py  (C17: lookups), Interface.get_prices / get_demand_charge (alignment).

The lookups are proved for EVERY well-formed schedule list (any number of schedules, seasons, masks, breakpoints).  That the five bundled
files yield well-formed, total and unambiguous lists is a finite fact about data, checked exhaustively by the monitor."""
import z3
from pyvc.vtypes import FA
from pyvc.contracts_api import REG, C, RaiseSpec, LoopSpec
from pyvc.dsl import And, Or, Not, Implies, If, Eq, IsNone, AllIdx, AnyIdx, With
from pyvc.vtypes import Real, Int, Bool, Id, Ref, Opt, Seq, Tup, Map, IdSort, RefSort
from pyvc import vtypes as ty
from pyvc.timelib import CAL

T = "acnportal.signals.tariffs.tou_tariff.TimeOfUseTariff."

REG.schema("TariffSchedule", start=Tup(Int, Int), end=Tup(Int, Int), dow_mask=Seq(Bool), tariffs=Seq(Tup(Real, Real)), demand_charge=Real)
REG.schema("TimeOfUseTariff", _schedule=Seq(Ref("TariffSchedule")), name=Id, effective=Id)


def lex_le(a, b):
    return z3.Or(a[0] < b[0], z3.And(a[0] == b[0], a[1] <= b[1]))


def sched(s, tariff, k):
    return s.obj(ty.sel(tariff._schedule.v.arrs[0], k), "TariffSchedule")


def applies(s, sc, theta):
    """the schedule is in effect at the instant theta: its weekday mask admits the weekday and (month, day) lies in its inclusive season"""
    md = (CAL["month"](theta), CAL["day"](theta))
    return z3.And(ty.sel(sc.dow_mask.v.arrs[0], CAL["weekday"](theta)), lex_le(sc.start, md), lex_le(md, sc.end))


def schedules_wf(s, tariff):
    """every schedule is a live object with a 7-day mask and a non-empty breakpoint list that starts at hour 0"""
    k = z3.Int("k!swf")
    sc = sched(s, tariff, k)
    return FA([k], z3.Implies(z3.And(k >= 0, k < tariff._schedule.len),
                              z3.And(sc.ref != 0, s.alloc_ref(sc.ref), sc.dow_mask.len == 7, sc.tariffs.len >= 1,
                                     ty.sel(sc.tariffs.v.arrs[0], 0) == 0)),
              patterns=[ty.sel(tariff._schedule.v.arrs[0], k)])


def exactly_one(s, tariff, theta):
    k, j = z3.Int("k!e1"), z3.Int("j!e1")
    n = tariff._schedule.len
    return z3.Exists([k], z3.And(k >= 0, k < n, applies(s, sched(s, tariff, k), theta),
                                 FA([j], z3.Implies(z3.And(j >= 0, j < n, j != k), z3.Not(applies(s, sched(s, tariff, j), theta))))))


def is_the_one(s, tariff, theta, ret):
    k, j = z3.Int("k!t1"), z3.Int("j!t1")
    n = tariff._schedule.len
    return z3.Exists([k], z3.And(k >= 0, k < n, ty.sel(tariff._schedule.v.arrs[0], k) == ret.ref, applies(s, sched(s, tariff, k), theta),
                                 FA([j], z3.Implies(z3.And(j >= 0, j < n, j != k), z3.Not(applies(s, sched(s, tariff, j), theta))))))


REG.contract(
    T + "_get_tariff_schedule", params=dict(self=Ref("TimeOfUseTariff"), date_time=Ref("datetime")), ret=Ref("TariffSchedule"), modifies=[],
    requires=[C("wf", lambda s: schedules_wf(s, s.self))],
    raises=[RaiseSpec("ValueError", lambda s: Not(exactly_one(s, s.self, s.date_time.theta)), iff=True, unchanged=True)],
    ensures=[C("C17.the_unique_schedule_in_effect", lambda old, new, ret: is_the_one(old, old.self, old.date_time.theta, ret))],
)


def hour_of(theta):
    return z3.ToReal(CAL["hour"](theta)) + z3.ToReal(CAL["minute"](theta)) / 60 + z3.ToReal(CAL["second"](theta)) / 3600


def rate_at(sc, hour, ret):
    """ret is the rate of the latest breakpoint at or before `hour` (ties between equal breakpoint times: the lexicographically largest entry)"""
    k, j = z3.Int("k!ra"), z3.Int("j!ra")
    tm = lambda x: ty.sel(sc.tariffs.v.arrs[0], x)
    rt = lambda x: ty.sel(sc.tariffs.v.arrs[1], x)
    n = sc.tariffs.len
    return z3.Exists([k], z3.And(k >= 0, k < n, tm(k) <= hour, rt(k) == ret,
                                 FA([j], z3.Implies(z3.And(j >= 0, j < n, tm(j) <= hour), lex_le((tm(j), rt(j)), (tm(k), rt(k)))))))


def price(s, tariff, theta, ret):
    """specification of a lookup: the unique schedule in effect at theta, and in it the latest breakpoint at or before the time of day"""
    k, j = z3.Int("k!pr"), z3.Int("j!pr")
    n = tariff._schedule.len
    return z3.Exists([k], z3.And(k >= 0, k < n, applies(s, sched(s, tariff, k), theta),
                                 FA([j], z3.Implies(z3.And(j >= 0, j < n, j != k), z3.Not(applies(s, sched(s, tariff, j), theta)))),
                                 rate_at(sched(s, tariff, k), hour_of(theta), ret)))


def _gt_inv(s):
    """the breakpoints visited so far (in descending order) are all later than the time of day"""
    it = s._iter
    j = z3.Int("j!gt")
    return [("earlier_entries_are_after_the_target_hour", FA([j], z3.Implies(z3.And(j >= 0, j < s._k), ty.sel(it.v.arrs[0], j) > s.target_hour),
                                                             patterns=[ty.sel(it.v.arrs[0], j)]))]


REG.contract(
    T + "get_tariff", params=dict(self=Ref("TimeOfUseTariff"), date_time=Ref("datetime")), ret=Real, modifies=[],
    requires=[C("wf", lambda s: schedules_wf(s, s.self))],
    raises=[RaiseSpec("ValueError", lambda s: Not(exactly_one(s, s.self, s.date_time.theta)), iff=True, unchanged=True)],
    ensures=[C("C17.rate_of_the_latest_breakpoint_of_the_schedule_in_effect", lambda old, new, ret: price(old, old.self, old.date_time.theta, ret))],
    loops={0: LoopSpec(invariant=_gt_inv)},
)

REG.contract(
    T + "get_demand_charge", params=dict(self=Ref("TimeOfUseTariff"), date_time=Ref("datetime")), ret=Real, modifies=[],
    requires=[C("wf", lambda s: schedules_wf(s, s.self))],
    raises=[RaiseSpec("ValueError", lambda s: Not(exactly_one(s, s.self, s.date_time.theta)), iff=True, unchanged=True)],
    ensures=[C("C17.demand_charge_of_the_schedule_in_effect", lambda old, new, ret: z3.Exists(
        [z3.Int("k!dc")], z3.And(z3.Int("k!dc") >= 0, z3.Int("k!dc") < old.self._schedule.len,
                                applies(old, sched(old, old.self, z3.Int("k!dc")), old.date_time.theta),
                                sched(old, old.self, z3.Int("k!dc")).demand_charge == ret)))],
)


def _gts_post(old, new, ret):
    t = z3.Int("t!gts")
    theta0 = old.start.theta
    return [("one_price_per_period", ret.len == If(old.length >= 0, old.length, 0)),
            ("C17.entry_k_is_the_lookup_at_start_plus_k_periods",
             FA([t], z3.Implies(z3.And(t >= 0, t < ret.len), price(old, old.self, theta0 + (old.period * 60) * z3.ToReal(t), ty.sel(ret.v.arrs[0], t)))))]


def total_over(s, tariff, theta0, period, length):
    """every instant start + k x period (k < length) has exactly one schedule in effect"""
    t = z3.Int("t!tot")
    return FA([t], z3.Implies(z3.And(t >= 0, t < length), exactly_one(s, tariff, theta0 + (period * 60) * z3.ToReal(t))))


REG.contract(
    T + "get_tariffs", params=dict(self=Ref("TimeOfUseTariff"), start=Ref("datetime"), length=Int, period=Real), ret=Seq(Real),
    modifies=["alloc", ("datetime.theta", "FRESH")],
    requires=[C("wf", lambda s: schedules_wf(s, s.self))],
    raises=[RaiseSpec("ValueError", lambda s: Not(total_over(s, s.self, s.start.theta, s.period, s.length)), iff=True, unchanged=False)],
    ensures=[C("C17.price_vector", _gts_post)],
)


# ---------------------------------------------------------------------------- Interface: prices aligned with simulation time
IF = "acnportal.acnsim.interface.Interface."


def sim_tariff(s, iface):
    sim = iface._simulator
    return s.obj(z3.Select(sim.signals._v.arrs[0], ty.id_const("tariff")), "TimeOfUseTariff")


def period_theta(s, iface, k, k2=None):
    """the instant at which simulation period k (+ k2) begins: start + period x 60 s x (k + k2), written distributed over the two summands
    (lemma C17.period_offsets_add: the two forms are equal)"""
    sim = iface._simulator
    base = sim.start.theta + (sim.period * 60) * z3.ToReal(k)
    return base if k2 is None else base + (sim.period * 60) * z3.ToReal(k2)


def _first_period(s):
    return If(s.start.isnone, s.self._simulator._iteration, s.start.val)


def _gp_post(old, new, ret):
    t = z3.Int("t!gp")
    first = _first_period(old)
    tar = sim_tariff(old, old.self)
    entry = lambda f: FA([t], z3.Implies(z3.And(t >= 0, t < ret.len), price(old, tar, period_theta(old, old.self, f, t), ty.sel(ret.v.arrs[0], t))))
    return [("one_price_per_period", ret.len == If(old.length >= 0, old.length, 0)),
            ("C17.entry_k_is_the_price_of_simulation_period_current_plus_k", Implies(old.start.isnone, entry(old.self._simulator._iteration))),
            ("C17.entry_k_is_the_price_of_simulation_period_start_plus_k", Implies(Not(old.start.isnone), entry(old.start.val)))]


def _has_tariff(s):
    return z3.Select(s.self._simulator.signals._v.dom, ty.id_const("tariff"))


def _gp_total(s):
    t = z3.Int("t!gpt")
    first = _first_period(s)
    return FA([t], z3.Implies(z3.And(t >= 0, t < s.length), exactly_one(s, sim_tariff(s, s.self), period_theta(s, s.self, first, t))))


REG.contract(
    IF + "get_prices", params=dict(self=Ref("Interface"), length=Int, start=Opt(Int)), ret=Seq(Real), modifies=["alloc", ("datetime.theta", "FRESH")],
    requires=[C("wf", lambda s: Implies(_has_tariff(s), And(sim_tariff(s, s.self).ref != 0, s.alloc_ref(sim_tariff(s, s.self).ref), schedules_wf(s, sim_tariff(s, s.self)))))],
    raises=[RaiseSpec("ValueError", lambda s: Or(Not(_has_tariff(s)), Not(_gp_total(s))), iff=True, unchanged=False)],
    ensures=[C("C17.prices_aligned_with_simulation_time", _gp_post)],
)

REG.contract(
    IF + "get_demand_charge", params=dict(self=Ref("Interface"), start=Opt(Int)), ret=Real, modifies=["alloc", ("datetime.theta", "FRESH")],
    requires=[C("wf", lambda s: Implies(_has_tariff(s), And(sim_tariff(s, s.self).ref != 0, s.alloc_ref(sim_tariff(s, s.self).ref), schedules_wf(s, sim_tariff(s, s.self)))))],
    raises=[RaiseSpec("ValueError", lambda s: Or(Not(_has_tariff(s)), Not(exactly_one(s, sim_tariff(s, s.self), period_theta(s, s.self, _first_period(s))))),
                      iff=True, unchanged=False)],
    ensures=[C("C17.demand_charge_of_the_schedule_in_effect_at_that_period", lambda old, new, ret: z3.Exists(
        [z3.Int("k!idc")], z3.And(z3.Int("k!idc") >= 0, z3.Int("k!idc") < sim_tariff(old, old.self)._schedule.len,
                                 applies(old, sched(old, sim_tariff(old, old.self), z3.Int("k!idc")), period_theta(old, old.self, _first_period(old))),
                                 sched(old, sim_tariff(old, old.self), z3.Int("k!idc")).demand_charge == ret)))],
)


def _offsets_add():
    p, th = z3.Reals("lem_p lem_theta")
    a, b = z3.Ints("lem_a lem_b")
    return [("start_plus_a_periods_plus_b_periods_is_start_plus_a_plus_b_periods", [],
             th + (p * 60) * z3.ToReal(a) + (p * 60) * z3.ToReal(b) == th + (p * 60) * z3.ToReal(a + b))]


REG.lemma("C17.period_offsets_add", _offsets_add, props=("C17",))


# ---------------------------------------------------------------------------- the constructor: seasons that wrap the new year are split (C17)
TS = "acnportal.signals.tariffs.tou_tariff.TariffSchedule."
REG.schema("ScheduleDoc")
PARSED = {f: z3.Function("parsed_" + f, RefSort, srt) for f, srt in
          (("start_m", z3.IntSort()), ("start_d", z3.IntSort()), ("end_m", z3.IntSort()), ("end_d", z3.IntSort()),
           ("mask", z3.ArraySort(z3.IntSort(), z3.BoolSort())))}

REG.contract(
    TS + "__init__", params=dict(self=Ref("TariffSchedule"), doc=Ref("ScheduleDoc")),
    assumed="parsing of one schedule document (str.split / int / Decimal / list sort: outside the verifier's reach, monitored exhaustively on the five bundled "
            "files): the fields are functions of the document; the mask has 7 entries, the breakpoint list is non-empty and starts at hour 0",
    raises=[RaiseSpec("ValueError", lambda s: True, iff=False, unchanged=False)],
    modifies=[("TariffSchedule." + f, lambda s: [s.self]) for f in ("start", "end", "dow_mask", "tariffs", "demand_charge")],
    ensures=[C("parsed", lambda old, new, ret: And(new.self.start[0] == PARSED["start_m"](old.doc.ref), new.self.start[1] == PARSED["start_d"](old.doc.ref),
                                                   new.self.end[0] == PARSED["end_m"](old.doc.ref), new.self.end[1] == PARSED["end_d"](old.doc.ref),
                                                   new.self.dow_mask.len == 7, new.self.dow_mask.v.arrs[0] == PARSED["mask"](old.doc.ref),
                                                   new.self.tariffs.len >= 1, ty.sel(new.self.tariffs.v.arrs[0], 0) == 0))])


def _tariff_file(ex, st):
    from pyvc.state import PyDict
    docs = ty.named(Seq(Ref("ScheduleDoc")), "file.schedule")
    ex.assume_wf(st, Seq(Ref("ScheduleDoc")), docs)
    st.ghost["file_docs"] = docs
    return PyDict({"name": z3.Const("file.name", IdSort), "effective": z3.Const("file.effective", IdSort), "schedule": docs})


def _doc_season(docs, i):
    d = ty.sel(docs.v.arrs[0], i)
    return (PARSED["start_m"](d), PARSED["start_d"](d)), (PARSED["end_m"](d), PARSED["end_d"](d)), PARSED["mask"](d)


def _eq2(a, b):
    return z3.And(a[0] == b[0], a[1] == b[1])


def _wraps(st_, en_):
    return z3.Not(lex_le(st_, en_))


JAN1 = (z3.IntVal(1), z3.IntVal(1))
DEC31 = (z3.IntVal(12), z3.IntVal(31))


def _is_piece_of(sc, st_, en_, mask):
    """the schedule is one of the pieces document (st_, en_, mask) is split into: the season itself if it does not wrap the new year, otherwise its
    first half start..Dec 31 or its second half Jan 1..end; same weekday mask"""
    w = _wraps(st_, en_)
    return z3.And(sc.dow_mask.v.arrs[0] == mask, sc.dow_mask.len == 7,
                  z3.If(w, z3.Or(z3.And(_eq2(sc.start, st_), _eq2(sc.end, DEC31)), z3.And(_eq2(sc.start, JAN1), _eq2(sc.end, en_))),
                        z3.And(_eq2(sc.start, st_), _eq2(sc.end, en_))))


def _ctor_inv(s):
    docs = s.file_docs
    tar = s.self
    S, T_, src, pos = tar._schedule, s.to_add, s.add_src, s.add_pos
    j, a, b = z3.Int("j!tci"), z3.Int("a!tci"), z3.Int("b!tci")
    sc = lambda jj: sched(s, tar, jj)
    ta = lambda aa: s.obj(ty.sel(T_.v.arrs[0], aa), "TariffSchedule")
    sa = lambda aa: ty.sel(src.v.arrs[0], aa)
    pa = lambda jj: ty.sel(pos.v.arrs[0], jj)
    out = [
        ("one_schedule_per_document", And(S.len == docs.len, T_.len == src.len, pos.len == s._k, T_.len >= 0)),
        ("schedules_are_live_distinct_objects", And(
            FA([j], z3.Implies(z3.And(j >= 0, j < S.len), z3.And(sc(j).ref != 0, s.alloc_ref(sc(j).ref))), patterns=[ty.sel(S.v.arrs[0], j)]),
            FA([j, b], z3.Implies(z3.And(j >= 0, j < b, b < S.len), sc(j).ref != sc(b).ref), patterns=[z3.MultiPattern(ty.sel(S.v.arrs[0], j), ty.sel(S.v.arrs[0], b))]))),
        ("visited_wrapping_schedules_end_on_dec_31_the_others_are_as_parsed",
         FA([j], z3.Implies(z3.And(j >= 0, j < S.len), z3.And(
             _eq2(sc(j).start, _doc_season(docs, j)[0]), sc(j).dow_mask.v.arrs[0] == _doc_season(docs, j)[2], sc(j).dow_mask.len == 7,
             _eq2(sc(j).end, (z3.If(z3.And(j < s._k, _wraps(*_doc_season(docs, j)[:2])), DEC31[0], _doc_season(docs, j)[1][0]),
                              z3.If(z3.And(j < s._k, _wraps(*_doc_season(docs, j)[:2])), DEC31[1], _doc_season(docs, j)[1][1]))))),
            patterns=[ty.sel(S.v.arrs[0], j)])),
        ("every_added_copy_is_the_second_half_of_a_visited_wrapping_schedule",
         FA([a], z3.Implies(z3.And(a >= 0, a < T_.len), z3.And(
             sa(a) >= 0, sa(a) < s._k, _wraps(*_doc_season(docs, sa(a))[:2]), pa(sa(a)) == a, ta(a).ref != 0, s.alloc_ref(ta(a).ref),
             _eq2(ta(a).start, JAN1), _eq2(ta(a).end, _doc_season(docs, sa(a))[1]), ta(a).dow_mask.v.arrs[0] == _doc_season(docs, sa(a))[2], ta(a).dow_mask.len == 7)),
            patterns=[ty.sel(T_.v.arrs[0], a)])),
        ("copies_are_new_objects", FA([a, j], z3.Implies(z3.And(a >= 0, a < T_.len, j >= 0, j < S.len), ta(a).ref != sc(j).ref),
                                      patterns=[z3.MultiPattern(ty.sel(T_.v.arrs[0], a), ty.sel(S.v.arrs[0], j))])),
        ("every_visited_wrapping_schedule_has_its_copy",
         FA([j], z3.Implies(z3.And(j >= 0, j < s._k, _wraps(*_doc_season(docs, j)[:2])), z3.And(pa(j) >= 0, pa(j) < T_.len, sa(pa(j)) == j)), patterns=[pa(j)])),
    ]
    return out


def _appended(cond, seq_view, x):
    v = seq_view.v
    return ty.SeqV(v.elem, [z3.If(cond, z3.Store(v.arrs[0], v.len, ty.to_z3num(x)), v.arrs[0])], z3.If(cond, v.len + 1, v.len))


def _ctor_post(old, new, ret):
    """C17: after construction every schedule is a piece of some document's season (whole if it does not wrap the new year, otherwise one of its halves)
    and every piece of every document is there - so a date lies in a document's (possibly wrapping) season iff it lies in the plain range of one of
    its pieces (lemma C17.a_wrapping_season_is_the_union_of_its_halves)"""
    docs = new.file_docs
    tar = new.self
    R = tar._schedule
    k, i, k2 = z3.Int("k!tcp"), z3.Int("i!tcp"), z3.Int("k2!tcp")
    sc = lambda kk: sched(new, tar, kk)
    piece = lambda kk, ii: _is_piece_of(sc(kk), *_doc_season(docs, ii))
    st_i, en_i, mk_i = _doc_season(docs, i)
    has = lambda a_, b_: z3.Exists([k2], z3.And(k2 >= 0, k2 < R.len, _eq2(sc(k2).start, a_), _eq2(sc(k2).end, b_), sc(k2).dow_mask.v.arrs[0] == mk_i))
    # witnesses (proof hints): where the final rearrangement put document i's own schedule and, for a wrapping season, its copy (ghost add_pos)
    from pyvc.seqlib import SORTQ
    Ra = R.v.arrs[0]
    k_own = SORTQ(Ra, i)
    k_copy = SORTQ(Ra, docs.len + ty.sel(new.add_pos.v.arrs[0], i))
    at = lambda kk, a_, b_: z3.And(kk >= 0, kk < R.len, _eq2(sc(kk).start, a_), _eq2(sc(kk).end, b_), sc(kk).dow_mask.v.arrs[0] == mk_i)
    located = FA([i], z3.Implies(z3.And(i >= 0, i < docs.len), z3.If(_wraps(st_i, en_i), z3.And(at(k_own, st_i, DEC31), at(k_copy, JAN1, en_i)), at(k_own, st_i, en_i))),
                 patterns=[ty.sel(docs.v.arrs[0], i)])
    return [
        ("C17.every_schedule_is_a_piece_of_some_documents_season", FA([k], z3.Implies(z3.And(k >= 0, k < R.len), z3.Exists([i], z3.And(i >= 0, i < docs.len, piece(k, i)))),
                                                                      patterns=[ty.sel(R.v.arrs[0], k)])),
        ("C17.every_piece_of_every_documents_season_is_a_schedule",
         With(FA([i], z3.Implies(z3.And(i >= 0, i < docs.len), z3.If(_wraps(st_i, en_i), z3.And(has(st_i, DEC31), has(JAN1, en_i)), has(st_i, en_i))),
                 patterns=[ty.sel(docs.v.arrs[0], i)]), [located])),
    ]


REG.contract(
    T + "__init__", params=dict(self=Ref("TimeOfUseTariff"), filename=Id, tariff_dir=Id),
    raises=[RaiseSpec("ValueError", lambda s: True, iff=False, unchanged=False)],
    modifies=[("TimeOfUseTariff._schedule", lambda s: [s.self]), ("TimeOfUseTariff.name", lambda s: [s.self]), ("TimeOfUseTariff.effective", lambda s: [s.self]), "alloc"]
             + [("TariffSchedule." + f, "FRESH") for f in ("start", "end", "dow_mask", "tariffs", "demand_charge")],
    ensures=[C("C17.wrapping_seasons_are_split", _ctor_post, props=("C17",))],
    loops={0: LoopSpec(invariant=_ctor_inv, locals=dict(to_add=Seq(Ref("TariffSchedule"))),
                       modifies=["alloc"] + [("TariffSchedule." + f, "NEW") for f in ("start", "end", "dow_mask", "tariffs", "demand_charge")],
                       ghost=lambda s: dict(add_src=[], add_pos=[]), ghost_vars=dict(add_src=Seq(Int), add_pos=Seq(Int)),
                       ghost_step=lambda head, end: dict(
                           add_src=_appended(end.to_add.len > head.to_add.len, head.add_src, head._k),
                           add_pos=_appended(z3.BoolVal(True), head.add_pos, z3.If(end.to_add.len > head.to_add.len, head.to_add.len, -1))))},
    extra=dict(json_load=_tariff_file),
)


def _halves_lemma():
    """for valid calendar dates: a date lies in a season that wraps the new year (start..Dec 31, Jan 1..end) iff it lies in one of the two plain halves"""
    sm, sd, em, ed, m, d = z3.Ints("wl_sm wl_sd wl_em wl_ed wl_m wl_d")
    st_, en_, md = (sm, sd), (em, ed), (m, d)
    valid = z3.And(m >= 1, m <= 12, d >= 1, d <= 31)
    plain = lambda a_, b_: z3.And(lex_le(a_, md), lex_le(md, b_))
    return [("a_wrapping_season_is_the_union_of_its_halves", [valid, _wraps(st_, en_)],
             z3.Or(lex_le(st_, md), lex_le(md, en_)) == z3.Or(plain(st_, DEC31), plain(JAN1, en_))),
            ("the_halves_do_not_overlap", [valid, _wraps(st_, en_)], z3.Not(z3.And(plain(st_, DEC31), plain(JAN1, en_))))]


REG.lemma("C17.a_wrapping_season_is_the_union_of_its_halves", _halves_lemma, props=("C17",))
