"""Contracts for acnportal/signals/tariffs/tou_tariff.py  (C17: lookups), Interface.get_prices / get_demand_charge (alignment).

The lookups are proved for EVERY well-formed schedule list (any number of schedules, seasons, masks, breakpoints).  That the five bundled
files yield well-formed, total and unambiguous lists is a finite fact about data, checked exhaustively by the monitor."""
import z3
from pyvc.vtypes import FA
from pyvc.contracts_api import REG, C, RaiseSpec, LoopSpec
from pyvc.dsl import And, Or, Not, Implies, If, Eq, IsNone, AllIdx, AnyIdx
from pyvc.vtypes import Real, Int, Bool, Id, Ref, Opt, Seq, Tup, Map, IdSort, RefSort
from pyvc import vtypes as ty
from pyvc.timelib import CAL

T = "acnportal.signals.tariffs.tou_tariff.TimeOfUseTariff."

REG.schema("TariffSchedule", start=Tup(Int, Int), end=Tup(Int, Int), dow_mask=Seq(Bool), tariffs=Seq(Tup(Real, Real)), demand_charge=Real)
REG.schema("TimeOfUseTariff", _schedule=Seq(Ref("TariffSchedule")))


def lex_le(a, b):
    return z3.Or(a[0] < b[0], z3.And(a[0] == b[0], a[1] <= b[1]))


def sched(s, tariff, k):
    return s.obj(ty.sel(tariff._schedule.v.arrs[0], k), "TariffSchedule")


def applies(s, sc, theta):
    """the schedule is in effect at the instant theta: its weekday mask admits the weekday and (month, day) lies in its inclusive season"""
    md = (CAL["month"](theta), CAL["day"](theta))
    return z3.And(ty.sel(sc.dow_mask.v.arrs[0], CAL["weekday"](theta)), lex_le(sc.start, md), lex_le(md, sc.end))


def schedules_wf(s, tariff):
    """every schedule is a live object with a 7-day mask and a non-empty breakpoint list that starts at hour 0"""
    k = z3.Int("k!swf")
    sc = sched(s, tariff, k)
    return FA([k], z3.Implies(z3.And(k >= 0, k < tariff._schedule.len),
                              z3.And(sc.ref != 0, s.alloc_ref(sc.ref), sc.dow_mask.len == 7, sc.tariffs.len >= 1,
                                     ty.sel(sc.tariffs.v.arrs[0], 0) == 0)),
              patterns=[ty.sel(tariff._schedule.v.arrs[0], k)])


def exactly_one(s, tariff, theta):
    k, j = z3.Int("k!e1"), z3.Int("j!e1")
    n = tariff._schedule.len
    return z3.Exists([k], z3.And(k >= 0, k < n, applies(s, sched(s, tariff, k), theta),
                                 FA([j], z3.Implies(z3.And(j >= 0, j < n, j != k), z3.Not(applies(s, sched(s, tariff, j), theta))))))


def is_the_one(s, tariff, theta, ret):
    k, j = z3.Int("k!t1"), z3.Int("j!t1")
    n = tariff._schedule.len
    return z3.Exists([k], z3.And(k >= 0, k < n, ty.sel(tariff._schedule.v.arrs[0], k) == ret.ref, applies(s, sched(s, tariff, k), theta),
                                 FA([j], z3.Implies(z3.And(j >= 0, j < n, j != k), z3.Not(applies(s, sched(s, tariff, j), theta))))))


REG.contract(
    T + "_get_tariff_schedule", params=dict(self=Ref("TimeOfUseTariff"), date_time=Ref("datetime")), ret=Ref("TariffSchedule"), modifies=[],
    requires=[C("wf", lambda s: schedules_wf(s, s.self))],
    raises=[RaiseSpec("ValueError", lambda s: Not(exactly_one(s, s.self, s.date_time.theta)), iff=True, unchanged=True)],
    ensures=[C("C17.the_unique_schedule_in_effect", lambda old, new, ret: is_the_one(old, old.self, old.date_time.theta, ret))],
)


def hour_of(theta):
    return z3.ToReal(CAL["hour"](theta)) + z3.ToReal(CAL["minute"](theta)) / 60 + z3.ToReal(CAL["second"](theta)) / 3600


def rate_at(sc, hour, ret):
    """ret is the rate of the latest breakpoint at or before `hour` (ties between equal breakpoint times: the lexicographically largest entry)"""
    k, j = z3.Int("k!ra"), z3.Int("j!ra")
    tm = lambda x: ty.sel(sc.tariffs.v.arrs[0], x)
    rt = lambda x: ty.sel(sc.tariffs.v.arrs[1], x)
    n = sc.tariffs.len
    return z3.Exists([k], z3.And(k >= 0, k < n, tm(k) <= hour, rt(k) == ret,
                                 FA([j], z3.Implies(z3.And(j >= 0, j < n, tm(j) <= hour), lex_le((tm(j), rt(j)), (tm(k), rt(k)))))))


def price(s, tariff, theta, ret):
    """specification of a lookup: the unique schedule in effect at theta, and in it the latest breakpoint at or before the time of day"""
    k, j = z3.Int("k!pr"), z3.Int("j!pr")
    n = tariff._schedule.len
    return z3.Exists([k], z3.And(k >= 0, k < n, applies(s, sched(s, tariff, k), theta),
                                 FA([j], z3.Implies(z3.And(j >= 0, j < n, j != k), z3.Not(applies(s, sched(s, tariff, j), theta)))),
                                 rate_at(sched(s, tariff, k), hour_of(theta), ret)))


def _gt_inv(s):
    """the breakpoints visited so far (in descending order) are all later than the time of day"""
    it = s._iter
    j = z3.Int("j!gt")
    return [("earlier_entries_are_after_the_target_hour", FA([j], z3.Implies(z3.And(j >= 0, j < s._k), ty.sel(it.v.arrs[0], j) > s.target_hour),
                                                             patterns=[ty.sel(it.v.arrs[0], j)]))]


REG.contract(
    T + "get_tariff", params=dict(self=Ref("TimeOfUseTariff"), date_time=Ref("datetime")), ret=Real, modifies=[],
    requires=[C("wf", lambda s: schedules_wf(s, s.self))],
    raises=[RaiseSpec("ValueError", lambda s: Not(exactly_one(s, s.self, s.date_time.theta)), iff=True, unchanged=True)],
    ensures=[C("C17.rate_of_the_latest_breakpoint_of_the_schedule_in_effect", lambda old, new, ret: price(old, old.self, old.date_time.theta, ret))],
    loops={0: LoopSpec(invariant=_gt_inv)},
)

REG.contract(
    T + "get_demand_charge", params=dict(self=Ref("TimeOfUseTariff"), date_time=Ref("datetime")), ret=Real, modifies=[],
    requires=[C("wf", lambda s: schedules_wf(s, s.self))],
    raises=[RaiseSpec("ValueError", lambda s: Not(exactly_one(s, s.self, s.date_time.theta)), iff=True, unchanged=True)],
    ensures=[C("C17.demand_charge_of_the_schedule_in_effect", lambda old, new, ret: z3.Exists(
        [z3.Int("k!dc")], z3.And(z3.Int("k!dc") >= 0, z3.Int("k!dc") < old.self._schedule.len,
                                applies(old, sched(old, old.self, z3.Int("k!dc")), old.date_time.theta),
                                sched(old, old.self, z3.Int("k!dc")).demand_charge == ret)))],
)


def _gts_post(old, new, ret):
    t = z3.Int("t!gts")
    theta0 = old.start.theta
    return [("one_price_per_period", ret.len == If(old.length >= 0, old.length, 0)),
            ("C17.entry_k_is_the_lookup_at_start_plus_k_periods",
             FA([t], z3.Implies(z3.And(t >= 0, t < ret.len), price(old, old.self, theta0 + (old.period * 60) * z3.ToReal(t), ty.sel(ret.v.arrs[0], t)))))]


def total_over(s, tariff, theta0, period, length):
    """every instant start + k x period (k < length) has exactly one schedule in effect"""
    t = z3.Int("t!tot")
    return FA([t], z3.Implies(z3.And(t >= 0, t < length), exactly_one(s, tariff, theta0 + (period * 60) * z3.ToReal(t))))


REG.contract(
    T + "get_tariffs", params=dict(self=Ref("TimeOfUseTariff"), start=Ref("datetime"), length=Int, period=Real), ret=Seq(Real),
    modifies=["alloc", ("datetime.theta", "FRESH")],
    requires=[C("wf", lambda s: schedules_wf(s, s.self))],
    raises=[RaiseSpec("ValueError", lambda s: Not(total_over(s, s.self, s.start.theta, s.period, s.length)), iff=True, unchanged=False)],
    ensures=[C("C17.price_vector", _gts_post)],
)


# ---------------------------------------------------------------------------- Interface: prices aligned with simulation time
IF = "acnportal.acnsim.interface.Interface."


def sim_tariff(s, iface):
    sim = iface._simulator
    return s.obj(z3.Select(sim.signals._v.arrs[0], ty.id_const("tariff")), "TimeOfUseTariff")


def period_theta(s, iface, k, k2=None):
    """the instant at which simulation period k (+ k2) begins: start + period x 60 s x (k + k2), written distributed over the two summands
    (lemma C17.period_offsets_add: the two forms are equal)"""
    sim = iface._simulator
    base = sim.start.theta + (sim.period * 60) * z3.ToReal(k)
    return base if k2 is None else base + (sim.period * 60) * z3.ToReal(k2)


def _first_period(s):
    return If(s.start.isnone, s.self._simulator._iteration, s.start.val)


def _gp_post(old, new, ret):
    t = z3.Int("t!gp")
    first = _first_period(old)
    tar = sim_tariff(old, old.self)
    entry = lambda f: FA([t], z3.Implies(z3.And(t >= 0, t < ret.len), price(old, tar, period_theta(old, old.self, f, t), ty.sel(ret.v.arrs[0], t))))
    return [("one_price_per_period", ret.len == If(old.length >= 0, old.length, 0)),
            ("C17.entry_k_is_the_price_of_simulation_period_current_plus_k", Implies(old.start.isnone, entry(old.self._simulator._iteration))),
            ("C17.entry_k_is_the_price_of_simulation_period_start_plus_k", Implies(Not(old.start.isnone), entry(old.start.val)))]


def _has_tariff(s):
    return z3.Select(s.self._simulator.signals._v.dom, ty.id_const("tariff"))


def _gp_total(s):
    t = z3.Int("t!gpt")
    first = _first_period(s)
    return FA([t], z3.Implies(z3.And(t >= 0, t < s.length), exactly_one(s, sim_tariff(s, s.self), period_theta(s, s.self, first, t))))


REG.contract(
    IF + "get_prices", params=dict(self=Ref("Interface"), length=Int, start=Opt(Int)), ret=Seq(Real), modifies=["alloc", ("datetime.theta", "FRESH")],
    requires=[C("wf", lambda s: Implies(_has_tariff(s), And(sim_tariff(s, s.self).ref != 0, s.alloc_ref(sim_tariff(s, s.self).ref), schedules_wf(s, sim_tariff(s, s.self)))))],
    raises=[RaiseSpec("ValueError", lambda s: Or(Not(_has_tariff(s)), Not(_gp_total(s))), iff=True, unchanged=False)],
    ensures=[C("C17.prices_aligned_with_simulation_time", _gp_post)],
)

REG.contract(
    IF + "get_demand_charge", params=dict(self=Ref("Interface"), start=Opt(Int)), ret=Real, modifies=["alloc", ("datetime.theta", "FRESH")],
    requires=[C("wf", lambda s: Implies(_has_tariff(s), And(sim_tariff(s, s.self).ref != 0, s.alloc_ref(sim_tariff(s, s.self).ref), schedules_wf(s, sim_tariff(s, s.self)))))],
    raises=[RaiseSpec("ValueError", lambda s: Or(Not(_has_tariff(s)), Not(exactly_one(s, sim_tariff(s, s.self), period_theta(s, s.self, _first_period(s))))),
                      iff=True, unchanged=False)],
    ensures=[C("C17.demand_charge_of_the_schedule_in_effect_at_that_period", lambda old, new, ret: z3.Exists(
        [z3.Int("k!idc")], z3.And(z3.Int("k!idc") >= 0, z3.Int("k!idc") < sim_tariff(old, old.self)._schedule.len,
                                 applies(old, sched(old, sim_tariff(old, old.self), z3.Int("k!idc")), period_theta(old, old.self, _first_period(old))),
                                 sched(old, sim_tariff(old, old.self), z3.Int("k!idc")).demand_charge == ret)))],
)


def _offsets_add():
    p, th = z3.Reals("lem_p lem_theta")
    a, b = z3.Ints("lem_a lem_b")
    return [("start_plus_a_periods_plus_b_periods_is_start_plus_a_plus_b_periods", [],
             th + (p * 60) * z3.ToReal(a) + (p * 60) * z3.ToReal(b) == th + (p * 60) * z3.ToReal(a + b))]


REG.lemma("C17.period_offsets_add", _offsets_add, props=("C17",))
