"""Contracts for RoundRobin.round_robin  (C07 / C08: the level-by-level allocation).

State of the real function: queue (a deque - modelled as a list: popleft / append), schedule (one pilot per station), rate_idx (one level index per
station), allowable_pilots (the *local*, filtered copy of the infrastructure's per-station level lists; for a continuous station the discretised
range).  AP below is that local list of lists."""
import z3
from pyvc.vtypes import FA
from pyvc.contracts_api import REG, C, RaiseSpec, LoopSpec
from pyvc.dsl import And, Or, Not, Implies, If, Eq, IsNone
from pyvc.vtypes import Real, Int, Bool, Id, Ref, Opt, Seq, Map, RefSort
from pyvc import vtypes as ty
from .algorithms import (SA, FEAS, feas, feas_with, infra_wf, all_levels_sorted, sessions_ok, preprocessed, iface_ok, sess_at, st_index, lb_of, rap,
                         zero_unless_served, lower_bound_vector_infeasible, level_or_zero)

RR = "acnportal.algorithms.sorted_algorithms.RoundRobin."


def ub_rr(s, iface, inf, sess):
    """round robin's upper bound: min(session max rate, the station's maximum pilot, remaining demand in amp-periods)"""
    a = z3.Select(sess.max_rates.v.arrs[0], 0)
    b = ty.sel(inf.max_pilot.v.arrs[0], st_index(inf, sess.station_id))
    c = rap(s, iface, sess)
    m = z3.If(b < a, b, a)
    return z3.If(c < m, c, m)


def ap_len(ap, i):
    return z3.Select(ap.v.arrs[1], i)


def ap_at(ap, i, m):
    return z3.Select(z3.Select(ap.v.arrs[0], i), m)


def levels_filtered(s, q, inf, iface, ap, lo, hi, name):
    """sessions lo <= j < hi: every level kept for the session's station lies within the session's bounds and, at a finite-rate station, is one of
    the station's advertised levels"""
    j, m, m2 = z3.Int("j!" + name), z3.Int("m!" + name), z3.Int("m2!" + name)
    e = sess_at(s, q, j)
    idx = st_index(inf, e.station_id)
    iap = inf.allowable_pilots
    return FA([j, m], z3.Implies(z3.And(j >= lo, j < hi, m >= 0, m < ap_len(ap, idx)),
                                 z3.And(lb_of(e) <= ap_at(ap, idx, m), ap_at(ap, idx, m) <= ub_rr(s, iface, inf, e),
                                        z3.Or(z3.Select(inf.is_continuous.v.arrs[0], idx),
                                              z3.Exists([m2], z3.And(m2 >= 0, m2 < ap_len(iap, idx), ap_at(iap, idx, m2) == ap_at(ap, idx, m)))))),
              patterns=[z3.MultiPattern(z3.Select(q.v.arrs[0], j), ap_at(ap, idx, m))])


def _rr_loop0_inv(s):
    q, inf, sch, ap, ri = s.queue, s.infrastructure, s.schedule, s.allowable_pilots, s.rate_idx
    iface = s.self._interface
    n = inf.station_ids.len
    j, i = z3.Int("j!r0"), z3.Int("i!r0")
    e = sess_at(s, q, j)
    idx = st_index(inf, e.station_id)
    return [
        ("queue_is_a_valid_session_list", sessions_ok(s, q, inf, "rq0")),
        ("queue_stations_known_to_the_network", iface_ok(s, iface, q, "rq0i")),
        ("lengths", And(sch.len == n, ri.len == n, ap.len == n)),
        ("level_indices_start_at_zero", FA([i], z3.Implies(z3.And(i >= 0, i < n), ty.sel(ri.v.arrs[0], i) == 0), patterns=[ty.sel(ri.v.arrs[0], i)])),
        ("level_list_lengths_non_negative", FA([i], z3.Implies(z3.And(i >= 0, i < n), ap_len(ap, i) >= 0), patterns=[ap_len(ap, i)])),
        ("pending_sessions_still_have_their_stations_advertised_levels",
         FA([j], z3.Implies(z3.And(j >= s._k, j < q.len), z3.And(z3.Select(ap.v.arrs[0], idx) == z3.Select(inf.allowable_pilots.v.arrs[0], idx),
                                                                  ap_len(ap, idx) == ap_len(inf.allowable_pilots, idx))),
            patterns=[z3.Select(q.v.arrs[0], j)])),
        ("C07.kept_levels_within_bounds_and_advertised", levels_filtered(s, q, inf, iface, ap, 0, s._k, "r0f")),
        ("served_sessions_start_at_their_lowest_kept_level_or_zero",
         FA([j], z3.Implies(z3.And(j >= 0, j < s._k), ty.sel(sch.v.arrs[0], idx) == z3.If(ap_len(ap, idx) > 0, ap_at(ap, idx, 0), z3.RealVal(0))),
            patterns=[z3.Select(q.v.arrs[0], j)])),
        ("C07.zero_elsewhere", zero_unless_served(s, sch, q, inf, s._k, "r0z")),
    ]


def _member_of(s, q, q0, name):
    """every queued session is one of the sessions of the sorted list q0"""
    k, j = z3.Int("k!" + name), z3.Int("j!" + name)
    return FA([k], z3.Implies(z3.And(k >= 0, k < q.len), z3.Exists([j], z3.And(j >= 0, j < q0.len, z3.Select(q.v.arrs[0], k) == z3.Select(q0.v.arrs[0], j)))),
              patterns=[z3.Select(q.v.arrs[0], k)])


def _at_level(s, q0, inf, sch, ap, ri, name):
    """every session of the sorted list sits at the level its index points to (or at 0 if no level was kept)"""
    j = z3.Int("j!" + name)
    e = sess_at(s, q0, j)
    idx = st_index(inf, e.station_id)
    r = ty.sel(ri.v.arrs[0], idx)
    return FA([j], z3.Implies(z3.And(j >= 0, j < q0.len),
                              z3.And(r >= 0, z3.If(ap_len(ap, idx) > 0, z3.And(r < ap_len(ap, idx), ty.sel(sch.v.arrs[0], idx) == ap_at(ap, idx, r)),
                                                   z3.And(r == 0, ty.sel(sch.v.arrs[0], idx) == 0)))),
              patterns=[z3.Select(q0.v.arrs[0], j)])


def _rr_loop1_inv(s):
    q, q0, inf, sch, ap, ri = s.queue, s.q0, s.infrastructure, s.schedule, s.allowable_pilots, s.rate_idx
    iface = s.self._interface
    n = inf.station_ids.len
    return [
        ("sorted_list_is_a_valid_session_list", sessions_ok(s, q0, inf, "rq1")),
        ("stations_known_to_the_network", iface_ok(s, iface, q0, "rq1i")),
        ("lengths", And(sch.len == n, ri.len == n, ap.len == n, q.len >= 0)),
        ("queued_sessions_come_from_the_sorted_list", _member_of(s, q, q0, "r1m")),
        ("C07.feasible_after_every_increment", feas(sch, inf)),
        ("C07.kept_levels_within_bounds_and_advertised", levels_filtered(s, q0, inf, iface, ap, 0, q0.len, "r1f")),
        ("C08.every_session_sits_at_the_level_its_index_points_to", _at_level(s, q0, inf, sch, ap, ri, "r1a")),
        ("C07.zero_elsewhere", zero_unless_served(s, sch, q0, inf, q0.len, "r1z")),
    ]


def _rr_step(head, end):
    """C08: one turn of the round robin - the session at the front is raised by exactly one level and re-queued at the back iff it has a next level and
    that level is feasible right now; otherwise it leaves the queue and nothing changes"""
    q, inf, sch, ap, ri = head.queue, head.infrastructure, head.schedule, head.allowable_pilots, head.rate_idx
    e = head.obj(z3.Select(q.v.arrs[0], 0), "SessionInfo")
    idx = st_index(inf, e.station_id)
    r = ty.sel(ri.v.arrs[0], idx)
    has_next = r < ap_len(ap, idx) - 1
    nxt = ap_at(ap, idx, r + 1)
    ok = z3.And(has_next, feas_with(sch, idx, nxt, inf))
    q1, sch1, ri1 = end.queue, end.schedule, end.rate_idx
    k = z3.Int("k!rrs")
    shifted = FA([k], z3.Implies(z3.And(k >= 0, k < q.len - 1), z3.Select(q1.v.arrs[0], k) == z3.Select(q.v.arrs[0], k + 1)), patterns=[z3.Select(q1.v.arrs[0], k)])
    return [
        ("C08.raised_by_exactly_one_level_iff_next_level_exists_and_is_feasible_now",
         Implies(ok, And(sch1.len == sch.len, sch1.v.arrs[0] == z3.Store(sch.v.arrs[0], idx, nxt), ri1.v.arrs[0] == z3.Store(ri.v.arrs[0], idx, r + 1)))),
        ("C08.raised_session_goes_to_the_back_of_the_queue",
         Implies(ok, And(q1.len == q.len, shifted, z3.Select(q1.v.arrs[0], q.len - 1) == z3.Select(q.v.arrs[0], 0)))),
        ("C08.blocked_or_exhausted_session_leaves_the_queue_and_nothing_changes",
         Implies(Not(ok), And(q1.len == q.len - 1, shifted, sch1.len == sch.len, sch1.v.arrs[0] == sch.v.arrs[0], ri1.v.arrs[0] == ri.v.arrs[0]))),
        ("level_lists_are_not_touched", And(end.allowable_pilots.len == ap.len, end.allowable_pilots.v.arrs[0] == ap.v.arrs[0], end.allowable_pilots.v.arrs[1] == ap.v.arrs[1])),
    ]


def _rr_post(old, new, ret):
    """C07 for one round-robin allocation, over the sessions as handed in"""
    inf = old.infrastructure
    q = old.active_sessions
    iface = old.self._interface
    j = z3.Int("j!rrp")
    e = sess_at(old, q, j)
    idx = st_index(inf, e.station_id)
    val = z3.Select(ret.v.arrs[0], idx)
    return [
        ("C07.schedule_feasible", feas(ret, inf)),
        ("one_entry_per_station", ret.len == inf.station_ids.len),
        ("C07.every_session_gets_zero_or_a_pilot_between_its_lower_bound_and_min_of_rate_bound_station_maximum_and_remaining_demand",
         FA([j], z3.Implies(z3.And(j >= 0, j < q.len), z3.Or(val == 0, z3.And(val >= lb_of(e), val <= ub_rr(old, iface, inf, e)))), patterns=[z3.Select(q.v.arrs[0], j)])),
        ("C07.finite_rate_stations_get_an_allowable_level_or_zero",
         FA([j], z3.Implies(z3.And(j >= 0, j < q.len, z3.Not(z3.Select(inf.is_continuous.v.arrs[0], idx))), level_or_zero(inf, idx, val)), patterns=[z3.Select(q.v.arrs[0], j)])),
        ("C07.stations_without_a_session_get_zero", zero_unless_served(old, ret, q, inf, q.len, "rrpz")),
    ]


REG.contract(
    RR + "round_robin",
    params=dict(self=Ref("RoundRobin"), active_sessions=Seq(Ref("SessionInfo")), infrastructure=Ref("InfrastructureInfo")),
    ret=Seq(Real),
    modifies=[("InfrastructureInfo." + f, "FRESH") for f in ("constraint_matrix", "constraint_limits", "phases", "voltages", "constraint_ids", "station_ids",
                                                              "_station_ids_dict", "max_pilot", "min_pilot", "allowable_pilots", "is_continuous")] + ["alloc"],
    requires=[C("interface_registered", lambda s: Not(IsNone(s.self._interface))),
              C("infrastructure_wf", lambda s: infra_wf(s, s.infrastructure)),
              C("sessions", lambda s: sessions_ok(s, s.active_sessions, s.infrastructure)),
              C("interface", lambda s: iface_ok(s, s.self._interface, s.active_sessions)),
              C("increment_positive", lambda s: s.self.continuous_inc > 0)],
    raises=[RaiseSpec("ValueError", lambda s: True, iff=False, unchanged=True)],
    ensures=[C("round_robin", _rr_post, props=("C07",))],
    loops={0: LoopSpec(invariant=_rr_loop0_inv),
           # C08: the allocation ends only when nobody is left in the queue - and a session leaves the queue only through a turn in which it had no
           # next level or its next level was infeasible at that moment (step contract)
           1: LoopSpec(invariant=_rr_loop1_inv, step=_rr_step, ghost=lambda s: dict(q0=s.queue),
                       at_exit=lambda s: [("C08.allocation_ends_only_when_every_session_has_left_the_queue", s.queue.len == 0)])},
)


# ============================================================================ RoundRobin.schedule: the composition for the plain configuration (C07)
from .algorithms import _sched_post, raw_sessions_ok, advertised_ok, rap_sign_axiom   # noqa: E402

REG.contract(
    RR + "schedule", params=dict(self=Ref("RoundRobin"), active_sessions=Seq(Ref("SessionInfo"))), ret=Map(Id, Seq(Real), ordered=True),
    requires=[C("plain_round_robin_configuration", lambda s: And(Not(IsNone(s.self._interface)), Not(s.self.estimate_max_rate), Not(s.self.uninterrupted_charging),
                                                                 Not(s.self.allow_overcharging), s.self.continuous_inc > 0)),
              C("network", lambda s: iface_ok(s, s.self._interface, s.active_sessions, "rrschi")),
              C("info", lambda s: __import__("contracts.interface", fromlist=["x"]).net_info_wf(s, s.self._interface._simulator.network)),
              C("sessions", lambda s: raw_sessions_ok(s, s.active_sessions, s.self._interface._simulator.network)),
              C("network_advertises_sane_values", lambda s: advertised_ok(s, s.self._interface._simulator)),
              C("definitions", lambda s: __import__("pyvc.dsl", fromlist=["Given"]).Given(z3.BoolVal(True), [rap_sign_axiom()]))],
    raises=[RaiseSpec("ValueError", lambda s: True, iff=False, unchanged=False)],
    modifies=[("InfrastructureInfo." + f, "FRESH") for f in ("constraint_matrix", "constraint_limits", "phases", "voltages", "constraint_ids", "station_ids",
                                                              "_station_ids_dict", "max_pilot", "min_pilot", "allowable_pilots", "is_continuous")]
             + [("SessionInfo.max_rates", "ALL"), ("SessionInfo.min_rates", "ALL"), "alloc", "warnings"],
    ensures=[C("C07.schedule", _sched_post, props=("C07",))],
)

REG.assume("A-LIB", "collections.deque(list) / popleft / append / len / iteration behave as the list operations (maxlen unused); np.arange(start, stop, step) with "
                    "step > 0 is a strictly increasing sequence starting at start, all entries < stop, empty iff stop <= start (only these linear "
                    "consequences of start + k*step are used); a[mask] is the order-preserving selection; np.zeros(n, dtype=int) is n integer zeros")
