"""Contract for acnportal/acndata/data_client.py  (C20, pagination part).

The server is a ghost (pyvc/weblib.py): srv_items(url), srv_has_next(url), srv_next_href(url).  The result set a first URL denotes is defined by
recursion along the next links:
    CHAIN(base, u) = srv_items(u) ++ ( CHAIN(base, base ++ srv_next_href(u))  if srv_has_next(u)  else  [] )
    URLS (base, u) = [u]          ++ ( URLS (base, base ++ srv_next_href(u))  if srv_has_next(u)  else  [] )
(the unfolding equations are instantiated at the URLs that occur; a server whose links cycle has no finite result set - excluded, A-SERVER)."""
import z3
from pyvc.vtypes import FA
from pyvc.contracts_api import REG, C, RaiseSpec, LoopSpec
from pyvc.dsl import And, Or, Not, Implies, If, Eq, IsNone
from pyvc.vtypes import Real, Int, Bool, Id, Ref, Opt, Seq, Str
from pyvc import vtypes as ty
from pyvc.weblib import S, RefSeq, StrSeq, SRV_ITEMS, SRV_HASNEXT, SRV_HREF, concat

DC = "acnportal.acndata.data_client.DataClient."
CHAIN = z3.Function("srv_chain", S, S, RefSeq)
URLS = z3.Function("srv_urls", S, S, StrSeq)

REG.schema("DataClient", token=Str, url=Str)
REG.schema("SessionDoc")


def next_url(base, u):
    return z3.Concat(base, SRV_HREF(u))


def unfold(base, u):
    """the defining equations of CHAIN and URLS at one URL"""
    return z3.And(CHAIN(base, u) == z3.Concat(SRV_ITEMS(u), z3.If(SRV_HASNEXT(u), CHAIN(base, next_url(base, u)), z3.Empty(RefSeq))),
                  URLS(base, u) == z3.Concat(z3.Unit(u), z3.If(SRV_HASNEXT(u), URLS(base, next_url(base, u)), z3.Empty(StrSeq))))


REG.assume("A-SERVER", "the server's pages form a finite chain of next links (CHAIN / URLS are well defined); a page's content is a function of the requested URL")


def first_url(s):
    """the URL of the first request, from the arguments as given: base + 'sessions/' + site [+ '/ts/'] + '?' + [where=..&][project=..&][sort=..&]max_results=N"""
    def opt(prefix, o):
        return z3.If(o.isnone, z3.StringVal(""), z3.Concat(z3.StringVal(prefix), o.val, z3.StringVal("&")))
    limit = z3.If(s.timeseries, z3.StringVal("max_results=1"), z3.StringVal("max_results=100"))
    endpoint = z3.Concat(z3.StringVal("sessions/"), s.site, z3.If(s.timeseries, z3.StringVal("/ts/"), z3.StringVal("")))
    return z3.Concat(s.self.url, endpoint, z3.StringVal("?"), opt("where=", s.cond), opt("project=", s.project), opt("sort=", s.sort), limit)


def valid_site(site):
    return z3.Or(site == z3.StringVal("caltech"), site == z3.StringVal("jpl"), site == z3.StringVal("office001"))


def _outer_inv(s):
    base = s.self.url
    cur = s.payload.url
    return [
        ("C20.yielded_so_far_plus_what_the_remaining_pages_hold_is_the_whole_result_set", z3.Concat(s.yielded, CHAIN(base, cur)) == z3.Concat(s.y0, CHAIN(base, s.first))),
        ("C20.one_request_per_page_so_far", z3.Concat(s.requests, z3.If(SRV_HASNEXT(cur), URLS(base, next_url(base, cur)), z3.Empty(StrSeq)))
         == z3.Concat(s.requests0, URLS(base, s.first))),
    ]


def _inner_inv(s):
    base = s.self.url
    cur = s.payload.url
    items = SRV_ITEMS(cur)
    return [
        ("page_unchanged", s.requests == s.requests_at_page),
        ("C20.items_of_this_page_yielded_in_server_order", s.yielded == z3.Concat(s.yielded_at_page, z3.Extract(items, 0, s._k))),
    ]


def _gs_post(old, new, ret):
    base = old.self.url
    f = first_url(old)
    return [
        ("C20.every_session_of_the_result_set_exactly_once_in_server_order", new.yielded == z3.Concat(old.yielded, CHAIN(base, f))),
        ("C20.one_request_per_page_following_the_next_links_first_url_carries_the_arguments", new.requests == z3.Concat(old.requests, URLS(base, f))),
    ]


REG.contract(
    "acnportal.acndata.utils.parse_dates", params=dict(doc=Ref("SessionDoc")), modifies=[],
    assumed="rewrites timestamp fields of the document in place (strptime / pytz, outside the verifier's reach: monitored); touches nothing the client reads",
    ensures=[])

REG.contract(
    DC + "get_sessions",
    params=dict(self=Ref("DataClient"), site=Str, cond=Opt(Str), project=Opt(Str), sort=Opt(Str), timeseries=Bool),
    raises=[RaiseSpec("ValueError", lambda s: Not(valid_site(s.site)), iff=True, unchanged=True,
                      post=lambda old, new: [("C20.invalid_site_rejected_before_any_request", And(new.requests == old.requests, new.yielded == old.yielded))])],
    modifies=["yielded", "requests"],
    ensures=[C("C20.get_sessions", _gs_post)],
    loops={0: LoopSpec(invariant=_outer_inv, modifies=["yielded", "requests"],
                       ghost=lambda s: dict(first=s.payload.url, requests0=_minus_last(s), y0=s.yielded)),
           1: LoopSpec(invariant=_inner_inv, modifies=["yielded"],
                       ghost=lambda s: dict(yielded_at_page=s.yielded, requests_at_page=s.requests))},
    extra=dict(ghost_entry=lambda ex, st, pre: (st.ghost.update(yielded=z3.Const("yielded0", RefSeq), requests=z3.Const("requests0", StrSeq)) or {})),
)


def _minus_last(s):
    """the request log before the first request of this call (the log at loop entry is that log plus the first URL)"""
    r = s.requests
    return z3.Extract(r, 0, z3.Length(r) - 1)
