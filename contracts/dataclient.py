"""Contract for acnportal/acndata/data_client.py  (C20, pagination part).

The server is a ghost (pyvc/weblib.py): srv_items(url), srv_has_next(url), srv_next_href(url).  The result set a first URL denotes is defined by
recursion along the next links:
    CHAIN(base, u) = srv_items(u) ++ ( CHAIN(base, base ++ srv_next_href(u))  if srv_has_next(u)  else  [] )
    URLS (base, u) = [u]          ++ ( URLS (base, base ++ srv_next_href(u))  if srv_has_next(u)  else  [] )
(the unfolding equations are instantiated at the URLs that occur; a server whose links cycle has no finite result set - excluded, A-SERVER)."""
import z3
from pyvc.vtypes import FA
from pyvc.contracts_api import REG, C, RaiseSpec, LoopSpec
from pyvc.dsl import And, Or, Not, Implies, If, Eq, IsNone
from pyvc.vtypes import Real, Int, Bool, Id, Ref, Opt, Seq, Str
from pyvc import vtypes as ty
from pyvc.weblib import S, RefSeq, StrSeq, SRV_ITEMS, SRV_HASNEXT, SRV_HREF, concat

DC = "acnportal.acndata.data_client.DataClient."
CHAIN = z3.Function("srv_chain", S, S, RefSeq)
URLS = z3.Function("srv_urls", S, S, StrSeq)

REG.schema("DataClient", token=Str, url=Str)
REG.schema("SessionDoc")


def next_url(base, u):
    return z3.Concat(base, SRV_HREF(u))


def unfold(base, u):
    """the defining equations of CHAIN and URLS at one URL"""
    return z3.And(CHAIN(base, u) == z3.Concat(SRV_ITEMS(u), z3.If(SRV_HASNEXT(u), CHAIN(base, next_url(base, u)), z3.Empty(RefSeq))),
                  URLS(base, u) == z3.Concat(z3.Unit(u), z3.If(SRV_HASNEXT(u), URLS(base, next_url(base, u)), z3.Empty(StrSeq))))


REG.assume("A-SERVER", "the server's pages form a finite chain of next links (CHAIN / URLS are well defined); a page's content is a function of the requested URL")


def first_url(s):
    """the URL of the first request, from the arguments as given: base + 'sessions/' + site [+ '/ts/'] + '?' + [where=..&][project=..&][sort=..&]max_results=N"""
    def opt(prefix, o):
        return z3.If(o.isnone, z3.StringVal(""), z3.Concat(z3.StringVal(prefix), o.val, z3.StringVal("&")))
    limit = z3.If(s.timeseries, z3.StringVal("max_results=1"), z3.StringVal("max_results=100"))
    endpoint = z3.Concat(z3.StringVal("sessions/"), s.site, z3.If(s.timeseries, z3.StringVal("/ts/"), z3.StringVal("")))
    return z3.Concat(s.self.url, endpoint, z3.StringVal("?"), opt("where=", s.cond), opt("project=", s.project), opt("sort=", s.sort), limit)


def valid_site(site):
    return z3.Or(site == z3.StringVal("caltech"), site == z3.StringVal("jpl"), site == z3.StringVal("office001"))


def _outer_inv(s):
    base = s.self.url
    cur = s.payload.url
    return [
        ("C20.yielded_so_far_plus_what_the_remaining_pages_hold_is_the_whole_result_set", z3.Concat(s.yielded, CHAIN(base, cur)) == z3.Concat(s.y0, CHAIN(base, s.first))),
        ("C20.one_request_per_page_so_far", z3.Concat(s.requests, z3.If(SRV_HASNEXT(cur), URLS(base, next_url(base, cur)), z3.Empty(StrSeq)))
         == z3.Concat(s.requests0, URLS(base, s.first))),
    ]


def _inner_inv(s):
    base = s.self.url
    cur = s.payload.url
    items = SRV_ITEMS(cur)
    return [
        ("page_unchanged", s.requests == s.requests_at_page),
        ("C20.items_of_this_page_yielded_in_server_order", s.yielded == z3.Concat(s.yielded_at_page, z3.Extract(items, 0, s._k))),
    ]


def _gs_post(old, new, ret):
    base = old.self.url
    f = first_url(old)
    return [
        ("C20.every_session_of_the_result_set_exactly_once_in_server_order", new.yielded == z3.Concat(old.yielded, CHAIN(base, f))),
        ("C20.one_request_per_page_following_the_next_links_first_url_carries_the_arguments", new.requests == z3.Concat(old.requests, URLS(base, f))),
    ]


REG.contract(
    "acnportal.acndata.utils.parse_dates", params=dict(doc=Ref("SessionDoc")), modifies=[],
    assumed="rewrites timestamp fields of the document in place (strptime / pytz, outside the verifier's reach: monitored); touches nothing the client reads",
    ensures=[])

REG.contract(
    DC + "get_sessions",
    params=dict(self=Ref("DataClient"), site=Str, cond=Opt(Str), project=Opt(Str), sort=Opt(Str), timeseries=Bool),
    raises=[RaiseSpec("ValueError", lambda s: Not(valid_site(s.site)), iff=True, unchanged=True,
                      post=lambda old, new: [("C20.invalid_site_rejected_before_any_request", And(new.requests == old.requests, new.yielded == old.yielded))])],
    modifies=["yielded", "requests"],
    ensures=[C("C20.get_sessions", _gs_post)],
    loops={0: LoopSpec(invariant=_outer_inv, modifies=["yielded", "requests"],
                       ghost=lambda s: dict(first=s.payload.url, requests0=_minus_last(s), y0=s.yielded)),
           1: LoopSpec(invariant=_inner_inv, modifies=["yielded"],
                       ghost=lambda s: dict(yielded_at_page=s.yielded, requests_at_page=s.requests))},
    extra=dict(ghost_entry=lambda ex, st, pre: (st.ghost.update(yielded=z3.Const("yielded0", RefSeq), requests=z3.Const("requests0", StrSeq)) or {})),
)


def _minus_last(s):
    """the request log before the first request of this call (the log at loop entry is that log plus the first URL)"""
    r = s.requests
    return z3.Extract(r, 0, z3.Length(r) - 1)


# ============================================================================ count_sessions / get_sessions_by_time (the wrappers)
from pyvc.weblib import SRV_TOTAL, NUMSTR      # noqa: E402

HTTPD = z3.Function("http_date_of", z3.IntSort(), S)      # utils.http_date(dt): an unspecified function of the datetime object (strftime / pytz: monitored)

REG.contract(
    "acnportal.acndata.utils.http_date", params=dict(dt=Ref("datetime")), ret=Str, modifies=[],
    assumed="formats an aware datetime as an RFC-1123 string (astimezone / strftime, outside the verifier's reach: monitored); a function of the datetime object",
    ensures=[C("function_of_the_datetime", lambda old, new, ret: ret == HTTPD(old.dt.ref))])


def count_url(base, site, cond):
    """base + 'sessions/' + site + '?' + [where=..&] + 'limit=1'"""
    w = z3.If(cond.isnone, z3.StringVal(""), z3.Concat(z3.StringVal("where="), cond.val, z3.StringVal("&")))
    return z3.Concat(base, z3.StringVal("sessions/"), site, z3.StringVal("?"), w, z3.StringVal("limit=1"))


REG.contract(
    DC + "count_sessions", params=dict(self=Ref("DataClient"), site=Str, cond=Opt(Str)), ret=Str,
    raises=[RaiseSpec("ValueError", lambda s: Not(valid_site(s.site)), iff=True, unchanged=True,
                      post=lambda old, new: [("C20.invalid_site_rejected_before_any_request", new.requests == old.requests)])],
    modifies=["requests"],
    ensures=[C("C20.count_sessions", lambda old, new, ret: [
        ("C20.one_head_request_carrying_the_site_and_filter", new.requests == z3.Concat(old.requests, z3.Unit(count_url(old.self.url, old.site, old.cond)))),
        ("C20.returns_the_servers_total_count_header", ret == SRV_TOTAL(count_url(old.self.url, old.site, old.cond)))])],
    extra=dict(ghost_entry=lambda ex, st, pre: (st.ghost.update(requests=z3.Const("requests0", StrSeq)) or {})),
)


def time_condition(s):
    """'connectionTime >= "<start>"' and 'connectionTime <= "<end>"' and 'kWhDelivered > <min_energy>', each present iff its argument is given, in this
    order, joined by ' and '"""
    parts = [(Not(s.start.ref == 0), z3.Concat(z3.StringVal('connectionTime >= "'), HTTPD(s.start.ref), z3.StringVal('"'))),
             (Not(s.end.ref == 0), z3.Concat(z3.StringVal('connectionTime <= "'), HTTPD(s.end.ref), z3.StringVal('"'))),
             (Not(s.min_energy.isnone), z3.Concat(z3.StringVal("kWhDelivered > "), NUMSTR(s.min_energy.val)))]
    out = z3.StringVal("")
    some = z3.BoolVal(False)
    for present, text in parts:
        out = z3.If(present, z3.If(some, z3.Concat(out, z3.StringVal(" and "), text), text), out)
        some = z3.Or(some, present)
    return out


class _AsOpt:
    """an always-present optional string (what the wrapper hands to the cond parameter)"""
    def __init__(self, v):
        self.isnone, self.val = z3.BoolVal(False), v


class _Args:
    pass


def _by_time_post(old, new, ret):
    cond = time_condition(old)
    a = _Args()
    a.self, a.site, a.cond, a.project, a.sort, a.timeseries = old.self, old.site, _AsOpt(cond), _AsOpt(z3.StringVal("")), _AsOpt(z3.StringVal("connectionTime")), old.timeseries
    a.project.isnone = z3.BoolVal(True)
    return [
        ("C20.count_is_the_servers_answer_to_one_head_request_with_the_time_window_filter",
         Implies(old.count, And(new.requests == z3.Concat(old.requests, z3.Unit(count_url(old.self.url, old.site, _AsOpt(cond)))), new.yielded == old.yielded))),
        ("C20.sessions_of_the_time_window_sorted_by_connection_time_every_one_once_in_server_order",
         Implies(Not(old.count), And(new.yielded == z3.Concat(old.yielded, CHAIN(old.self.url, first_url(a))),
                                     new.requests == z3.Concat(old.requests, URLS(old.self.url, first_url(a)))))),
    ]


REG.contract(
    DC + "get_sessions_by_time",
    params=dict(self=Ref("DataClient"), site=Str, start=Ref("datetime", nullable=True), end=Ref("datetime", nullable=True), min_energy=Opt(Real), timeseries=Bool, count=Bool),
    raises=[RaiseSpec("ValueError", lambda s: Not(valid_site(s.site)), iff=True, unchanged=True,
                      post=lambda old, new: [("C20.invalid_site_rejected_before_any_request", And(new.requests == old.requests, new.yielded == old.yielded))])],
    modifies=["yielded", "requests"],
    ensures=[C("C20.get_sessions_by_time", _by_time_post)],
    extra=dict(ghost_entry=lambda ex, st, pre: (st.ghost.update(yielded=z3.Const("yielded0", RefSeq), requests=z3.Const("requests0", StrSeq)) or {})),
)
REG.assume("A-LIB", "C20: get_sessions_by_time returns the generator of get_sessions(...) unconsumed; the contract describes what consuming it yields (the call is "
                    "modelled as if the generator were run at once); str(number) is an unspecified function of the number")


# ---------------------------------------------------------------------------- native replay of counter-models (real DataClient against a stub server)
def _native_replay(method):
    def run(data, oname):
        """run the real method on the model's arguments against a two-page stub server; compare the first request and the yielded sessions with
        what the property says (an independent transcription of the statement, not the contract clause)"""
        import importlib
        from datetime import datetime, timezone
        from unittest import mock
        dc = importlib.import_module("acnportal.acndata.data_client")
        utils = importlib.import_module("acnportal.acndata.utils")

        def unq(x):
            return x[1:-1] if isinstance(x, str) and len(x) >= 2 and x[0] == '"' and x[-1] == '"' else x
        base = "https://stub/api/"
        calls = []

        class Resp:
            def __init__(self, url):
                self.url = url
                self.headers = {"x-total-count": "42"}

            def json(self):
                if "page=2" in self.url:
                    return {"_items": [{"_id": "c"}], "_links": {}}
                return {"_items": [{"_id": "a"}, {"_id": "b"}], "_links": {"next": {"href": "sessions/x?page=2"}}}

        def fake(url, **kw):
            calls.append(url)
            return Resp(url)
        client = dc.DataClient("token", url=base)
        site = unq(data.get("site"))
        kwargs, expect = {}, None
        if method == "get_sessions_by_time":
            def when(v, hour):
                return None if v is None else datetime(2019, 3, 1, hour, tzinfo=timezone.utc)
            start, end = when(data.get("start"), 8), when(data.get("end"), 20)
            me = data.get("min_energy")
            kwargs = dict(start=start, end=end, min_energy=me, timeseries=bool(data.get("timeseries")), count=bool(data.get("count")))
            conds = []
            if start is not None:
                conds.append('connectionTime >= "{0}"'.format(utils.http_date(start)))
            if end is not None:
                conds.append('connectionTime <= "{0}"'.format(utils.http_date(end)))
            if me is not None:
                conds.append("kWhDelivered > {0}".format(me))
            cond = " and ".join(conds)
            if kwargs["count"]:
                expect = base + "sessions/" + site + "?where=" + cond + "&limit=1"
            else:
                expect = base + "sessions/" + site + ("/ts/" if kwargs["timeseries"] else "") + "?where=" + cond + "&sort=connectionTime&max_results=" + ("1" if kwargs["timeseries"] else "100")
        elif method == "count_sessions":
            cond = unq(data.get("cond"))
            kwargs = dict(cond=cond)
            expect = base + "sessions/" + site + "?" + ("where=" + cond + "&" if cond is not None else "") + "limit=1"
        else:
            cond, project, sort = unq(data.get("cond")), unq(data.get("project")), unq(data.get("sort"))
            ts = bool(data.get("timeseries"))
            kwargs = dict(cond=cond, project=project, sort=sort, timeseries=ts)
            q = "".join(f"{k}={v}&" for k, v in (("where", cond), ("project", project), ("sort", sort)) if v is not None)
            expect = base + "sessions/" + site + ("/ts/" if ts else "") + "?" + q + "max_results=" + ("1" if ts else "100")
        out = dict(native_call=f"DataClient.{method}({site!r}, **{kwargs!r})", expected_first_request=expect)
        try:
            with mock.patch.object(dc.requests, "get", fake), mock.patch.object(dc.requests, "head", fake), mock.patch.object(dc, "parse_dates", lambda d: None):
                r = getattr(client, method)(site, **kwargs)
                got = list(r) if hasattr(r, "__next__") else r
        except ValueError as e:
            valid = site in ("caltech", "jpl", "office001")
            out.update(native_exception=f"ValueError: {e}", reproduced=bool(valid or calls), expected="ValueError only for an invalid site, before any request")
            return out
        ids = [d["_id"] for d in got] if isinstance(got, list) else got
        out.update(native_requests=calls, native_result=ids)
        bad = []
        if site not in ("caltech", "jpl", "office001"):
            bad.append("an invalid site was accepted")
        if not calls or calls[0] != expect:
            bad.append("the first request differs from the one the arguments call for")
        if isinstance(got, list) and ids != ["a", "b", "c"]:
            bad.append("the sessions yielded are not every session of the result set once, in server order")
        if isinstance(got, list) and calls[1:] != [base + "sessions/x?page=2"]:
            bad.append("the next links were not followed exactly once each")
        out.update(reproduced=bool(bad), violated=bad)
        return out
    return run


for _m in ("get_sessions", "count_sessions", "get_sessions_by_time"):
    REG.get(DC + _m).extra["native_replay"] = _native_replay(_m)
