"""C16 - predefined site networks (acnportal/acnsim/network/sites/*.py).

The site factories are CLOSED programs: apart from the numeric parameters (EVSE voltage, transformer capacities) and the basic_evse
flag every value in them is a literal.  They are therefore *evaluated* - by CPython, on the real source of the tree under check, with the
numeric parameters replaced by symbolic affine objects (class Aff below: arithmetic builds an affine expression, any comparison / truth
test / float() of a symbol raises, so the factory's control flow provably does not depend on them) and the flag enumerated.  The result
is the constraint table (matrix, limits as affine expressions in the capacity symbols, phase angles, registration order) the factory
builds for EVERY value of the parameters.

Everything that is quantified over infinitely many things is then a z3 obligation over that table:

    for ALL non-negative schedules S and ALL positive capacities:   FEASDEF(table, S)  =>  physical ratings respected

FEASDEF is the specification predicate ChargingNetwork.is_feasible is proved equal to under C06 (contracts/feasibility.py), so
"every schedule the network reports feasible keeps ..." is the composition of that contract with these lemmas.  The ratings are written
from first principles (site documentation: which stations hang behind which transformer / panel / pod; delta-connected line-to-line
loads, line current I_a = I_ab - I_ca; transformer rating = 3 x 120 V x line current), not from the constraint matrix.

Proof structure per requirement (all steps are z3 obligations, none is assumed):
  reduce/<row>   the phasor sum of constraint row i, written exactly as FEASDEF writes it (sum_j a_ij (S_j cos phi_j) , ... sin),
                 equals (r3 P_i(X), Q_i(X)) where X_c = sum of S over a class of stations with identical columns and phase, and
                 P_i, Q_i are rational linear forms (trig table A-MATH: cos 30 = r3/2, sin 30 = 1/2, ..., r3^2 = 3)
  bound          cabs(re, im) <= B, re = r3 P, im = Q, B >= 0   =>   3 P^2 + Q^2 <= B^2          (generic, once)
  <requirement>  over the class sums X >= 0 and capacities > 0:  (for every selected row 3 P_i^2 + Q_i^2 <= B_i^2)  =>  rating
A counter-model (class sums + capacities) is turned into a concrete schedule and replayed on the real network built by the real
factory: is_feasible must return True and the first-principles quantity must exceed its rating."""
import math
import os
import sys
from fractions import Fraction

import z3
from pyvc.contracts_api import REG
from pyvc.cplx import COS, SIN, D2R, CABS

SITES = "acnportal.acnsim.network.sites."
ALLOWED_PHASES = (30, -90, 150)
# exact trig table in the basis (1, r3):  angle -> ((cos rational part, cos r3 part), (sin rational part, sin r3 part))
TRIG = {30: ((0, Fraction(1, 2)), (Fraction(1, 2), 0)), -90: ((0, 0), (-1, 0)), 150: ((0, Fraction(-1, 2)), (Fraction(1, 2), 0))}
R3 = z3.Real("r3")
R3_AX = [R3 > 0, R3 * R3 == 3]
TRIG_AX = [COS(D2R(z3.RealVal(a))) == z3.RealVal(str(c[0])) + z3.RealVal(str(c[1])) * R3 for a, (c, s) in TRIG.items()] + \
          [SIN(D2R(z3.RealVal(a))) == z3.RealVal(str(s[0])) + z3.RealVal(str(s[1])) * R3 for a, (c, s) in TRIG.items()]

REG.assume("A-MATH", "trig table: cos/sin of 30, -90, 150 degrees = r3/2, 1/2; 0, -1; -r3/2, 1/2 with r3 > 0, r3^2 = 3; cabs(x, y) >= 0 and "
                     "cabs(x, y)^2 = x^2 + y^2 (instantiated at the phasor sums of the selected rows)")
REG.assume("A-CLOSED", "C16: the site factories are closed programs; their constraint table is obtained by running the real factory under CPython with "
                       "the numeric parameters replaced by symbolic affine objects (any comparison / truth test / float() of a symbol raises) and "
                       "basic_evse enumerated - the factories' own statements are evaluated, not verified against contracts")
REG.assume("A-TOPOLOGY", "C16: which stations hang behind which transformer / sub-panel / pod, the panel and pod ratings, and the rating formula "
                         "(transformer capacity = 3 x 120 V x secondary line current; loads are delta connected, I_a = I_ab - I_ca) come from the "
                         "site documentation and are written in contracts/sites.py (trusted oracle)")


class SymbolicControlFlow(TypeError):
    pass


class Aff:
    """affine expression  const + sum_k coef_k * symbol_k  with exact rational coefficients"""
    __array_priority__ = 1000

    def __init__(self, const=0, coefs=None):
        self.const = Fraction(const)
        self.coefs = {k: Fraction(v) for k, v in (coefs or {}).items() if v != 0}

    @staticmethod
    def sym(name):
        return Aff(0, {name: 1})

    @staticmethod
    def lift(x):
        if isinstance(x, Aff):
            return x
        if isinstance(x, (int, Fraction)):
            return Aff(x)
        if isinstance(x, float) or hasattr(x, "__float__"):
            return Aff(Fraction(float(x)))
        raise TypeError(f"cannot combine a symbolic parameter with {type(x).__name__}")

    def __add__(self, o):
        o = Aff.lift(o)
        c = dict(self.coefs)
        for k, v in o.coefs.items():
            c[k] = c.get(k, 0) + v
        return Aff(self.const + o.const, c)

    __radd__ = __add__

    def __neg__(self):
        return Aff(-self.const, {k: -v for k, v in self.coefs.items()})

    def __sub__(self, o):
        return self + (-Aff.lift(o))

    def __rsub__(self, o):
        return Aff.lift(o) - self

    def __mul__(self, o):
        o = Aff.lift(o)
        if o.coefs and self.coefs:
            raise TypeError("product of two symbolic parameters is not affine")
        if o.coefs:
            return o * self
        return Aff(self.const * o.const, {k: v * o.const for k, v in self.coefs.items()})

    __rmul__ = __mul__

    def __truediv__(self, o):
        o = Aff.lift(o)
        if o.coefs:
            raise TypeError("division by a symbolic parameter")
        return self * (1 / o.const)

    # numeric conversions of a symbol cannot be followed symbolically
    def _no(self, *a):
        raise SymbolicControlFlow("a numeric conversion (float / int / index) of a symbolic parameter")

    __float__ = __int__ = __index__ = _no

    # comparisons: concolic - decided by the concrete shadow values of the current run and recorded as a path constraint, so that the
    # table is known to be the factory's result for every parameter value satisfying the recorded constraints (the other side of each
    # decision is explored by re-running the factory with shadow values that z3 picks for the negated constraint)
    SHADOW = {}
    TRACE = []

    def _decide(self, op, o):
        d = self - Aff.lift(o)
        if not d.coefs:
            v = d.const
        else:
            v = d.const + sum(c * Fraction(Aff.SHADOW[k]) for k, c in d.coefs.items())
        out = {"lt": v < 0, "le": v <= 0, "gt": v > 0, "ge": v >= 0, "eq": v == 0, "ne": v != 0}[op]
        if d.coefs:
            Aff.TRACE.append((d, op, out))
        return out

    def __lt__(self, o):
        return self._decide("lt", o)

    def __le__(self, o):
        return self._decide("le", o)

    def __gt__(self, o):
        return self._decide("gt", o)

    def __ge__(self, o):
        return self._decide("ge", o)

    def __eq__(self, o):
        try:
            return self._decide("eq", o)
        except TypeError:
            return False

    def __ne__(self, o):
        try:
            return self._decide("ne", o)
        except TypeError:
            return True

    def __bool__(self):
        return self._decide("ne", 0)

    __hash__ = None

    def symbols(self):
        return set(self.coefs)

    def to_z3(self, symtab):
        t = z3.RealVal(str(self.const))
        for k, v in sorted(self.coefs.items()):
            t = t + z3.RealVal(str(v)) * symtab[k]
        return t

    def value(self, env):
        return float(self.const + sum(v * Fraction(env[k]) for k, v in self.coefs.items()))

    def __repr__(self):
        return " + ".join([str(self.const)] * bool(self.const or not self.coefs) + [f"{v}*{k}" for k, v in sorted(self.coefs.items())])


# ---------------------------------------------------------------------------- the oracle: physical topology from the site documentation
CC_POD = ["CA-322", "CA-493", "CA-496", "CA-320", "CA-495", "CA-321", "CA-323", "CA-494"]
AV_POD = ["CA-324", "CA-325", "CA-326", "CA-327", "CA-489", "CA-490", "CA-491", "CA-492"]
SITE_ARGS = {
    "caltech": ("caltech_acn.caltech_acn", ["transformer_cap"]),
    "jpl": ("jpl_acn.jpl_acn", ["first_transformer_cap", "third_fourth_transformer_cap"]),
    "office001": ("office001_acn.office001_acn", ["transformer_cap"]),
}


def topology(site, ids):
    if site == "caltech":
        return dict(transformers={"T": (list(ids), "transformer_cap")}, pods={"CC pod": (CC_POD, 80), "AV pod": (AV_POD, 80)}, panels={})
    if site == "office001":
        return dict(transformers={"T": (list(ids), "transformer_cap")}, pods={}, panels={})
    f1 = [s for s in ids if s.startswith("AG-1F")]
    f3 = [s for s in ids if s.startswith("AG-3F")]
    f4 = [s for s in ids if s.startswith("AG-4F")]
    sp1 = [f"AG-1F{k}" for k in (11, 12, 13, 14)]
    sp2 = [f"AG-1F0{k}" for k in (1, 2, 3, 4, 5, 6)]
    return dict(transformers={"T1": (f1, "first_transformer_cap"), "T34": (f3 + f4, "third_fourth_transformer_cap")}, pods={},
                panels={"1F SP1": (sp1, 100), "1F SP2": (sp2, 100), "3F panel": (f3, 225), "4F panel": (f4, 225)})


# ---------------------------------------------------------------------------- evaluating the real factory
def _factory(site):
    import importlib
    mod, fn = SITE_ARGS[site][0].rsplit(".", 1)
    m = importlib.import_module(SITES + mod)
    from pyvc.source import REPO
    src = os.path.realpath(m.__file__)
    if not src.startswith(os.path.realpath(REPO) + os.sep):
        raise RuntimeError(f"{m.__name__} was imported from {src}, not from the tree under check {REPO}")
    return getattr(m, fn)


DEFAULTS = {"transformer_cap": {"caltech": 150, "office001": 50}, "first_transformer_cap": {"jpl": 45}, "third_fourth_transformer_cap": {"jpl": 150}}


def build_table(site, basic, concrete=None, shadow=None):
    """run the real factory; numeric parameters symbolic (concrete=None; comparisons decided by `shadow`, recorded in Aff.TRACE) or the given values"""
    import io, contextlib, warnings
    caps = SITE_ARGS[site][1]
    kw = {c: (Aff.sym(c) if concrete is None else concrete[c]) for c in caps}
    kw["voltage"] = Aff.sym("voltage") if concrete is None else concrete.get("voltage", 208)
    Aff.SHADOW = dict(shadow or {})
    Aff.TRACE = []
    with warnings.catch_warnings():
        warnings.simplefilter("ignore")
        with contextlib.redirect_stdout(io.StringIO()):
            net = _factory(site)(basic_evse=basic, **kw)
    return net


def _pc_term(d, op, out, symtab):
    t = d.to_z3(symtab)
    rel = {"lt": t < 0, "le": t <= 0, "gt": t > 0, "ge": t >= 0, "eq": t == 0, "ne": t != 0}[op]
    return rel if out else z3.Not(rel)


def explore(site, basic, max_paths=8):
    """all control-flow paths of the factory with respect to its numeric parameters: [(table, path constraints, shadow values)]"""
    caps = SITE_ARGS[site][1]
    symtab = {c: z3.Real(c) for c in caps}
    symtab["voltage"] = z3.Real("voltage")
    positive = [symtab[k] > 0 for k in symtab]
    first = {c: Fraction(DEFAULTS[c][site]) for c in caps}
    first["voltage"] = Fraction(208)
    work, seen, out = [first], set(), []
    while work and len(out) < max_paths:
        shadow = work.pop(0)
        net = build_table(site, basic, shadow=shadow)
        trace = list(Aff.TRACE)
        sig = tuple((repr(d), op, o) for d, op, o in trace)
        if sig in seen:
            continue
        seen.add(sig)
        pcs = [_pc_term(d, op, o, symtab) for d, op, o in trace]
        out.append((table_of(net), pcs, shadow))
        for i in range(len(pcs)):
            s = z3.Solver()
            s.set("timeout", 5000)
            s.add(*positive, *pcs[:i], z3.Not(pcs[i]))
            if s.check() == z3.sat:
                m = s.model()
                nxt = {k: Fraction(str(m.eval(v, model_completion=True).as_fraction())) for k, v in symtab.items()}
                work.append(nxt)
    return out, bool(work)


def table_of(net):
    ids = list(net._EVSEs.keys())
    phases = [p for p in net._phase_angles]
    A = net.constraint_matrix
    rows = [[Fraction(float(A[i][j])) for j in range(len(ids))] for i in range(len(net.constraint_index))] if A is not None else []
    lims = [Aff.lift(x) for x in net.magnitudes]
    return dict(ids=ids, phases=phases, rows=rows, lims=lims, names=list(net.constraint_index),
                vtol=Fraction(float(net.violation_tolerance)), rtol=Fraction(float(net.relative_tolerance)))


def _rv(x):
    return z3.RealVal(str(Fraction(x)))


def _allow(lim, vtol, rtol):
    """limit + max(abs tol, rel tol x limit)   (ChargingNetwork.is_feasible, C06)"""
    return lim + z3.If(_rv(vtol) >= _rv(rtol) * lim, _rv(vtol), _rv(rtol) * lim)


def _classes(T, group, sel_rows):
    """stations of `group` with identical phase and identical coefficients in the selected rows -> one class"""
    cls = {}
    for s in group:
        j = T["ids"].index(s)
        key = (T["phases"][j],) + tuple(T["rows"][i][j] for i in sel_rows)
        cls.setdefault(key, []).append(s)
    return cls


def _forms(T, cls_keys, k):
    """(P, Q) of row number k (position inside the class key) as dicts class-index -> rational: re = r3 P, im = Q"""
    P, Q = {}, {}
    for c, key in enumerate(cls_keys):
        ph, a = key[0], key[1 + k]
        (c0, c3), (s0, s3) = TRIG[int(ph)]
        assert c0 == 0 and s3 == 0
        P[c] = a * c3
        Q[c] = a * s0
    return P, Q


def _lin(form, X):
    return z3.Sum([_rv(v) * X[c] for c, v in form.items()] + [z3.RealVal(0)])


def _line_forms(cls_keys):
    """first-principles line currents of a delta-connected group: I_a = I_ab - I_ca, I_b = I_bc - I_ab, I_c = I_ca - I_bc
    with I_ab / I_bc / I_ca the phasor sums of the loads at 30 / -90 / 150 degrees; returned as (P, Q) per line"""
    out = {}
    for line, (plus, minus) in {"a": (30, 150), "b": (-90, 30), "c": (150, -90)}.items():
        P, Q = {}, {}
        for c, key in enumerate(cls_keys):
            sign = 1 if int(key[0]) == plus else -1 if int(key[0]) == minus else 0
            (c0, c3), (s0, s3) = TRIG[int(key[0])]
            P[c] = sign * c3
            Q[c] = sign * s0
        out[line] = (P, Q)
    return out


def site_lemma(site, basic):
    def gen():
        out = []
        if True:
            from pyvc.symex import Unsupported
            try:
                paths, truncated = explore(site, basic)
            except SymbolicControlFlow as e:
                raise Unsupported(f"C16 {site}: {e} - the factory cannot be evaluated with symbolic parameters (checker limit, not a violation)")
            if truncated:
                raise Unsupported(f"C16 {site}: more than 8 control-flow paths of the factory depend on its numeric parameters")
            for k, (T, pcs, shadow) in enumerate(paths):
                out.extend(_site_obligations(site, basic, T, pcs, "" if len(paths) == 1 else f"/path{k}"))
        return out
    return gen


def _site_obligations(site, basic, T, pcs=(), plabel=""):
    tag = f"{site}/basic={basic}{plabel}"
    ids, phases, rows, lims = T["ids"], T["phases"], T["rows"], T["lims"]
    topo = topology(site, ids)
    capsyms = SITE_ARGS[site][1]
    symtab = {c: z3.Real(f"{c}") for c in capsyms}
    symtab["voltage"] = z3.Real("voltage")
    caps_pos = [symtab[c] > 0 for c in capsyms] + [symtab["voltage"] > 0] + list(pcs)      # pcs: the path constraints under which this table is what the factory builds
    obl = []

    def concrete(name, ok, detail=""):
        obl.append((f"{tag}/{name}", [], z3.BoolVal(bool(ok)), lambda m, d=detail, n=name: _replay_structural(site, basic, n, d)))

    # ---- structure (closed facts, decided by evaluation)
    bad_ph = [(s, p) for s, p in zip(ids, phases) if not any(p == a for a in ALLOWED_PHASES)]
    concrete("every_evse_carries_one_of_the_three_line_to_line_phase_angles", not bad_ph, f"{bad_ph[:5]}")
    behind = [s for g, _ in topo["transformers"].values() for s in g]
    concrete("every_evse_is_behind_exactly_one_transformer", sorted(behind) == sorted(ids) and len(set(ids)) == len(ids), f"{sorted(set(ids) ^ set(behind))[:5]}")
    concrete("limits_and_matrix_do_not_depend_on_the_evse_voltage", all("voltage" not in l.symbols() for l in lims), "a limit mentions the voltage parameter")
    unknown_pod = [s for g, _ in list(topo["pods"].values()) + list(topo["panels"].values()) for s in g if s not in ids]
    concrete("documented_pod_and_panel_members_are_registered", not unknown_pod, f"{unknown_pod[:5]}")
    uncovered = []
    for tn, (grp, capname) in topo["transformers"].items():
        trows = [i for i in range(len(rows)) if capname in lims[i].symbols()]
        for s in grp:
            if s in ids and not any(rows[i][ids.index(s)] != 0 for i in trows):
                uncovered.append(s)
    concrete("every_evse_is_covered_by_a_constraint_of_its_transformer", not uncovered, f"{uncovered[:5]}")
    if bad_ph or unknown_pod:
        return obl          # the ratings below are only defined for line-to-line loads at the three angles

    # ---- generic bound lemma: from the magnitude form of FEASDEF to the quadratic normal form
    re, im, P_, Q_, B_ = z3.Reals("lem_re lem_im lem_P lem_Q lem_B")
    c_ = CABS(re, im)
    obl.append((f"{tag}/bound/magnitude_within_B_means_3P2_plus_Q2_within_B2",
                R3_AX + [c_ >= 0, c_ * c_ == re * re + im * im, re == R3 * P_, im == Q_, B_ >= 0, c_ <= B_], 3 * P_ * P_ + Q_ * Q_ <= B_ * B_, None))

    S = {s: z3.Real(f"S[{s}]") for s in ids}

    def requirement(name, group, sel_rows, goal_builder, kind):
        """group: stations concerned; sel_rows: constraint rows used as hypotheses; goal_builder(X, cls_keys) -> (goal, quantity description)"""
        group = [s for s in group if s in ids]
        cls = _classes(T, group, sel_rows)
        keys = list(cls)
        X = {c: z3.Real(f"X{c}") for c in range(len(keys))}
        defs = [X[c] == z3.Sum([S[s] for s in cls[k]]) for c, k in enumerate(keys)]
        hyps = list(R3_AX) + caps_pos + [X[c] >= 0 for c in X]
        for k, i in enumerate(sel_rows):
            P, Q = _forms(T, keys, k)
            # (1) reduction: FEASDEF's phasor sum of row i restricted to the group (every other station has coefficient 0 in the selected rows,
            #     checked below) equals (r3 P(X), Q(X))
            outside = [s for s in ids if s not in group and rows[i][ids.index(s)] != 0]
            if outside:
                continue          # a row reaching outside the group is not used as a hypothesis
            re_i = z3.Sum([_rv(rows[i][ids.index(s)]) * (S[s] * COS(D2R(z3.RealVal(int(phases[ids.index(s)]))))) for s in group] + [z3.RealVal(0)])
            im_i = z3.Sum([_rv(rows[i][ids.index(s)]) * (S[s] * SIN(D2R(z3.RealVal(int(phases[ids.index(s)]))))) for s in group] + [z3.RealVal(0)])
            obl.append((f"{tag}/{name}/reduce/row_{T['names'][i]}", TRIG_AX + defs, z3.And(re_i == R3 * _lin(P, X), im_i == _lin(Q, X)), None))
            B = _allow(lims[i].to_z3(symtab), T["vtol"], T["rtol"])
            hyps.append(3 * _lin(P, X) * _lin(P, X) + _lin(Q, X) * _lin(Q, X) <= B * B)
        goal = goal_builder(X, keys, symtab)
        obl.append((f"{tag}/{name}", hyps, goal,
                    lambda m, X=X, keys=keys, cls=cls, hyps=hyps, goal=goal, name=name, kind=kind, group=group: _replay(site, basic, T, name, kind, group, X, cls, keys, hyps, goal)))

    for tn, (grp, capname) in topo["transformers"].items():
        sel = [i for i in range(len(rows)) if capname in lims[i].symbols()]
        L = lambda st, capname=capname: st[capname] * 1000 / 360                     # rated secondary line current: cap kW / (3 x 120 V)

        def power(X, keys, st, L=L):
            tot = z3.Sum([X[c] for c in X] + [z3.RealVal(0)])
            # 120 sqrt(3) V line-to-line x total current <= 3 x 120 V x (L + tolerance)
            return 120 * R3 * tot <= 360 * _allow(L(st), T["vtol"], T["rtol"])
        requirement(f"transformer_{tn}/feasible_schedules_keep_total_power_within_the_rated_capacity", grp, sel, power, ("power", capname))
        for line in "abc":
            def lc(X, keys, st, line=line, L=L):
                P, Q = _line_forms(keys)[line]
                B = _allow(L(st), T["vtol"], T["rtol"])
                return 3 * _lin(P, X) * _lin(P, X) + _lin(Q, X) * _lin(Q, X) <= B * B
            requirement(f"transformer_{tn}/line_{line}_current_within_the_rated_secondary_current", grp, sel, lc, ("line", line, capname))
    for pn, (grp, rating) in topo["panels"].items():
        sel = [i for i in range(len(rows)) if not lims[i].symbols() and all(rows[i][ids.index(s)] == 0 for s in ids if s not in grp)
               and any(rows[i][ids.index(s)] != 0 for s in grp)]
        for line in "abc":
            def lc(X, keys, st, line=line, rating=rating):
                P, Q = _line_forms(keys)[line]
                B = _allow(_rv(rating), T["vtol"], T["rtol"])
                return 3 * _lin(P, X) * _lin(P, X) + _lin(Q, X) * _lin(Q, X) <= B * B
            requirement(f"panel_{pn}/line_{line}_current_within_{rating}A", grp, sel, lc, ("line", line, rating))
    for pn, (grp, rating) in topo["pods"].items():
        sel = [i for i in range(len(rows)) if not lims[i].symbols() and all(rows[i][ids.index(s)] == 0 for s in ids if s not in grp)
               and any(rows[i][ids.index(s)] != 0 for s in grp)]

        def tot(X, keys, st, rating=rating):
            return z3.Sum([X[c] for c in X] + [z3.RealVal(0)]) <= _allow(_rv(rating), T["vtol"], T["rtol"])
        requirement(f"pod_{pn}/total_current_within_{rating}A", grp, sel, tot, ("sum", rating))
    return obl


# ---------------------------------------------------------------------------- replay of counter-models on the real network
def _replay_structural(site, basic, name, detail):
    return dict(reproduced=True, kind="structural", site=site, basic_evse=basic, clause=name, observed=detail,
                how="build the network with the real factory and inspect _phase_angles / constraint_matrix / magnitudes")


def _vars(e):
    out, stack, seen = [], [e], set()
    while stack:
        x = stack.pop()
        if x.get_id() in seen:
            continue
        seen.add(x.get_id())
        if z3.is_const(x) and x.decl().kind() == z3.Z3_OP_UNINTERPRETED:
            out.append(x)
        stack.extend(x.children())
    return out


def _frac(v):
    s = str(v).rstrip("?")
    try:
        return Fraction(s)
    except (ValueError, ZeroDivisionError):
        return None


def _replay(site, basic, T, name, kind, group, X, cls, keys, hyps, goal):
    """search a counter-model over the whole constraint table, turn the
    class sums into a schedule (the whole class sum on the first station of the class) and evaluate the REAL network"""
    import numpy as np
    capsyms = SITE_ARGS[site][1]
    info = dict(site=site, basic_evse=basic, clause=name, reproduced=False)
    ids_, rows_, lims_ = T["ids"], T["rows"], T["lims"]
    symtab = {c: z3.Real(c) for c in capsyms}
    symtab["voltage"] = z3.Real("voltage")
    # the search runs over the WHOLE table (every row is a hypothesis, every station a potential load) so that the schedule it finds is one
    # the real network accepts: stations are merged into classes with identical phase, group membership and column
    allrows = list(range(len(rows_)))
    fine = {}
    for s_ in ids_:
        j = ids_.index(s_)
        fine.setdefault((T["phases"][j], s_ in group) + tuple(rows_[i][j] for i in allrows), []).append(s_)
    fkeys = list(fine)
    Y = {c: z3.Real(f"Y{c}") for c in range(len(fkeys))}
    sel_pos = None
    sub = []
    for c, k in enumerate(keys):
        members = set(cls[k])
        sub.append((X[c], z3.Sum([Y[f] for f, fk in enumerate(fkeys) if fine[fk][0] in members] + [z3.RealVal(0)])))
    s = z3.Solver()
    s.set("timeout", 30000)
    s.add(*R3_AX)
    s.add(*[h for h in hyps if not any(str(X[c]) in {str(v) for v in _vars(h)} for c in X)])     # capacities > 0, path constraints
    s.add(*[Y[c] >= 0 for c in Y])
    for i in allrows:
        P, Q = _forms(dict(T), [(fk[0],) + fk[2:] for fk in fkeys], i)
        B = _allow(lims_[i].to_z3(symtab), T["vtol"], T["rtol"])
        s.add(3 * _lin(P, Y) * _lin(P, Y) + _lin(Q, Y) * _lin(Q, Y) <= B * B)
    s.add(z3.substitute(z3.Not(goal), *sub))
    s.push()
    for c in capsyms:
        s.add(z3.Real(c) >= 10, z3.Real(c) <= 1000)
    if s.check() != z3.sat:
        s.pop()
        if s.check() != z3.sat:
            info["detail"] = "the replay search found no counter-model within its budget"
            return info
    m = s.model()
    caps = {c: _frac(m.eval(z3.Real(c), model_completion=True).as_decimal(12)) for c in capsyms}
    xs = {c: _frac(m.eval(Y[c], model_completion=True).as_decimal(12)) for c in Y}
    if any(v is None for v in list(caps.values()) + list(xs.values())):
        info["detail"] = "counter-model has non-rational values"
        return info
    keys, cls = fkeys, fine
    net = build_table(site, basic, concrete={k: float(v) for k, v in caps.items()})
    ids = list(net._EVSEs.keys())
    sched = np.zeros((len(ids), 1))
    for c, k in enumerate(keys):
        for member in cls[k]:                      # the class sum is spread evenly over the class
            sched[ids.index(member), 0] = float(xs[c]) / len(cls[k])
    feasible = bool(net.is_feasible(sched))
    ph = [float(p) for p in net._phase_angles]

    def phasor(angle):
        return sum(sched[ids.index(x), 0] * complex(math.cos(math.radians(angle)), math.sin(math.radians(angle))) for x in group if ph[ids.index(x)] == angle)
    ab, bc, ca = phasor(30), phasor(-90), phasor(150)
    lines = dict(a=abs(ab - ca), b=abs(bc - ab), c=abs(ca - bc))
    total = sum(sched[ids.index(x), 0] for x in group)
    tol = lambda L: max(net.violation_tolerance, net.relative_tolerance * L)
    if kind[0] == "power":
        cap = float(caps[kind[1]])
        L = cap * 1000 / 360
        observed, bound = 120 * math.sqrt(3) * total, 360 * (L + tol(L))
    elif kind[0] == "line":
        rating = kind[2]
        L = float(caps[rating]) * 1000 / 360 if isinstance(rating, str) else float(rating)
        observed, bound = lines[kind[1]], L + tol(L)
    else:
        observed, bound = total, kind[1] + tol(kind[1])
    info.update(capacities={k: float(v) for k, v in caps.items()}, schedule={s_: float(sched[ids.index(s_), 0]) for s_ in ids if sched[ids.index(s_), 0] != 0},
                network_reports_feasible=feasible, observed=observed, rating=bound,
                how="acnportal.acnsim.sites.<factory>(basic_evse, capacities); net.is_feasible(schedule column); first-principles quantity vs rating")
    info["reproduced"] = bool(feasible and observed > bound * (1 + 1e-9))
    return info


for _site in SITE_ARGS:
    for _basic in (False, True):
        REG.lemma(f"C16.{_site}.{'basic' if _basic else 'real'}_evses", site_lemma(_site, _basic), props=("C16",))
