"""Contracts for acnportal/acnsim/models/ev.py  (C02 ledger, C03 bounds)."""
from pyvc.contracts_api import REG, C, RaiseSpec
from pyvc.dsl import And, Or, Not, Implies, If, Eq
from pyvc.vtypes import Real, Int, Bool, Id, Ref, Opt
from .battery import battery_inv, _energy

M = "acnportal.acnsim.models.ev."


def ev_inv(e):
    """An EV owns a valid battery; delivered energy is the charge its battery gained (C02)."""
    return And(battery_inv(e._battery),
               Eq(e._energy_delivered, e._battery._current_charge - e._battery._init_charge))


def ev_wf(e):
    return battery_inv(e._battery)


REG.contract(
    M + "EV.charge",
    params=dict(self=Ref("EV"), pilot=Real, voltage=Real, period=Real), ret=Real,
    requires=[C("battery_inv", lambda s: ev_wf(s.self)), C("pilot_nonneg", lambda s: s.pilot >= 0)],
    raises=[RaiseSpec("ValueError", lambda s: Or(s.voltage <= 0, s.period <= 0), iff=True, unchanged=True)],
    modifies=["EV._energy_delivered", "EV._current_charging_rate",
              ("Battery._current_charge", lambda s: [s.self._battery]),
              ("Battery._current_charging_power", lambda s: [s.self._battery])],
    ensures=[
        C("C03.ev_bounds", lambda old, new, ret: [("rate_nonneg", ret >= 0), ("rate_le_pilot", ret <= old.pilot)]),
        C("C02.ev_ledger", lambda old, new, ret: [
            ("energy", Eq(new.self._energy_delivered,
                          old.self._energy_delivered + _energy(ret, old.voltage, old.period))),
            ("rate_recorded", Eq(new.self._current_charging_rate, ret)),
            ("equals_battery_gain", Eq(new.self._energy_delivered - old.self._energy_delivered,
                                       new.self._battery._current_charge - old.self._battery._current_charge)),
            ("inv_carried", Implies(ev_inv(old.self), ev_inv(new.self))),
        ]),
        C("C03.battery_bounds", lambda old, new, ret: [
            ("battery_inv", battery_inv(new.self._battery)),
            ("power_le_max", new.self._battery._current_charging_power <= old.self._battery._max_power),
            ("charge_mono", new.self._battery._current_charge >= old.self._battery._current_charge),
            ("same_battery", new.self._battery == old.self._battery),
        ]),
    ],
)

REG.contract(
    M + "EV.reset",
    params=dict(self=Ref("EV")),
    requires=[C("battery_inv", lambda s: ev_wf(s.self)),
              C("init_ok", lambda s: And(s.self._battery._init_charge >= 0,
                                         s.self._battery._init_charge <= s.self._battery._capacity))],
    modifies=["EV._energy_delivered",
              ("Battery._current_charge", lambda s: [s.self._battery]),
              ("Battery._current_charging_power", lambda s: [s.self._battery])],
    ensures=[C("C02.reset_restores_inv", lambda old, new, ret: [
        Eq(new.self._energy_delivered, 0), ev_inv(new.self),
        Eq(new.self._battery._current_charge, old.self._battery._init_charge)])],
)
