"""Contracts for acnportal/acnsim/simulator.py  (C01 lifecycle, C04 schedules, C05 invocation, C09 resume)."""
import z3
from pyvc.vtypes import FA
from pyvc.contracts_api import REG, C, RaiseSpec, LoopSpec
from pyvc.dsl import And, Or, Not, Implies, If, Eq, IsNone, AllIdx, AnyIdx
from pyvc.vtypes import Real, Int, Bool, Id, Ref, Opt, Seq, Tup, Mat, Map, IdSort, RefSort
from pyvc import heaplib as H
from pyvc import vtypes as ty
from .events import qinv, bag, bag_same_except, TSA, P
from .network import net_wf, occ, station_known
from .feasibility import net_shapes

S = "acnportal.acnsim.simulator.Simulator."

FRESH_UNPLUG = z3.Function("fresh_unplug", RefSort, RefSort)     # Skolem: the Unplug event created for a Plugin event


def sim_wf(s, sim):
    return And(net_wf(s, sim.network), qinv(s, sim.event_queue))


def _is(ev, t):
    return Eq(ev.event_type, t)


def same_seq(a, b):
    va, vb = a.v, b.v
    return And(va.len == vb.len, *[x == y for x, y in zip(va.arrs, vb.arrs)])


def same_map(a, b):
    from pyvc import vtypes as ty
    ca, cb = ty.pack(ty.MapT(a._v.key, a._v.val, a._v.keys is not None), a._v), ty.pack(ty.MapT(b._v.key, b._v.val, b._v.keys is not None), b._v)
    return And(*[x == y for x, y in zip(ca, cb)])


def _process_post(old, new, ret):
    e = old.event
    sim = old.self
    evx = e.as_("EVEvent").ev
    q_old, q_new = old.self.event_queue, new.self.event_queue
    x = z3.Const("bx!pe", RefSort)
    plug = [
        ("plugin.occupant", Implies(_is(e, "Plugin"), occ(new, sim.network, evx._station_id.val) == evx.ref)),
        ("plugin.history", Implies(_is(e, "Plugin"), And(new.self.ev_history.has(evx._session_id),
                                                          new.self.ev_history[evx._session_id] == evx))),
        ("plugin.one_unplug_scheduled_at_departure", Implies(_is(e, "Plugin"), z3.Exists([x], z3.And(
            z3.Not(old.alloc_ref(x)), x != 0,
            new.field_of(x, "Event", "timestamp") == evx._departure,
            Eq(new.field_of(x, "Event", "event_type"), "Unplug"), Eq(new.field_of(x, "Event", "precedence"), 0),
            new.field_of(x, "EVEvent", "ev").ref == evx.ref,
            bag_same_except(old, q_old, new, q_new, x, 1),
            q_new._queue.len == q_old._queue.len + 1)))),
        ("plugin.flags", Implies(_is(e, "Plugin"), And(new.self._resolve, Not(new.self._last_schedule_update.isnone),
                                                       new.self._last_schedule_update.val == e.timestamp))),
    ]
    unplug = [
        ("unplug.vacates_if_session_matches", Implies(And(_is(e, "Unplug"), occ(old, sim.network, evx._station_id.val) == evx.ref),
                                                      occ(new, sim.network, evx._station_id.val) == 0)),
        ("not_plugin.queue_unchanged", Implies(Not(_is(e, "Plugin")), same_seq(new.self.event_queue._queue, q_old._queue))),
        ("not_plugin.history_unchanged", Implies(Not(_is(e, "Plugin")), same_map(new.self.ev_history, old.self.ev_history))),
        ("unknown_type.nothing", Implies(Not(Or(_is(e, "Plugin"), _is(e, "Unplug"), _is(e, "Recompute"))),
                                         And(new.self._resolve == old.self._resolve))),
        ("unplug.flags", Implies(_is(e, "Unplug"), And(new.self._resolve, new.self._last_schedule_update.val == e.timestamp,
                                                       Not(new.self._last_schedule_update.isnone)))),
    ]
    sid = evx._station_id.val
    frames = [
        ("plugin.other_stations_keep_their_occupant", Implies(_is(e, "Plugin"), occupants_frame(old, new, sim.network, sid))),
        ("unplug.other_stations_keep_their_occupant", Implies(_is(e, "Unplug"), occupants_frame(old, new, sim.network, sid))),
        ("unplug.station_is_vacated_or_keeps_its_occupant", Implies(_is(e, "Unplug"), Or(occ(new, sim.network, sid) == 0,
                                                                                          occ(new, sim.network, sid) == occ(old, sim.network, sid)))),
        ("unplug.a_different_session_is_never_vacated_silently", Implies(And(_is(e, "Unplug"), occ(old, sim.network, sid) != 0,
                                                                           Not(old.field_of(occ(old, sim.network, sid), "EV", "_session_id") == evx._session_id)),
                                                                       occ(new, sim.network, sid) == occ(old, sim.network, sid))),
        ("recompute.every_station_keeps_its_occupant", Implies(Not(Or(_is(e, "Plugin"), _is(e, "Unplug"))), occupants_frame(old, new, sim.network))),
    ]
    other = frames + [
        ("recompute.only_resolve", Implies(_is(e, "Recompute"), And(new.self._resolve,
                                                                    Eq(new.self._last_schedule_update.isnone, old.self._last_schedule_update.isnone)))),
        ("qinv", qinv(new, new.self.event_queue)),
        ("net_wf", net_wf(new, new.self.network)),
        ("occupants_wf", occupants_wf(new, old.self.network)),
    ]
    return plug + unplug + other


REG.contract(
    S + "_process_event", params=dict(self=Ref("Simulator"), event=Ref("Event")),
    requires=[C("wf", lambda s: sim_wf(s, s.self)),
              C("event_carries_ev", lambda s: Implies(Or(_is(s.event, "Plugin"), _is(s.event, "Unplug")),
                                                      And(s.event.as_("EVEvent").ev.ref != 0, s.alloc_ref(s.event.as_("EVEvent").ev.ref)))),
              C("verbose_off", lambda s: Not(s.self.verbose)),
              C("occupants_wf", lambda s: And(occupants_wf(s, s.self.network),
                                              Implies(_is(s.event, "Plugin"), __import__("contracts.ev", fromlist=["ev_wf"]).ev_wf(s.event.as_("EVEvent").ev))))],
    raises=[RaiseSpec("KeyError", lambda s: Or(
                And(_is(s.event, "Plugin"), Not(station_known(s.self.network, s.event.as_("EVEvent").ev._station_id))),
                And(_is(s.event, "Unplug"), Not(station_known(s.self.network, s.event.as_("EVEvent").ev._station_id)))),
                      iff=True, unchanged=True),
            RaiseSpec("StationOccupiedError", lambda s: And(
                _is(s.event, "Plugin"), station_known(s.self.network, s.event.as_("EVEvent").ev._station_id),
                occ(s, s.self.network, s.event.as_("EVEvent").ev._station_id.val) != 0), iff=True, unchanged=True)],
    modifies=[("BaseEVSE._ev", "ALL"), ("BaseEVSE._current_pilot", "ALL"), "Simulator.ev_history", "Simulator._resolve", "Simulator._last_schedule_update",
              ("EventQueue._queue", lambda s: [s.self.event_queue]), ("Event.timestamp", "FRESH"), ("Event.event_type", "FRESH"),
              ("Event.precedence", "FRESH"), ("EVEvent.ev", "FRESH"), "alloc", "warnings"],
    ensures=[C("C01.process", _process_post)],
)


# ============================================================================ the run loop
A = "acnportal.algorithms.base_algorithm.BaseAlgorithm."
TYPE = ("Event.event_type#0", IdSort)
EVOF = ("EVEvent.ev#0", RefSort)
DEP = ("EV._departure#0", z3.IntSort())


def pend(q, x):
    return bag(q, x) > 0


def I1(s, sim, strict=False):
    """every pending event is in the future of (or at) the current period"""
    x = z3.Const("px!i1", RefSort)
    ts = z3.Select(TSA(s), x)
    return FA([x], z3.Implies(pend(sim.event_queue, x), (ts > sim._iteration) if strict else (ts >= sim._iteration)),
                     patterns=[bag(sim.event_queue, x)])


def valid_plugin(s, x):
    ev = z3.Select(s.heap_array(*EVOF), x)
    from .ev import ev_wf
    return z3.Implies(z3.Select(s.heap_array(*TYPE), x) == __import__("pyvc.vtypes", fromlist=["id_const"]).id_const("Plugin"),
                      z3.And(ev != 0, s.alloc_ref(ev), z3.Select(s.heap_array(*DEP), ev) > z3.Select(TSA(s), x),
                             ev_wf(s.obj(ev, "EV"))))


def V(s, sim):
    """pending plug-ins describe valid sessions (departure after the plug-in period)"""
    x = z3.Const("px!v", RefSort)
    return FA([x], z3.Implies(pend(sim.event_queue, x), z3.And(valid_plugin(s, x), carries_ev(s, x))),
                     patterns=[bag(sim.event_queue, x)])


def carries_ev(s, x):
    from pyvc.vtypes import id_const
    t = z3.Select(s.heap_array(*TYPE), x)
    ev = z3.Select(s.heap_array(*EVOF), x)
    return z3.And(z3.Or(t == id_const("Plugin"), t == id_const("Unplug"), t == id_const("Recompute")),
                  z3.Implies(z3.Or(t == id_const("Plugin"), t == id_const("Unplug")), z3.And(ev != 0, s.alloc_ref(ev))))


def calls_of(sim):
    return sim.scheduler.ghost_calls


def ledger_ok(sim):
    """_last_schedule_update is the period of the last scheduler invocation (None iff it never ran) unless a schedule is owed"""
    c = calls_of(sim)
    lu = sim._last_schedule_update
    return Implies(Not(sim._resolve), And(lu.isnone == (c.len == 0), Implies(c.len > 0, lu.val == c[c.len - 1])))


def owed(sim):
    mr, lu = sim.max_recompute, sim._last_schedule_update
    return Or(sim._resolve, And(Not(mr.isnone), Or(lu.isnone, sim._iteration - lu.val >= mr.val)))



# ============================================================================ session lifecycle invariants (C01: no StationOccupiedError / KeyError, termination)
from pyvc.vtypes import id_const
from pyvc.dsl import Given
PRECA = ("Event.precedence#0", z3.RealSort())
PLUGIN, UNPLUG, RECOMPUTE = id_const("Plugin"), id_const("Unplug"), id_const("Recompute")
HB = z3.Int("horizon!B")          # ghost parameter of run(): some bound on every pending timestamp / departure (a finite queue has one)


def _typ(s, x):
    return z3.Select(s.heap_array(*TYPE), x)


def _evof(s, x):
    return z3.Select(s.heap_array(*EVOF), x)


def _ts(s, x):
    return z3.Select(TSA(s), x)


def _dep(s, e):
    return z3.Select(s.heap_array(*DEP), e)


def _prec(s, x):
    return z3.Select(s.heap_array(*PRECA), x)


def _sid(s, e):
    return s.field_of(e, "EV", "_station_id")         # Opt(Id): .isnone / .val


def _occ_at(s, net, k):
    return s.field_of(z3.Select(net._EVSEs._v.arrs[0], k), "BaseEVSE", "_ev").ref


def pm_outer(s, sim):
    """pending multiplicity at the head of the main loop: the queue's bag"""
    return lambda x: bag(sim.event_queue, x)


def pm_inner(s, sim):
    """pending multiplicity inside `for e in current_events`: still queued, or popped for this period and not yet processed (cur[_k:])"""
    cur = s.current_events.v
    arr = cur.arrs[-1]
    return lambda x: bag(sim.event_queue, x) + H.CNT(arr, cur.len, x) - H.CNT(arr, s._k, x)


WIT2 = z3.Function("cnt_suffix_wit", H.ArrIR, z3.IntSort(), z3.IntSort(), RefSort, z3.IntSort())


def cnt_prefix_facts(arr, k, n):
    """instances of the recursive definition of cnt (multiplicity in a prefix) for the prefix lengths k and k + 1 of a list of length n  (A-LIB)"""
    x = z3.Const("cx!pf", RefSort)
    c = lambda m, y: H.CNT(arr, m, y)
    return [
        FA([x], c(0, x) == 0, patterns=[c(0, x)]),
        FA([x], z3.Implies(z3.And(k >= 0, k < n), c(k + 1, x) == c(k, x) + z3.If(z3.Select(arr, k) == x, 1, 0)), patterns=[c(k + 1, x)]),
        FA([x], z3.Implies(z3.And(k >= 0, k < n), c(k + 1, x) == c(k, x) + z3.If(z3.Select(arr, k) == x, 1, 0)), patterns=[c(k, x)]),
        FA([x], z3.Implies(z3.And(k >= 0, k <= n), z3.And(c(k, x) >= 0, c(k, x) <= c(n, x))), patterns=[c(k, x)]),
        FA([x], z3.Implies(z3.And(k >= 0, k < n), z3.And(c(k + 1, x) >= 0, c(k + 1, x) <= c(n, x))), patterns=[c(k + 1, x)]),
        FA([x], c(n, x) >= 0, patterns=[c(n, x)]),
        FA([x], z3.Implies(z3.And(k >= 0, k <= n, c(n, x) - c(k, x) > 0),
                           z3.And(WIT2(arr, k, n, x) >= k, WIT2(arr, k, n, x) < n, z3.Select(arr, WIT2(arr, k, n, x)) == x)), patterns=[c(k, x)]),
    ]


def _unplug_q(s, pm):
    """Q(x, e): x is a pending Unplug event of EV e scheduled at e's departure"""
    return lambda x, e: z3.And(pm(x) > 0, s.alloc_ref(x), x != 0, _typ(s, x) == UNPLUG, _evof(s, x) == e, _ts(s, x) == _dep(s, e))


def unplug_choice(s, pm):
    """Hilbert choice: a function symbol introduced for exactly this Q (named after the formula's AST id, so a different state gets a
    different symbol) with its defining axiom  Q(x, e) => Q(CH(e), e)"""
    x, e = z3.Const("cx!u", RefSort), z3.Const("ce!u", RefSort)
    q = _unplug_q(s, pm)
    body = q(x, e)
    ch = z3.Function(f"unplug_of!{z3.Lambda([x, e], body).get_id()}", RefSort, RefSort)
    ax = FA([x, e], z3.Implies(body, q(ch(e), e)), patterns=[z3.MultiPattern(_evof(s, x), ch(e))])
    ax2 = FA([x], z3.Implies(body_at(q, x, _evof(s, x)), q(ch(_evof(s, x)), _evof(s, x))), patterns=[_typ(s, x)])
    return ch, [ax, ax2]


def body_at(q, x, e):
    return q(x, e)


def lifecycle(s, sim, pm, extra_axioms=()):
    """K1-K6 over the pending multiplicity pm; returns tagged clauses"""
    net = sim.network
    m = net._EVSEs._v
    x, y = z3.Const("lx!k", RefSort), z3.Const("ly!k", RefSort)
    k = z3.Const("lk!k", IdSort)
    is_ev = lambda v: z3.Or(_typ(s, v) == PLUGIN, _typ(s, v) == UNPLUG)
    sidx = _sid(s, _evof(s, x))
    sidy = _sid(s, _evof(s, y))
    ch, ch_ax = unplug_choice(s, pm)
    e_k = _occ_at(s, net, k)
    u_k = ch(e_k)
    qv_ = sim.event_queue._queue.v
    ax = list(extra_axioms) + [FA([x], H.CNT(qv_.arrs[-1], qv_.len, x) >= 0, patterns=[H.CNT(qv_.arrs[-1], qv_.len, x)])]
    G = lambda goal, more=(): Given(goal, ax + list(more)) if (ax or more) else goal
    import os as _os
    _abl = _os.environ.get("VERIF_ABLATE", "")          # developer ablation switch (soundness self-test): drops one invariant clause
    return [c_ for c_ in _lifecycle_clauses(s, m, pm, x, y, k, is_ev, sidx, sidy, ch_ax, e_k, u_k, G, net) if not (_abl and _abl in c_[0])]


def _lifecycle_clauses(s, m, pm, x, y, k, is_ev, sidx, sidy, ch_ax, e_k, u_k, G, net):
    return [
        ("C01.pending_sessions_name_registered_stations",
         G(FA([x], z3.Implies(z3.And(pm(x) > 0, is_ev(x)), z3.And(z3.Not(sidx.isnone), z3.Select(m.dom, sidx.val))), patterns=[_typ(s, x)]))),
        ("C01.pending_events_have_the_precedence_of_their_type",
         G(FA([x], z3.Implies(pm(x) > 0, z3.And(z3.Implies(_typ(s, x) == UNPLUG, _prec(s, x) == 0), z3.Implies(_typ(s, x) == PLUGIN, _prec(s, x) == 10))),
              patterns=[_typ(s, x)]))),
        ("C01.every_occupant_has_its_unplug_pending_at_its_departure",
         G(FA([k], z3.Implies(z3.And(z3.Select(m.dom, k), e_k != 0),
                              z3.And(_unplug_q(s, pm)(u_k, e_k), z3.Not(_sid(s, e_k).isnone), _sid(s, e_k).val == k)),
              patterns=[z3.Select(m.arrs[0], k)]), ch_ax)),
        ("C01.no_plugin_is_pending_on_a_station_before_its_occupant_leaves",
         G(FA([x], z3.Implies(z3.And(pm(x) > 0, _typ(s, x) == PLUGIN, _occ_at(s, net, sidx.val) != 0),
                              _ts(s, x) >= _dep(s, _occ_at(s, net, sidx.val))), patterns=[_typ(s, x)]))),
        ("C01.pending_plugins_on_one_station_do_not_overlap",
         G(z3.And(FA([x, y], z3.Implies(z3.And(pm(x) > 0, pm(y) > 0, x != y, _typ(s, x) == PLUGIN, _typ(s, y) == PLUGIN, sidx.val == sidy.val),
                                        z3.Or(_dep(s, _evof(s, x)) <= _ts(s, y), _dep(s, _evof(s, y)) <= _ts(s, x))),
                     patterns=[z3.MultiPattern(_typ(s, x), _typ(s, y))]),
                  FA([x], z3.Implies(z3.And(pm(x) > 0, _typ(s, x) == PLUGIN), pm(x) <= 1), patterns=[_typ(s, x)])))),
        ("C01.horizon_bounds_every_pending_timestamp_and_departure",
         G(FA([x], z3.Implies(pm(x) > 0, z3.And(_ts(s, x) <= HB, z3.Implies(_typ(s, x) == PLUGIN, _dep(s, _evof(s, x)) <= HB))), patterns=[_typ(s, x)]))),
    ]


def unplugs_first(s, cur):
    """among the events popped for one period no Unplug comes after a Plugin (time-then-precedence order of the queue, C11)"""
    i, j = z3.Int("uf!i"), z3.Int("uf!j")
    a = cur.v.arrs[-1]
    return FA([i, j], z3.Implies(z3.And(i >= 0, i < j, j < cur.v.len), z3.Not(z3.And(_typ(s, z3.Select(a, i)) == PLUGIN, _typ(s, z3.Select(a, j)) == UNPLUG))),
              patterns=[z3.MultiPattern(z3.Select(a, i), z3.Select(a, j))])


def lifecycle_outer(s):
    return lifecycle(s, s.self, pm_outer(s, s.self))


def lifecycle_inner(s):
    cur = s.current_events.v
    return lifecycle(s, s.self, pm_inner(s, s.self), cnt_prefix_facts(cur.arrs[-1], s._k, cur.len))


def occupants_frame(old, new, net, except_station=None):
    """every station other than `except_station` keeps its occupant"""
    k = z3.Const("of!k", IdSort)
    m = net._EVSEs._v
    cond = z3.Select(m.dom, k) if except_station is None else z3.And(z3.Select(m.dom, k), k != except_station)
    return FA([k], z3.Implies(cond, _occ_at(new, net, k) == _occ_at(old, net, k)), patterns=[z3.Select(m.arrs[0], k)])


def run_pre(s):
    sim = s.self
    h = sim.event_history
    return [
        ("wf", sim_wf(s, sim)),
        ("verbose_off", Not(sim.verbose)),
        ("pending_not_in_the_past", I1(s, sim)),
        ("pending_sessions_valid", V(s, sim)),
        ("scheduler_attached", Implies(Not(IsNone(sim.scheduler)), And(
            Not(IsNone(sim.scheduler._interface)), sim.scheduler._interface._simulator == sim,
            sim.scheduler.ghost_calls.len >= 0))),
        ("calls_before_now", Implies(Not(IsNone(sim.scheduler)), AllIdx(0, calls_of(sim).len, lambda j: calls_of(sim)[j] < sim._iteration))),
        ("ledger", Implies(Not(IsNone(sim.scheduler)), ledger_ok(sim))),
        # a schedule can only be owed by a period whose events were already recorded (the interrupted period)
        ("owed_period_recorded", Implies(sim._resolve, And(h.len > 0, h[h.len - 1].timestamp == sim._iteration, I1(s, sim, strict=True)))),
        ("history_len", h.len >= 0),
        ("history_entries_live", AllIdx(0, h.len, lambda j: And(h[j].ref != 0, s.alloc_ref(h[j].ref)))),
        ("shapes", And(sim.pilot_signals.rows == sim.network._EVSEs.keys.len, sim.charging_rates.rows == sim.network._EVSEs.keys.len,
                       sim.network._voltages.len == sim.network._EVSEs.keys.len, sim.network.magnitudes.len == sim.network.constraint_index.len,
                       sim._iteration >= 0, net_shapes(s, sim.network))),
        ("occupants_own_valid_batteries", occupants_wf(s, sim.network)),
    ] + lifecycle_outer(s)


def run_inv(s):
    sim = s.self
    h = sim.event_history
    q = sim.event_queue
    return run_pre(s) + [
        ("scheduler_present", Not(IsNone(sim.scheduler))),
        ("same_objects", And(sim.event_queue == s.q_obj, sim.network == s.net_obj, sim.scheduler == s.sch_obj,
                             Eq(sim.max_recompute.isnone, s.mr0.isnone), Implies(Not(s.mr0.isnone), sim.max_recompute.val == s.mr0.val))),
        ("time_forward", sim._iteration >= s.it0),
        ("ends_one_period_after_last_event", Implies(And(q._queue.len == 0, Not(sim._resolve), sim._iteration > s.it0),
                                                     And(h.len > 0, h[h.len - 1].timestamp == sim._iteration - 1))),
    ]


def run_step(head, end):
    a, b = head.self, end.self
    t = a._iteration
    ca, cb = calls_of(a), calls_of(b)
    grew = cb.len == ca.len + 1
    had_event = b.event_history.len > a.event_history.len
    mr, lu = a.max_recompute, a._last_schedule_update
    timer = And(Not(mr.isnone), Or(lu.isnone, t - lu.val >= mr.val))
    return [
        ("C01.advance_one_period", b._iteration == t + 1),
        # nobody stays connected into (or beyond) its departure period: an occupant's Unplug is pending at its departure, and nothing of period t
        # or earlier is pending any more
        ("C01.whoever_is_connected_at_the_end_of_a_period_departs_later", FA([z3.Const("ck!rs", IdSort)], z3.Implies(
            z3.And(z3.Select(a.network._EVSEs._v.dom, z3.Const("ck!rs", IdSort)), _occ_at(end, a.network, z3.Const("ck!rs", IdSort)) != 0),
            _dep(end, _occ_at(end, a.network, z3.Const("ck!rs", IdSort))) > t),
            patterns=[z3.Select(a.network._EVSEs._v.arrs[0], z3.Const("ck!rs", IdSort))])),
        ("C05.at_most_once_per_period", Or(grew, cb.len == ca.len)),
        ("C05.invoked_iff_event_or_timer_or_owed", grew == Or(had_event, a._resolve, timer)),
        ("C05.invocation_recorded_for_this_period", Implies(grew, cb[ca.len] == t)),
        ("C05.earlier_invocations_untouched", AllIdx(0, ca.len, lambda j: cb[j] == ca[j])),
        ("C05.nothing_owed_afterwards", Not(b._resolve)),
    ] + ledger_step(head, end) + pilots_step(head, end, grew)


def pilots_step(head, end, invoked):
    """C04, one period: the pilot every station holds at the end of period t is column t of the pilot matrix; if the scheduler was invoked the matrix
    is the old one overlaid with the submitted schedule (the whole-matrix postcondition of _update_schedules, widened by zero columns only);
    if it was not invoked no recorded pilot changes and new columns are 0 (so periods no schedule covers have pilot 0)."""
    from pyvc.symex import Unsupported as _Uns
    a, b = head.self, end.self
    net = a.network
    t = a._iteration
    P0, P1 = a.pilot_signals, b.pilot_signals
    n = net._EVSEs.keys.len
    p, j = z3.Int("ps!p"), z3.Int("ps!j")
    in_net = z3.And(p >= 0, p < n)
    pilot_of = lambda st_, pp: st_.field_of(evse_at(st_, net, pp), "BaseEVSE", "_current_pilot")
    out = [
        ("C04.every_station_holds_column_t_of_the_pilot_matrix", FA([p], z3.Implies(in_net, pilot_of(end, p) == P1[p, t]), patterns=[evse_at(end, net, p)])),
        ("C04.matrix_covers_the_period_and_never_shrinks", And(P1.rows == P0.rows, P1.cols >= P0.cols, P1.cols > t)),
        ("C04.without_an_invocation_recorded_pilots_stay_and_new_columns_are_zero",
         Implies(Not(invoked), FA([p, j], z3.Implies(z3.And(in_net, j >= 0, j < P1.cols), P1[p, j] == z3.If(j < P0.cols, P0[p, j], z3.RealVal(0)))))),
    ]
    try:
        m = end.new_schedule
    except _Uns:
        return out
    # the schedule submitted in this period (local `new_schedule` of the run loop)
    ids = net._EVSEs.keys
    sidp = z3.Select(ids.v.arrs[0], p)
    L = sched_len_at(m, m.keys[0])
    in_block = z3.And(j >= t, j < t + L)
    cell = z3.If(in_block, z3.If(z3.Select(m._v.dom, sidp), sched_val_at(m, sidp, j - t), z3.RealVal(0)), z3.If(j < P0.cols, P0[p, j], z3.RealVal(0)))
    out.append(("C04.with_an_invocation_the_matrix_is_the_old_one_overlaid_with_the_submitted_schedule",
                Implies(And(invoked, m.keys.len > 0), FA([p, j], z3.Implies(z3.And(in_net, j >= 0, j < P1.cols), P1[p, j] == cell)))))
    out.append(("C04.matrix_covers_the_submitted_schedule", Implies(And(invoked, m.keys.len > 0), P1.cols >= t + L)))
    out.append(("C04.an_empty_schedule_changes_no_recorded_pilot",
                Implies(And(invoked, m.keys.len == 0), FA([p, j], z3.Implies(z3.And(in_net, j >= 0, j < P1.cols), P1[p, j] == z3.If(j < P0.cols, P0[p, j], z3.RealVal(0)))))))
    return out


def ledger_step(head, end):
    """C02, one period: what is recorded in column t of charging_rates is what every connected EV actually drew, the energy it gained is that
    rate x its station's voltage x the period length, nobody else gained anything, earlier columns are untouched, the peak is the running maximum
    of the aggregate current.  (The sums over a whole run follow by induction over the periods.)"""
    from pyvc.nplib import SUM
    a, b = head.self, end.self
    net = a.network
    t = a._iteration
    R0, R1 = a.charging_rates, b.charging_rates
    n = net._EVSEs.keys.len
    p, j = z3.Int("ls!p"), z3.Int("ls!j")
    e = end.field_of(evse_at(end, net, p), "BaseEVSE", "_ev").ref
    in_net = z3.And(p >= 0, p < n)
    rates = z3.Lambda([p], rate_of_station(end, net, p))
    return [
        ("C02.column_t_records_what_each_connected_ev_drew", FA([p], z3.Implies(in_net, R1[p, t] == rate_of_station(end, net, p)), patterns=[evse_at(end, net, p)])),
        ("C02.vacant_station_records_zero", FA([p], z3.Implies(z3.And(in_net, e == 0), R1[p, t] == 0), patterns=[evse_at(end, net, p)])),
        ("C02.energy_gained_is_recorded_rate_times_voltage_times_period",
         FA([p], z3.Implies(z3.And(in_net, e != 0), _E(end, e) == _E(head, e) + kwh(R1[p, t], z3.Select(net._voltages.v.arrs[0], p), a.period)),
            patterns=[evse_at(end, net, p)])),
        ("C02.unconnected_sessions_gain_nothing", unconnected_untouched(head, end, net)),
        ("C02.earlier_columns_untouched", FA([p, j], z3.Implies(z3.And(in_net, j >= 0, j < R0.cols, j != t), R1[p, j] == R0[p, j]))),
        ("C02.peak_is_the_running_maximum_of_the_aggregate_current", Eq(b.peak, If(a.peak >= SUM(rates, n), a.peak, SUM(rates, n)))),
    ]


def inner_inv(s):
    """for e in current_events  (index _k): the prefix cur[0.._k) has been recorded and applied"""
    sim = s.self
    cur = s.current_events
    h = sim.event_history
    t = sim._iteration
    j = z3.Int("ij!in")
    return [
        ("wf", sim_wf(s, sim)),
        ("same_objects", And(sim.event_queue == s.q_obj, sim.network == s.net_obj, sim.scheduler == s.sch_obj, t == s.t_in,
                             Not(sim.verbose), Not(IsNone(sim.scheduler)),
                             Eq(sim.max_recompute.isnone, s.mr0.isnone), Implies(Not(s.mr0.isnone), sim.max_recompute.val == s.mr0.val))),
        ("pending_strictly_later", I1(s, sim, strict=True)),
        ("pending_sessions_valid", V(s, sim)),
        ("history_is_entry_history_plus_prefix", And(h.len == s.h_in + s._k, Implies(s._k > 0, h[h.len - 1] == cur[s._k - 1]))),
        ("history_entries_live", AllIdx(0, h.len, lambda j: And(h[j].ref != 0, s.alloc_ref(h[j].ref)))),
        ("history_prefix_untouched", Implies(s.h_in > 0, h[s.h_in - 1] == s.h_last_in)),
        ("queue_untouched_while_nothing_processed", Implies(s._k == 0, same_seq(sim.event_queue._queue, s.q_in))),
        ("current_events_at_this_period", FA([j], z3.Implies(z3.And(j >= 0, j < cur.len), z3.And(
            z3.Select(TSA(s), z3.Select(cur.v.arrs[0], j)) == t, valid_plugin(s, z3.Select(cur.v.arrs[0], j)),
            carries_ev(s, z3.Select(cur.v.arrs[0], j)), z3.Select(cur.v.arrs[0], j) != 0, s.alloc_ref(z3.Select(cur.v.arrs[0], j)))),
            patterns=[z3.Select(cur.v.arrs[0], j)])),
        ("flags", And(Implies(s._k > 0, sim._resolve),
                      Implies(s._k == 0, And(sim._resolve == s.res_in, Eq(sim._last_schedule_update.isnone, s.lu_in.isnone),
                                             Implies(Not(s.lu_in.isnone), sim._last_schedule_update.val == s.lu_in.val))))),
        ("calls_untouched", And(calls_of(sim).len == s.calls_in.len, AllIdx(0, s.calls_in.len, lambda i: calls_of(sim)[i] == s.calls_in[i]))),
        ("scheduler_attached", And(Not(IsNone(sim.scheduler._interface)), sim.scheduler._interface._simulator == sim)),
        ("occupants_own_valid_batteries", occupants_wf(s, sim.network)),
        ("C01.within_a_period_unplugs_are_handled_before_plugins", unplugs_first(s, cur)),
    ] + lifecycle_inner(s)


def resumable(old, new):
    """C09(a): the state a scheduler exception leaves behind satisfies run()'s own precondition, the loop will be re-entered,
    the schedule of the interrupted period is still owed and no event of that period is pending any more - so a second run()
    reaches the same scheduler call in the same state."""
    sim = new.self
    return [(f"re-enterable.{t}", g) for t, g in run_pre(new)] + [
        ("loop_guard_holds", Or(sim.event_queue._queue.len > 0, sim._resolve)),
        ("schedule_still_owed", owed(sim)),
        ("period_events_already_applied", I1(new, sim, strict=True)),
        ("same_period", sim._iteration >= old.self._iteration),
        ("invocation_not_recorded", True),
    ]


ALLF = lambda f: (f, "ALL")
REG.contract(
    S + "run", params=dict(self=Ref("Simulator")),
    requires=[C("pre", run_pre)],
    raises=[RaiseSpec("TypeError", lambda s: IsNone(s.self.scheduler), iff=True, unchanged=True),
            RaiseSpec("SchedulerException", lambda s: True, iff=False, unchanged=False, post=resumable),
            # C01: for valid, non-overlapping sessions event processing never fails - the raise paths of _process_event are unreachable
            RaiseSpec("StationOccupiedError", lambda s: False, iff=False, unchanged=False, origin="Simulator._process_event"),
            RaiseSpec("KeyError", lambda s: False, iff=False, unchanged=False, origin="Simulator._process_event"),
            RaiseSpec("Exception", lambda s: True, iff=False, unchanged=False)],
    modifies=[ALLF("BaseEVSE._ev"), ALLF("BaseEVSE._current_pilot"), ALLF("EV._energy_delivered"), ALLF("EV._current_charging_rate"),
              ALLF("Battery._current_charge"), ALLF("Battery._current_charging_power"),
              "Simulator.ev_history", "Simulator.event_history", "Simulator.schedule_history", "Simulator._resolve",
              "Simulator._last_schedule_update", "Simulator._iteration", "Simulator.pilot_signals", "Simulator.charging_rates", "Simulator.peak",
              ALLF("EventQueue._queue"), ALLF("EventQueue._timestep"), ("Event.timestamp", "FRESH"), ("Event.event_type", "FRESH"),
              ("Event.precedence", "FRESH"), ("EVEvent.ev", "FRESH"), ALLF("BaseAlgorithm.ghost_calls"), "alloc", "warnings"],
    ensures=[C("C01.run_post", lambda old, new, ret: [
        ("queue_empty", new.self.event_queue._queue.len == 0),
        ("nothing_owed", Not(new.self._resolve)),
        ("time_forward", new.self._iteration >= old.self._iteration),
        ("ends_one_period_after_last_event", Implies(new.self._iteration > old.self._iteration, And(
            new.self.event_history.len > 0,
            new.self.event_history[new.self.event_history.len - 1].timestamp == new.self._iteration - 1))),
        # every occupant has its Unplug pending (lifecycle invariant) and nothing is pending any more: nobody is connected
        ("every_station_is_vacated_at_the_end", FA([z3.Const("vk!rp", IdSort)], z3.Implies(
            z3.Select(new.self.network._EVSEs._v.dom, z3.Const("vk!rp", IdSort)), _occ_at(new, new.self.network, z3.Const("vk!rp", IdSort)) == 0),
            patterns=[z3.Select(new.self.network._EVSEs._v.arrs[0], z3.Const("vk!rp", IdSort))])),
    ], props=("C01", "C09"))],
    loops={
        0: LoopSpec(invariant=run_inv, step=run_step,
                    # termination: while events are pending the period counter approaches the horizon bound; once the queue is empty at most
                    # the one owed schedule is computed
                    decreases=lambda s: z3.If(s.self.event_queue._queue.len > 0, HB - s.self._iteration + 2, z3.If(s.self._resolve, z3.IntVal(1), z3.IntVal(0))),
                    ghost=lambda v: dict(it0=v.self._iteration, q_obj=v.self.event_queue, net_obj=v.self.network,
                                         sch_obj=v.self.scheduler, mr0=v.self.max_recompute),
                    modifies=[ALLF("BaseEVSE._ev"), ALLF("BaseEVSE._current_pilot"), ALLF("EV._energy_delivered"), ALLF("EV._current_charging_rate"),
                              ALLF("Battery._current_charge"), ALLF("Battery._current_charging_power"),
                              ("Simulator.ev_history", lambda s: [s.self]), ("Simulator.event_history", lambda s: [s.self]),
                              ("Simulator.schedule_history", lambda s: [s.self]), ("Simulator._resolve", lambda s: [s.self]),
                              ("Simulator._last_schedule_update", lambda s: [s.self]), ("Simulator._iteration", lambda s: [s.self]),
                              ("Simulator.pilot_signals", lambda s: [s.self]), ("Simulator.charging_rates", lambda s: [s.self]),
                              ("Simulator.peak", lambda s: [s.self]),
                              ("EventQueue._queue", lambda s: [s.self.event_queue]), ("EventQueue._timestep", lambda s: [s.self.event_queue]),
                              ("Event.timestamp", "FRESH"), ("Event.event_type", "FRESH"), ("Event.precedence", "FRESH"), ("EVEvent.ev", "FRESH"),
                              ("BaseAlgorithm.ghost_calls", lambda s: [s.self.scheduler]), "alloc", "warnings"]),
        1: LoopSpec(invariant=inner_inv,
                    ghost=lambda v: dict(t_in=v.self._iteration, h_in=v.self.event_history.len, res_in=v.self._resolve,
                                         h_last_in=v.self.event_history[v.self.event_history.len - 1], q_in=v.self.event_queue._queue,
                                         lu_in=v.self._last_schedule_update, calls_in=v.self.scheduler.ghost_calls),
                    modifies=[ALLF("BaseEVSE._ev"), ALLF("BaseEVSE._current_pilot"),
                              ("Simulator.ev_history", lambda s: [s.self]), ("Simulator.event_history", lambda s: [s.self]),
                              ("Simulator._resolve", lambda s: [s.self]), ("Simulator._last_schedule_update", lambda s: [s.self]),
                              ("EventQueue._queue", lambda s: [s.self.event_queue]),
                              ("Event.timestamp", "FRESH"), ("Event.event_type", "FRESH"), ("Event.precedence", "FRESH"), ("EVEvent.ev", "FRESH"),
                              "alloc", "warnings"]),
    },
    # C01: for valid, non-overlapping sessions (lifecycle invariants) processing an event never fails
    extra=dict(callee_never_raises={"Simulator._process_event": ["StationOccupiedError", "KeyError"]}),
)

# ---------------------------------------------------------------------------- callees of the loop (contracts)
REG.contract(
    A + "run", params=dict(self=Ref("BaseAlgorithm")), ret=Map(Id, Seq(Real), ordered=True),
    assumed="the scheduling algorithm is user code: it returns some mapping station id -> list of pilots, may raise, and does not write "
            "simulator state (it only sees the copies handed out by Interface - that isolation is what C05 checks); "
            "ghost_calls records the period of the invocation",
    requires=[C("attached", lambda s: And(Not(IsNone(s.self._interface)))),
              C("C05.events_of_the_period_already_applied", lambda s: I1(s, s.self._interface._simulator, strict=True)),
              # what the scheduler then reads through Interface is well-formed: the observation accessors (contracts/interface.py) require it
              C("C05.every_connected_ev_carries_its_stations_id", lambda s: occupants_know_their_station(s, s.self._interface._simulator.network))],
    raises=[RaiseSpec("SchedulerException", lambda s: True, iff=False, unchanged=True)],
    modifies=[("BaseAlgorithm.ghost_calls", lambda s: [s.self])],
    ensures=[C("ghost", lambda old, new, ret: [
        sched_wf(new, ret), FA([z3.Const("uk!r", IdSort)], sched_len_at(ret, z3.Const("uk!r", IdSort)) >= 0),
        new.self.ghost_calls.len == old.self.ghost_calls.len + 1,
        new.self.ghost_calls[old.self.ghost_calls.len] == old.self._interface._simulator._iteration,
        AllIdx(0, old.self.ghost_calls.len, lambda j: new.self.ghost_calls[j] == old.self.ghost_calls[j])])],
)
def sched_wf(s, m):
    """a submitted schedule: ordered mapping station id -> list of pilots"""
    from pyvc import maplib
    return maplib.keys_wf(m._v)


def sched_len_at(m, key):
    """length of the list stored under `key` (component 1 of the Seq(Real) value arrays)"""
    return z3.Select(m._v.arrs[1], key)


def sched_val_at(m, key, j):
    return z3.Select(z3.Select(m._v.arrs[0], key), j)


def all_known(s, sim, m):
    k = z3.Const("uk!all", IdSort)
    return FA([k], z3.Implies(z3.Select(m._v.dom, k), sim.network._EVSEs.has(k)), patterns=[z3.Select(m._v.dom, k)])


def equal_lengths(m):
    k1, k2 = z3.Const("uk!1", IdSort), z3.Const("uk!2", IdSort)
    return FA([k1, k2], z3.Implies(z3.And(z3.Select(m._v.dom, k1), z3.Select(m._v.dom, k2)), sched_len_at(m, k1) == sched_len_at(m, k2)),
                     patterns=[z3.MultiPattern(sched_len_at(m, k1), sched_len_at(m, k2))])


def _us_post(old, new, ret):
    sim, m = old.self, old.new_schedule
    P, Pn = old.self.pilot_signals, new.self.pilot_signals
    t = sim._iteration
    ids = sim.network._EVSEs.keys              # station order = registration order
    nonempty = m.keys.len > 0
    L = sched_len_at(m, m.keys[0])
    W = P.cols
    q = sim.event_queue
    last_plus_1 = z3.Int("us!lastp1")          # existentially: the queue's last timestamp + 1 (0 if empty), only its lower-bound role matters
    i, j = z3.Int("us!i"), z3.Int("us!j")
    sid = z3.Select(ids.v.arrs[0], i)
    in_block = z3.And(j >= t, j < t + L)
    cell = z3.If(in_block, z3.If(z3.Select(m._v.dom, sid), sched_val_at(m, sid, j - t), z3.RealVal(0)),
                 z3.If(j < W, P[i, j], z3.RealVal(0)))
    return [
        ("empty_schedule_changes_nothing", Implies(Not(nonempty), And(Pn.rows == P.rows, Pn.cols == P.cols, Pn.arr == P.arr))),
        ("rows_kept", Pn.rows == P.rows),
        ("width_covers_the_schedule_and_never_shrinks", Implies(nonempty, And(Pn.cols >= W, Pn.cols >= t + L,
                                                                               Implies(t + L <= W, Pn.cols == W)))),
        ("every_cell", Implies(nonempty, FA([i, j], z3.Implies(z3.And(i >= 0, i < P.rows, j >= 0, j < Pn.cols), Pn[i, j] == cell)))),
    ]


REG.contract(
    S + "_update_schedules", params=dict(self=Ref("Simulator"), new_schedule=Map(Id, Seq(Real), ordered=True)),
    requires=[C("wf", lambda s: And(sim_wf(s, s.self), sched_wf(s, s.new_schedule))),
              C("shapes", lambda s: And(s.self.pilot_signals.rows == s.self.network._EVSEs.keys.len, s.self.pilot_signals.cols >= 0,
                                        s.self._iteration >= 0)),
              C("lists", lambda s: FA([z3.Const("uk!l", IdSort)], sched_len_at(s.new_schedule, z3.Const("uk!l", IdSort)) >= 0)),
              C("aligned_shapes", lambda s: net_shapes(s, s.self.network))],
    raises=[RaiseSpec("KeyError", lambda s: And(s.new_schedule.keys.len > 0, Not(all_known(s, s.self, s.new_schedule))), iff=True, unchanged=True),
            RaiseSpec("InvalidScheduleError", lambda s: And(s.new_schedule.keys.len > 0, all_known(s, s.self, s.new_schedule),
                                                             Not(equal_lengths(s.new_schedule))), iff=True, unchanged=True)],
    modifies=[("Simulator.pilot_signals", lambda s: [s.self]), "warnings"],
    ensures=[C("C04.overlay", _us_post, props=("C04", "C10"))],      # keyed by station id: independent of the order of the mapping's entries
    loops={0: LoopSpec(invariant=lambda s: [("prefix_known", AllIdx(0, s._k, lambda i: s.self.network._EVSEs.has(s.new_schedule.keys[i])))])},
    # of the feasibility check only two structural facts matter here (the verdict merely decides whether a warning is issued)
    extra=dict(callee_views={"acnportal.acnsim.network.charging_network.ChargingNetwork.is_feasible": ("C06.no_constraints", "C06.no_periods")}),
)
def mat_cells(f, rows, cols, name="m"):
    """forall 0 <= i < rows, 0 <= j < cols. f(i, j)"""
    i, j = z3.Int(f"{name}!i"), z3.Int(f"{name}!j")
    return FA([i, j], z3.Implies(z3.And(i >= 0, i < rows, j >= 0, j < cols), f(i, j)))


REG.contract(
    "acnportal.acnsim.simulator._increase_width", params=dict(a=Mat, target_width=Int), ret=Mat, modifies=[],
    requires=[C("shape", lambda s: And(s.a.rows >= 0, s.a.cols >= 0))],
    ensures=[C("C04.width", lambda old, new, ret: [
        ("rows", ret.rows == old.a.rows),
        ("cols", ret.cols == If(old.target_width <= old.a.cols, old.a.cols, old.target_width)),
        ("old_content_kept", mat_cells(lambda i, j: ret[i, j] == old.a[i, j], old.a.rows, old.a.cols, "iw1")),
        ("new_columns_zero", mat_cells(lambda i, j: z3.Implies(j >= old.a.cols, ret[i, j] == 0), ret.rows, ret.cols, "iw2")),
    ], props=("C04",))],
)
N_ = "acnportal.acnsim.network.charging_network.ChargingNetwork."
def evse_at(s, net, k):
    """reference of the k-th registered EVSE"""
    m = net._EVSEs._v
    return z3.Select(m.arrs[0], z3.Select(m.keys.arrs[0], k))


EDEL = ("EV._energy_delivered#0", z3.RealSort())
ERATE = ("EV._current_charging_rate#0", z3.RealSort())
BCH = ("Battery._current_charge#0", z3.RealSort())


def _E(s, e):
    return z3.Select(s.heap_array(*EDEL), e)


def _rate(s, e):
    return z3.Select(s.heap_array(*ERATE), e)


def _bcharge(s, e):
    """stored charge of the battery of EV e"""
    return z3.Select(s.heap_array(*BCH), s.field_of(e, "EV", "_battery").ref)


def occupants_know_their_station(s, net):
    """an EV connected to station k carries station id k (hence no EV is connected to two stations)"""
    k = z3.Const("oks!k", IdSort)
    m = net._EVSEs._v
    e = _occ_at(s, net, k)
    return FA([k], z3.Implies(z3.And(z3.Select(m.dom, k), e != 0), z3.And(z3.Not(_sid(s, e).isnone), _sid(s, e).val == k)),
              patterns=[z3.Select(m.arrs[0], k)])


def is_occupant(s, net, e):
    sid = _sid(s, e)
    return z3.And(z3.Not(sid.isnone), z3.Select(net._EVSEs._v.dom, sid.val), _occ_at(s, net, sid.val) == e)


def kwh(rate, voltage, period):
    return rate * voltage / 1000 * (period / 60)


def ledger_stations(a, b, net, volts, period, lo, hi, charged):
    """for the stations at registration positions lo <= p < hi: the occupant's delivered energy in state b is its energy in state a plus (charged)
    rate_b x V_p x dt - or (not charged) exactly what it was in a.  (That the same amount enters the battery is the per-call contract of EV.charge;
    carrying it through the loop would need "no two EVs share a battery" as an invariant - A-OWN - and is left to the per-call proof.)"""
    p = z3.Int("lg!p")
    e = b.field_of(evse_at(b, net, p), "BaseEVSE", "_ev").ref
    if charged:
        body = _E(b, e) == _E(a, e) + kwh(_rate(b, e), z3.Select(volts.v.arrs[0], p), period)
    else:
        body = z3.And(_E(b, e) == _E(a, e), _rate(b, e) == _rate(a, e))
    return FA([p], z3.Implies(z3.And(p >= lo, p < hi, e != 0), body), patterns=[evse_at(b, net, p)])


def unconnected_untouched(a, b, net):
    """an EV that is not connected to a station of this network neither gains energy nor changes its recorded rate"""
    e = z3.Const("lg!e", RefSort)
    return FA([e], z3.Implies(z3.Not(is_occupant(b, net, e)), z3.And(_E(b, e) == _E(a, e), _rate(b, e) == _rate(a, e))),
              patterns=[_E(b, e)])


def _up_inv(s):
    net = s.self
    j = z3.Int("up!j")
    pil = lambda r: s.field_of(r, "BaseEVSE", "_current_pilot")
    n = net._EVSEs.keys.len
    ledger = [
        ("C02.stations_before_k_charged_their_occupant_once", ledger_stations(s.entry_state, s, net, net._voltages, s.period, 0, s._k, True)),
        ("C02.stations_from_k_on_untouched", ledger_stations(s.entry_state, s, net, net._voltages, s.period, s._k, n, False)),
        ("C02.unconnected_evs_untouched", unconnected_untouched(s.entry_state, s, net)),
        ("occupants_know_their_station", occupants_know_their_station(s, net)),
    ]
    return ledger + [
        ("wf", net_wf(s, net)),
        ("ids_are_the_registered_stations", And(s.ids.len == net._EVSEs.keys.len,
                                                AllIdx(0, s.ids.len, lambda i: s.ids[i] == net._EVSEs.keys[i]))),
        ("stations_before_k_got_their_pilot", FA([j], z3.Implies(z3.And(j >= 0, j < s._k), pil(evse_at(s, net, j)) == s.pilots[j, s.i]))),
        ("occupants_wf", occupants_wf(s, net)),
        ("valid_batteries_stay_valid", batteries_keep_inv(s.entry_state, s)),
    ]


def _binv_at(s, b):
    cap = z3.Select(s.heap_array("Battery._capacity#0", z3.RealSort()), b)
    ch = z3.Select(s.heap_array("Battery._current_charge#0", z3.RealSort()), b)
    mp = z3.Select(s.heap_array("Battery._max_power#0", z3.RealSort()), b)
    return z3.And(cap > 0, ch >= 0, ch <= cap, mp > 0)


def batteries_keep_inv(a, b_):
    """every battery object that satisfied the Battery invariant in state a satisfies it in state b_ (connected or not)"""
    b = z3.Const("bk!b", RefSort)
    from pyvc.vtypes import FA
    return FA([b], z3.Implies(_binv_at(a, b), _binv_at(b_, b)),
              patterns=[z3.Select(b_.heap_array("Battery._current_charge#0", z3.RealSort()), b)])


def occupants_wf(s, net):
    """every connected EV owns a valid battery (class invariant of Battery) - needed by set_pilot"""
    from .ev import ev_wf
    k = z3.Const("ow!k", IdSort)
    m = net._EVSEs._v
    evr = lambda kk: s.field_of(z3.Select(m.arrs[0], kk), "BaseEVSE", "_ev")
    return FA([k], z3.Implies(z3.And(z3.Select(m.dom, k), evr(k).ref != 0), ev_wf(evr(k))), patterns=[z3.Select(m.arrs[0], k)])


REG.contract(
    N_ + "update_pilots", params=dict(self=Ref("ChargingNetwork", exact=True), pilots=Mat, i=Int, period=Real),
    requires=[C("wf", lambda s: And(net_wf(s, s.self), occupants_wf(s, s.self))),
              C("shapes", lambda s: And(s.pilots.rows == s.self._EVSEs.keys.len, s.self._voltages.len == s.self._EVSEs.keys.len,
                                        s.i >= 0, s.i < s.pilots.cols)),
              C("occupants_know_their_station", lambda s: occupants_know_their_station(s, s.self))],
    raises=[RaiseSpec("InvalidRateError", lambda s: True, iff=False, unchanged=False),
            RaiseSpec("ValueError", lambda s: True, iff=False, unchanged=False)],
    modifies=[ALLF("BaseEVSE._current_pilot"), ALLF("EV._energy_delivered"), ALLF("EV._current_charging_rate"),
              ALLF("Battery._current_charge"), ALLF("Battery._current_charging_power")],
    ensures=[C("C04.column_i_is_sent_to_every_station", lambda old, new, ret: [
        ("every_station_has_its_pilot", FA([z3.Int("up!p")], z3.Implies(z3.And(z3.Int("up!p") >= 0, z3.Int("up!p") < old.self._EVSEs.keys.len),
                                                  new.field_of(evse_at(old, old.self, z3.Int("up!p")), "BaseEVSE", "_current_pilot") == old.pilots[z3.Int("up!p"), old.i]))),
        ("C02.every_occupant_gains_its_rate_times_voltage_times_period", ledger_stations(old, new, old.self, old.self._voltages, old.period, 0, old.self._EVSEs.keys.len, True)),
        ("C02.unconnected_evs_gain_nothing", unconnected_untouched(old, new, old.self)),
        ("occupants_still_own_valid_batteries", occupants_wf(new, old.self)),
        ("valid_batteries_stay_valid", batteries_keep_inv(old, new)),
        ("registry_untouched", net_wf(new, old.self)),
    ], props=("C04", "C02"))],
    loops={0: LoopSpec(invariant=_up_inv, ghost=lambda v: dict(entry_state=v), modifies=[ALLF("BaseEVSE._current_pilot"), ALLF("EV._energy_delivered"), ALLF("EV._current_charging_rate"),
                                                     ALLF("Battery._current_charge"), ALLF("Battery._current_charging_power")])},
)


def rate_of_station(s, net, k):
    """recorded-rate source: the occupant's current charging rate, 0 if vacant"""
    ev = s.field_of(evse_at(s, net, k), "BaseEVSE", "_ev")
    return z3.If(ev.ref != 0, s.field_of(ev.ref, "EV", "_current_charging_rate"), z3.RealVal(0))


REG.contract(
    N_ + "current_charging_rates", params=dict(self=Ref("ChargingNetwork", exact=True)), ret=Seq(Real), modifies=[],
    requires=[C("wf", lambda s: net_wf(s, s.self))],
    ensures=[C("C02.rates_read_back_from_connected_evs", lambda old, new, ret: [
        ("one_per_station", ret.len == old.self._EVSEs.keys.len),
        ("value", FA([z3.Int("cr!k")], z3.Implies(z3.And(z3.Int("cr!k") >= 0, z3.Int("cr!k") < ret.len),
                                                       ret[z3.Int("cr!k")] == rate_of_station(old, old.self, z3.Int("cr!k"))))),
    ], props=("C02",))],
)


def _store_post(old, new, ret):
    from pyvc.nplib import SUM
    sim = old.self
    R, Rn = sim.charging_rates, new.self.charging_rates
    t = sim._iteration
    i, j = z3.Int("st!i"), z3.Int("st!j")
    rates = z3.Lambda([i], rate_of_station(old, sim.network, i))
    cell = z3.If(j == t, rate_of_station(old, sim.network, i), z3.If(j < R.cols, R[i, j], z3.RealVal(0)))
    return [
        ("rows_kept", Rn.rows == R.rows),
        ("width", And(Rn.cols >= R.cols, Rn.cols > t)),
        ("column_t_is_the_current_rates_everything_else_kept", FA([i, j], z3.Implies(z3.And(i >= 0, i < R.rows, j >= 0, j < Rn.cols), Rn[i, j] == cell))),
        ("peak_is_running_max_of_aggregate_current", Eq(new.self.peak, If(sim.peak >= SUM(rates, R.rows), sim.peak, SUM(rates, R.rows)))),
    ]


REG.contract(
    S + "_store_actual_charging_rates", params=dict(self=Ref("Simulator")),
    requires=[C("wf", lambda s: sim_wf(s, s.self)),
              C("shapes", lambda s: And(s.self.charging_rates.rows == s.self.network._EVSEs.keys.len, s.self._iteration >= 0)),
              C("pending_not_in_the_past", lambda s: I1(s, s.self))],
    modifies=[("Simulator.charging_rates", lambda s: [s.self]), ("Simulator.peak", lambda s: [s.self])],
    ensures=[C("C02.store", _store_post, props=("C02",))],
)
REG.contract(N_ + "post_charging_update", params=dict(self=Ref("ChargingNetwork", exact=True)), modifies=[], ensures=[])


# ============================================================================ whole-run closed forms by induction over the periods (C04 / C02)
# The run loop's step contract (pilots_step / ledger_step above) is proved for one arbitrary iteration from the inductive invariant.  The lemmas below
# are the induction that turns those per-period clauses into the closed statements about a whole run.  Their hypotheses restate the step clauses
# (named in each lemma) over plain arrays; `_step_clauses_exist` keeps the two texts tied together: if a clause a lemma leans on disappears from the
# step contract, the lemma reports an undischargeable obligation instead of silently proving a statement about nothing.
_AII = z3.ArraySort(z3.IntSort(), z3.ArraySort(z3.IntSort(), z3.RealSort()))


def _step_clauses_exist(*tags):
    import inspect
    src = inspect.getsource(pilots_step) + inspect.getsource(ledger_step) + inspect.getsource(run_step)
    return z3.BoolVal(all(('"' + t + '"') in src for t in tags))


def _overlay_induction():
    """OV_k(p, j): the pilot the first k submitted schedules assign to station p in period j - the value of the LATEST schedule that covers j, 0 for a
    station it omits, 0 if none covers j.  OV_{k+1} = the new schedule's value inside its block [t, t+L), OV_k elsewhere.  Closed form: every recorded
    cell equals OV_k and OV_k is 0 beyond the recorded width."""
    P0, P1, OV0, OV1, VAL = (z3.Const(n_, _AII) for n_ in ("ovl_P0", "ovl_P1", "ovl_OVk", "ovl_OVk1", "ovl_val"))
    HAS = z3.Const("ovl_has", z3.ArraySort(z3.IntSort(), z3.BoolSort()))
    n, c0, c1, t, L, p, j = z3.Ints("ovl_n ovl_c0 ovl_c1 ovl_t ovl_L ovl_p ovl_j")
    invoked, nonempty = z3.Bools("ovl_invoked ovl_nonempty")
    cellf = lambda A_, pp, jj: ty.sel(A_, pp, jj)
    inn = z3.And(p >= 0, p < n)
    closed0 = FA([p, j], z3.Implies(z3.And(inn, j >= 0, j < c0), cellf(P0, p, j) == cellf(OV0, p, j)))
    tail0 = FA([p, j], z3.Implies(z3.And(inn, j >= c0), cellf(OV0, p, j) == 0))
    in_block = z3.And(j >= t, j < t + L)
    old_or_zero = z3.If(j < c0, cellf(P0, p, j), z3.RealVal(0))
    new_cell = z3.If(in_block, z3.If(z3.Select(HAS, p), cellf(VAL, p, j - t), z3.RealVal(0)), old_or_zero)
    step = [  # the three C04 clauses of pilots_step, verbatim in shape
        z3.Implies(z3.Not(invoked), FA([p, j], z3.Implies(z3.And(inn, j >= 0, j < c1), cellf(P1, p, j) == old_or_zero))),
        z3.Implies(z3.And(invoked, nonempty), FA([p, j], z3.Implies(z3.And(inn, j >= 0, j < c1), cellf(P1, p, j) == new_cell))),
        z3.Implies(z3.And(invoked, z3.Not(nonempty)), FA([p, j], z3.Implies(z3.And(inn, j >= 0, j < c1), cellf(P1, p, j) == old_or_zero))),
        z3.And(c1 >= c0, c1 > t, z3.Implies(z3.And(invoked, nonempty), c1 >= t + L)),
    ]
    unfold = FA([p, j], cellf(OV1, p, j) == z3.If(z3.And(invoked, nonempty, in_block), z3.If(z3.Select(HAS, p), cellf(VAL, p, j - t), z3.RealVal(0)), cellf(OV0, p, j)))
    tied = _step_clauses_exist("C04.without_an_invocation_recorded_pilots_stay_and_new_columns_are_zero",
                               "C04.with_an_invocation_the_matrix_is_the_old_one_overlaid_with_the_submitted_schedule",
                               "C04.an_empty_schedule_changes_no_recorded_pilot", "C04.matrix_covers_the_period_and_never_shrinks",
                               "C04.matrix_covers_the_submitted_schedule")
    hy = [closed0, tail0, unfold, t >= 0, L >= 1, c0 >= 1, n >= 0] + step
    return [
        ("step_clauses_named_here_are_clauses_of_the_run_loop", [], tied),
        ("base.a_fresh_matrix_of_zeros_is_the_overlay_of_no_schedule",
         [FA([p, j], cellf(P0, p, j) == 0), FA([p, j], cellf(OV0, p, j) == 0)], z3.And(closed0, tail0)),
        ("step.every_recorded_cell_is_the_overlay_of_all_schedules_submitted_so_far", hy,
         FA([p, j], z3.Implies(z3.And(inn, j >= 0, j < c1), cellf(P1, p, j) == cellf(OV1, p, j)))),
        ("step.periods_beyond_the_recorded_width_are_covered_by_no_schedule", hy, FA([p, j], z3.Implies(z3.And(inn, j >= c1), cellf(OV1, p, j) == 0))),
        ("step.a_later_schedule_never_rewrites_a_past_period", hy, FA([p, j], z3.Implies(z3.And(inn, j >= 0, j < t), cellf(OV1, p, j) == cellf(OV0, p, j)))),
        ("applied.the_pilot_a_station_holds_in_period_t_is_the_overlay_value",
         hy + [FA([p], z3.Implies(inn, z3.Select(z3.Const("ovl_pilot", z3.ArraySort(z3.IntSort(), z3.RealSort())), p) == cellf(P1, p, t)))],
         FA([p], z3.Implies(inn, z3.Select(z3.Const("ovl_pilot", z3.ArraySort(z3.IntSort(), z3.RealSort())), p) == cellf(OV1, p, t)))),
    ]


REG.lemma("C04.recorded_and_applied_pilots_are_the_overlay_of_all_submitted_schedules", _overlay_induction, props=("C04",))


def _ledger_induction():
    """closed sums of the energy ledger for one station row / one session, by induction over the periods:
       E_t = E_0 + sum_{tau < t, connected} rate[tau] * V/1000 * period/60 ;  a vacant period records 0 ;  peak_t = max(0, max_{tau<t} aggregate[tau])"""
    from pyvc.nplib import SUM
    AR = z3.ArraySort(z3.IntSort(), z3.RealSort())
    r0, r1, conn0, agg0, agg1 = (z3.Const(n_, AR) for n_ in ("led_r0", "led_r1", "led_g0", "led_agg0", "led_agg1"))
    CONN = z3.Const("led_conn", z3.ArraySort(z3.IntSort(), z3.BoolSort()))       # the session is connected in period tau
    t, j = z3.Ints("led_t led_j")
    E0, E1, Ein, V, per, peak0, peak1 = z3.Reals("led_E0 led_E1 led_Ein led_V led_per led_peak0 led_peak1")
    kwh_ = lambda r: r * V / 1000 * (per / 60)
    g0 = z3.Lambda([j], z3.If(z3.Select(CONN, j), kwh_(z3.Select(r0, j)), z3.RealVal(0)))
    g1 = z3.Lambda([j], z3.If(z3.Select(CONN, j), kwh_(z3.Select(r1, j)), z3.RealVal(0)))
    untouched = FA([j], z3.Implies(z3.And(j >= 0, j < t), z3.Select(r1, j) == z3.Select(r0, j)))     # C02.earlier_columns_untouched (row of one station)
    gained = z3.If(z3.Select(CONN, t), E1 == E0 + kwh_(z3.Select(r1, t)), E1 == E0)                  # C02.energy_gained_... / C02.unconnected_sessions_gain_nothing
    closed0 = E0 == Ein + SUM(g0, t)
    tied = _step_clauses_exist("C02.energy_gained_is_recorded_rate_times_voltage_times_period", "C02.unconnected_sessions_gain_nothing",
                               "C02.earlier_columns_untouched", "C02.vacant_station_records_zero",
                               "C02.peak_is_the_running_maximum_of_the_aggregate_current")
    same_prefix = FA([j], z3.Implies(z3.And(j >= 0, j < t), z3.Select(g1, j) == z3.Select(g0, j)))
    # running maximum
    m0, m1 = z3.Reals("led_m0 led_m1")
    pk_closed0 = z3.And(peak0 >= 0, FA([j], z3.Implies(z3.And(j >= 0, j < t), peak0 >= z3.Select(agg0, j))),
                        z3.Or(peak0 == 0, z3.Exists([j], z3.And(j >= 0, j < t, peak0 == z3.Select(agg0, j)))))
    pk_step = z3.And(peak1 == z3.If(peak0 >= z3.Select(agg1, t), peak0, z3.Select(agg1, t)),
                     FA([j], z3.Implies(z3.And(j >= 0, j < t), z3.Select(agg1, j) == z3.Select(agg0, j))))
    w = z3.Int("led_w")
    return [
        ("step_clauses_named_here_are_clauses_of_the_run_loop", [], tied),
        ("base.before_the_first_period_nothing_is_delivered", [t == 0, E0 == Ein], closed0),
        ("step.summands_of_earlier_periods_are_unchanged", [untouched, t >= 0], same_prefix),
        ("step.delivered_energy_is_the_sum_over_connected_periods_of_rate_times_voltage_times_period",
         [closed0, untouched, same_prefix, gained, t >= 0, SUM(g1, t) == SUM(g0, t)], E1 == Ein + SUM(g1, t + 1)),
        ("step.sum_congruence_instance", [same_prefix, t >= 0], SUM(g1, t) == SUM(g0, t)),
        ("step.peak_dominates_every_recorded_aggregate_current", [pk_closed0, pk_step, t >= 0],
         z3.And(peak1 >= 0, FA([j], z3.Implies(z3.And(j >= 0, j <= t), peak1 >= z3.Select(agg1, j))))),
        ("step.peak_is_attained_or_zero", [pk_closed0, pk_step, t >= 0, z3.Implies(z3.And(peak0 != 0, peak0 >= z3.Select(agg1, t)), z3.And(w >= 0, w < t, peak0 == z3.Select(agg0, w)))],
         z3.Or(peak1 == 0, peak1 == z3.Select(agg1, t), z3.And(w >= 0, w < t, peak1 == z3.Select(agg1, w)))),
    ]


REG.lemma("C02.whole_run_ledger_sums_follow_from_the_per_period_clauses", _ledger_induction, props=("C02",))


# ============================================================================ Simulator.__init__: the initial state (base case of the whole-run inductions)
BA = "acnportal.algorithms.base_algorithm.BaseAlgorithm."
_reg_iface = [C("interface_attached", lambda old, new, ret: new.self._interface == old.interface)]
REG.contract(
    BA + "register_interface", params=dict(self=Ref("BaseAlgorithm"), interface=Ref("Interface")),
    # frame wide enough for every override in the repository: the sorting algorithms also attach the interface to their rate estimator
    modifies=[("BaseAlgorithm._interface", lambda s: [s.self]), ("UpperBoundEstimatorBase._interface", "ALL")],
    ensures=_reg_iface, iface=_reg_iface)


def _stored_ts_nonneg(q):
    """every timestamp stored in the queue's heap array is a period >= 0"""
    from .events import qv
    v = qv(q)
    i = z3.Int("qi!ts0")
    return FA([i], z3.Implies(z3.And(i >= 0, i < v.len), z3.Select(v.arrs[0], i) >= 0), patterns=[z3.Select(v.arrs[0], i)])


def _sim_init_post(old, new, ret):
    sim = new.self
    n = old.network._EVSEs.keys.len
    p, j = z3.Int("p!si"), z3.Int("j!si")
    last = old.events.get_last_ts if False else None
    return [
        ("C04.pilot_matrix_starts_as_zeros_one_row_per_station",
         And(sim.pilot_signals.rows == n, sim.pilot_signals.cols >= 1, FA([p, j], sim.pilot_signals[p, j] == 0))),
        ("C02.rate_matrix_starts_as_zeros_one_row_per_station_and_the_peak_as_zero",
         And(sim.charging_rates.rows == n, sim.charging_rates.cols == sim.pilot_signals.cols, FA([p, j], sim.charging_rates[p, j] == 0), Eq(sim.peak, 0))),
        ("C01.starts_at_period_zero_with_empty_histories", And(sim._iteration == 0, sim.event_history.len == 0, sim.ev_history.keys.len == 0)),
        ("C05.nothing_owed_and_never_scheduled", And(Not(sim._resolve), sim._last_schedule_update.isnone)),
        ("wired_as_given", And(sim.network == old.network, sim.event_queue == old.events, sim.scheduler == old.scheduler, Eq(sim.period, old.period),
                               sim.verbose == old.verbose, sim.start == old.start)),
        ("C05.scheduler_attached_through_an_interface_on_this_simulator",
         Implies(Not(IsNone(old.scheduler)), And(Not(IsNone(new.obj(old.scheduler.ref, "BaseAlgorithm")._interface)),
                                                 new.obj(old.scheduler.ref, "BaseAlgorithm")._interface._simulator == sim,
                                                 Eq(sim.max_recompute.isnone, old.scheduler.max_recompute.isnone),
                                                 Implies(Not(old.scheduler.max_recompute.isnone), sim.max_recompute.val == old.scheduler.max_recompute.val)))),
        ("no_scheduler_no_recompute_bound", Implies(IsNone(old.scheduler), sim.max_recompute.isnone)),
    ]


REG.contract(
    S + "__init__",
    params=dict(self=Ref("Simulator"), network=Ref("ChargingNetwork", exact=True), scheduler=Ref("BaseAlgorithm", nullable=True), events=Ref("EventQueue"),
                start=Ref("datetime"), period=Real, signals=Map(Id, Ref("TimeOfUseTariff")), store_schedule_history=Bool, verbose=Bool),
    requires=[C("queue_wf", lambda s: qinv(s, s.events)),
              C("no_event_before_period_zero", lambda s: _stored_ts_nonneg(s.events))],
    modifies=[("Simulator." + f, lambda s: [s.self]) for f in ("network", "scheduler", "max_recompute", "event_queue", "start", "period", "signals", "verbose", "pilot_signals",
                                                               "charging_rates", "peak", "ev_history", "event_history", "schedule_history", "_iteration", "_resolve",
                                                               "_last_schedule_update")]
             + [("BaseAlgorithm._interface", lambda s: [s.scheduler]), ("UpperBoundEstimatorBase._interface", "ALL"), ("Interface._simulator", "FRESH"), "alloc"],
    ensures=[C("initial_state", _sim_init_post, props=("C01", "C02", "C04", "C05"))],
)

_est_iface = [C("interface_attached", lambda old, new, ret: new.self._interface == old.interface)]
REG.contract(
    "acnportal.algorithms.upper_bound_estimator.UpperBoundEstimatorBase.register_interface",
    params=dict(self=Ref("UpperBoundEstimatorBase"), interface=Ref("Interface")),
    modifies=[("UpperBoundEstimatorBase._interface", lambda s: [s.self])], ensures=_est_iface, iface=_est_iface)
# the override of the sorting algorithms also hands the interface to their rate estimator: verified against the same interface-level clause
REG.contract(
    "acnportal.algorithms.sorted_algorithms.SortedSchedulingAlgo.register_interface",
    params=dict(self=Ref("SortedSchedulingAlgo"), interface=Ref("Interface")),
    modifies=[("BaseAlgorithm._interface", lambda s: [s.self]), ("UpperBoundEstimatorBase._interface", lambda s: [(s.self.max_rate_estimator, Not(IsNone(s.self.max_rate_estimator)))])],
    ensures=_reg_iface + [C("estimator_attached_too", lambda old, new, ret: Implies(Not(IsNone(old.self.max_rate_estimator)),
                                                                                  new.self.max_rate_estimator._interface == old.interface))],
    iface=_reg_iface)
