"""Contracts for acnportal/acnsim/interface.py: what a scheduler observes (C05) and the bridge network -> InfrastructureInfo (C05 / C06 / C07)."""
import z3
from pyvc.vtypes import FA
from pyvc.contracts_api import REG, C, RaiseSpec, LoopSpec
from pyvc.dsl import And, Or, Not, Implies, If, Eq, IsNone, AllIdx, AnyIdx
from pyvc.vtypes import Real, Int, Bool, Id, Ref, Opt, Seq, Tup, Map, Mat, IdSort, RefSort
from pyvc import vtypes as ty
from .algorithms import infra_wf, rap, RAPF, net_index, net_max_pilot
from .feasibility import net_shapes
from .network import net_wf

IF = "acnportal.acnsim.interface.Interface."
II = "acnportal.acnsim.interface.InfrastructureInfo."


def seq_eq(a, b):
    i = z3.Int(ty.fresh_name("se"))
    return And(a.len == b.len, FA([i], z3.Implies(z3.And(i >= 0, i < b.len), And(*[ty.sel(x, i) == ty.sel(y, i) for x, y in zip(a.v.arrs, b.v.arrs)]))))


def seqseq_eq(a, b):
    """equality of two lists of real vectors"""
    i, j = z3.Int(ty.fresh_name("si")), z3.Int(ty.fresh_name("sj"))
    la, lb = (lambda x: ty.sel(a.v.arrs[1], x)), (lambda x: ty.sel(b.v.arrs[1], x))
    return And(a.len == b.len, FA([i], z3.Implies(z3.And(i >= 0, i < b.len), la(i) == lb(i))),
               FA([i, j], z3.Implies(z3.And(i >= 0, i < b.len, j >= 0, j < lb(i)), ty.sel(a.v.arrs[0], i, j) == ty.sel(b.v.arrs[0], i, j))))


def mat_eq(a, b):
    i, j = z3.Int(ty.fresh_name("mi")), z3.Int(ty.fresh_name("mj"))
    return And(a.rows == b.rows, a.cols == b.cols, FA([i, j], z3.Implies(z3.And(i >= 0, i < b.rows, j >= 0, j < b.cols), a[i, j] == b[i, j])))


# ---------------------------------------------------------------------------- InfrastructureInfo
def _ii_consistent(s):
    n = s.station_ids.len
    m = s.constraint_ids.len
    return And(s.constraint_matrix.cols == n, s.phases.len == n, s.voltages.len == n, s.max_pilot.len == n, s.min_pilot.len == n,
               s.allowable_pilots.len == n, s.is_continuous.len == n, s.constraint_matrix.rows == m, s.constraint_limits.len == m)


def _distinct(seq):
    i, j = z3.Int(ty.fresh_name("di")), z3.Int(ty.fresh_name("dj"))
    return FA([i, j], z3.Implies(z3.And(i >= 0, i < j, j < seq.len), ty.sel(seq.v.arrs[0], i) != ty.sel(seq.v.arrs[0], j)),
              patterns=[z3.MultiPattern(ty.sel(seq.v.arrs[0], i), ty.sel(seq.v.arrs[0], j))])


II_FIELDS = ["constraint_matrix", "constraint_limits", "phases", "voltages", "constraint_ids", "station_ids", "_station_ids_dict", "max_pilot", "min_pilot",
             "allowable_pilots", "is_continuous"]

REG.contract(
    II + "__init__",
    params=dict(self=Ref("InfrastructureInfo"), constraint_matrix=Mat, constraint_limits=Seq(Real), phases=Seq(Real), voltages=Seq(Real),
                constraint_ids=Seq(Id), station_ids=Seq(Id), max_pilot=Seq(Real), min_pilot=Seq(Real), allowable_pilots=Seq(Seq(Real)), is_continuous=Seq(Bool)),
    requires=[C("station_ids_distinct", lambda s: _distinct(s.station_ids))],
    raises=[RaiseSpec("ValueError", lambda s: Not(_ii_consistent(s)), iff=True, unchanged=False)],
    modifies=[("InfrastructureInfo." + f, lambda s: [s.self]) for f in II_FIELDS],
    ensures=[C("C05.fields_are_the_arguments", lambda old, new, ret: [
        mat_eq(new.self.constraint_matrix, old.constraint_matrix), seq_eq(new.self.constraint_limits, old.constraint_limits),
        seq_eq(new.self.phases, old.phases), seq_eq(new.self.voltages, old.voltages), seq_eq(new.self.constraint_ids, old.constraint_ids),
        seq_eq(new.self.station_ids, old.station_ids), seq_eq(new.self.max_pilot, old.max_pilot), seq_eq(new.self.min_pilot, old.min_pilot),
        seqseq_eq(new.self.allowable_pilots, old.allowable_pilots), seq_eq(new.self.is_continuous, old.is_continuous)]),
             C("C05.consistent_shapes_and_station_index", lambda old, new, ret: infra_wf(new, new.self))],
)

REG.contract(
    II + "get_station_index", params=dict(self=Ref("InfrastructureInfo"), station_id=Id), ret=Int, modifies=[],
    raises=[RaiseSpec("KeyError", lambda s: Not(s.self._station_ids_dict.has(s.station_id)), iff=True, unchanged=True)],
    extra=dict(returns=lambda old: old.self._station_ids_dict[old.station_id]))


# ---------------------------------------------------------------------------- Interface: the true infrastructure description
def net_info_wf(s, net):
    """the cached per-station descriptions of a network have one entry per registered station (established by _update_info_store)"""
    n = net._EVSEs.keys.len
    return And(net.max_pilot_signals.len == n, net.min_pilot_signals.len == n, net.allowable_rates.len == n, net.is_continuous.len == n,
               net._voltages.len == n, net._phase_angles.len == n)


def _info_post(old, new, ret):
    net = old.self._simulator.network
    cm = net.constraint_matrix
    return [
        ("fresh_object", And(ret.ref != 0, Not(old.alloc_ref(ret.ref)))),
        ("C05.limits", seq_eq(new.obj(ret.ref, "InfrastructureInfo").constraint_limits, net.magnitudes)),
        ("C05.phases", seq_eq(new.obj(ret.ref, "InfrastructureInfo").phases, net._phase_angles)),
        ("C05.voltages", seq_eq(new.obj(ret.ref, "InfrastructureInfo").voltages, net._voltages)),
        ("C05.constraint_names", seq_eq(new.obj(ret.ref, "InfrastructureInfo").constraint_ids, net.constraint_index)),
        ("C05.station_ids_in_registration_order", seq_eq(new.obj(ret.ref, "InfrastructureInfo").station_ids, net._EVSEs.keys)),
        ("C05.max_pilots", seq_eq(new.obj(ret.ref, "InfrastructureInfo").max_pilot, net.max_pilot_signals)),
        ("C05.min_pilots", seq_eq(new.obj(ret.ref, "InfrastructureInfo").min_pilot, net.min_pilot_signals)),
        ("C05.allowable_pilots", seqseq_eq(new.obj(ret.ref, "InfrastructureInfo").allowable_pilots, net.allowable_rates)),
        ("C05.continuity_flags", seq_eq(new.obj(ret.ref, "InfrastructureInfo").is_continuous, net.is_continuous)),
        ("C05.constraint_matrix", Implies(Not(cm.isnone), mat_eq(new.obj(ret.ref, "InfrastructureInfo").constraint_matrix, cm.val))),
        ("C06.constraint_free_network_is_an_empty_matrix", Implies(cm.isnone, And(new.obj(ret.ref, "InfrastructureInfo").constraint_matrix.rows == 0,
                                                                                  new.obj(ret.ref, "InfrastructureInfo").constraint_matrix.cols == net._EVSEs.keys.len))),
        ("well_formed", infra_wf(new, new.obj(ret.ref, "InfrastructureInfo"))),
    ]


for _fn in ("_infrastructure_info", "infrastructure_info"):
    REG.contract(
        IF + _fn, params=dict(self=Ref("Interface")), ret=Ref("InfrastructureInfo"), fresh_ret=True,
        requires=[C("network", lambda s: And(net_wf(s, s.self._simulator.network), net_shapes(s, s.self._simulator.network),
                                             net_info_wf(s, s.self._simulator.network)))],
        modifies=[("InfrastructureInfo." + f, "FRESH") for f in II_FIELDS] + ["alloc"],
        ensures=[C("C05.true_infrastructure_description", _info_post, props=("C05", "C06"))],
    )


# ---------------------------------------------------------------------------- scalar accessors
def _acc(name, field, rettype=Real):
    REG.contract(
        IF + name, params=dict(self=Ref("Interface"), station_id=Id), ret=rettype,
        requires=[C("network", lambda s: And(net_wf(s, s.self._simulator.network), net_shapes(s, s.self._simulator.network),
                                             net_info_wf(s, s.self._simulator.network)))],
        raises=[RaiseSpec("KeyError", lambda s: Not(s.self._simulator.network._EVSEs.has(s.station_id)), iff=True, unchanged=False)],
        modifies=[("InfrastructureInfo." + f, "FRESH") for f in II_FIELDS] + ["alloc"],
        ensures=[C("C05." + name, lambda old, new, ret, field=field: ret == ty.sel(getattr(old.self._simulator.network, field).v.arrs[0],
                                                                                maplib_pos(old.self._simulator.network, old.station_id)))])


def maplib_pos(net, sid):
    """position of a station in the registration order"""
    from pyvc import maplib
    return maplib._kpos(net._EVSEs.keys.v.arrs[0], sid)


_acc("max_pilot_signal", "max_pilot_signals")
_acc("min_pilot_signal", "min_pilot_signals")
_acc("evse_voltage", "_voltages")
_acc("evse_phase", "_phase_angles")


# ---------------------------------------------------------------------------- remaining demand in amp-periods
def _rap_define(ex, st, pre):
    """Definition (recorded as an assumption): RAPF(requested, delivered, voltage, period) abbreviates (requested - delivered) x 1000 / voltage x 60 / period"""
    ev, sim = pre.ev, pre.self._simulator
    net = sim.network
    v = ty.sel(net._voltages.v.arrs[0], net_index(net, ev.station_id))
    st.assume(RAPF(ev.requested_energy, ev.energy_delivered, v, sim.period) == (ev.requested_energy - ev.energy_delivered) * 1000 / v * 60 / sim.period)
    return {}


REG.assume("definition", "RAPF(requested, delivered, voltage, period) := (requested - delivered) kWh x 1000 / voltage x 60 / period  (remaining demand in A x periods)")
REG.contract(
    IF + "remaining_amp_periods", params=dict(self=Ref("Interface"), ev=Ref("SessionInfo")), ret=Real,
    requires=[C("network", lambda s: And(net_wf(s, s.self._simulator.network), net_shapes(s, s.self._simulator.network), net_info_wf(s, s.self._simulator.network))),
              C("station_registered_nonzero_voltage_and_period", lambda s: And(
                  s.self._simulator.network._EVSEs.has(s.ev.station_id), s.self._simulator.period != 0,
                  ty.sel(s.self._simulator.network._voltages.v.arrs[0], net_index(s.self._simulator.network, s.ev.station_id)) != 0))],
    modifies=[("InfrastructureInfo." + f, "FRESH") for f in II_FIELDS] + ["alloc"],
    ensures=[C("C07.remaining_amp_periods", lambda old, new, ret: ret == rap(old, old.self, old.ev))],
    extra=dict(ghost_entry=_rap_define))


# ---------------------------------------------------------------------------- what the scheduler observes: the active sessions (C05)
from .simulator import occupants_know_their_station, _occ_at, _sid, _E, _rate, evse_at
N_ = "acnportal.acnsim.network.charging_network.ChargingNetwork."
SIM_ = "acnportal.acnsim.simulator.Simulator."
REQ = ("EV._requested_energy#0", z3.RealSort())


def _req(s, e):
    return z3.Select(s.heap_array(*REQ), e)


def is_active(s, e):
    """connected EV whose demand is not yet met: remaining demand (requested - delivered) above 1e-3 kWh"""
    return z3.And(e != 0, _req(s, e) - _E(s, e) > z3.RealVal("1/1000"))


def station_pos(net, sid):
    from pyvc import maplib
    return maplib._kpos(net._EVSEs.keys.v.arrs[0], sid)


def active_list_spec(s, net, ret):
    """ret lists exactly the active occupants, once each, in station registration order"""
    j, k, p = z3.Int("al!j"), z3.Int("al!k"), z3.Int("al!p")
    n = net._EVSEs.keys.len
    a = ret.v.arrs[0]
    occ_p = s.field_of(evse_at(s, net, p), "BaseEVSE", "_ev").ref
    lam = z3.is_quantifier(a) and a.is_lambda()        # a comprehension result is a lambda array: no E-matching pattern can mention it
    pj = None if lam else [z3.Select(a, j)]
    pjk = None if lam else [z3.MultiPattern(z3.Select(a, j), z3.Select(a, k))]
    return [
        ("every_listed_ev_is_a_connected_unsatisfied_session",
         FA([j], z3.Implies(z3.And(j >= 0, j < ret.len), z3.Exists([p], z3.And(p >= 0, p < n, occ_p == z3.Select(a, j), is_active(s, z3.Select(a, j))))),
            patterns=pj)),
        ("every_connected_unsatisfied_session_is_listed",
         FA([p], z3.Implies(z3.And(p >= 0, p < n, is_active(s, occ_p)), z3.Exists([j], z3.And(j >= 0, j < ret.len, z3.Select(a, j) == occ_p))),
            patterns=[evse_at(s, net, p)])),
        ("listed_in_station_order_without_repetition",
         FA([j, k], z3.Implies(z3.And(j >= 0, j < k, k < ret.len),
                               station_pos(net, _sid(s, z3.Select(a, j)).val) < station_pos(net, _sid(s, z3.Select(a, k)).val)),
            patterns=pjk)),
    ]


REG.contract(
    N_ + "active_evs", params=dict(self=Ref("ChargingNetwork", exact=True)), ret=Seq(Ref("EV")), modifies=[],
    requires=[C("wf", lambda s: And(net_wf(s, s.self), occupants_know_their_station(s, s.self)))],
    ensures=[C("C05.active_evs", lambda old, new, ret: active_list_spec(old, old.self, ret), props=("C05",))],
)


def _ev_record(s, r):
    """what an EV object (original or copy) says about its session"""
    sid = _sid(s, r)
    return dict(station=sid.val, station_none=sid.isnone, session=s.field_of(r, "EV", "_session_id"), requested=_req(s, r), delivered=_E(s, r),
                arrival=s.field_of(r, "EV", "_arrival"), departure=s.field_of(r, "EV", "_departure"),
                estimated_departure=s.field_of(r, "EV", "_estimated_departure"), rate=_rate(s, r))


def _si_record(s, r):
    f = lambda n: s.field_of(r, "SessionInfo", n)
    return dict(station=f("station_id"), station_none=z3.BoolVal(False), session=f("session_id"), requested=f("requested_energy"), delivered=f("energy_delivered"),
                arrival=f("arrival"), departure=f("departure"), estimated_departure=f("estimated_departure"))


def same_record(a, b):
    return z3.And(*[a[k] == b[k] for k in a if k in b])


def observed_sessions_spec(old, new, net, ret, record, fresh=True):
    """`ret` (objects of the post-state `new`) describes exactly the sessions that are connected and not yet satisfied in `old`, one record each,
    in station registration order, every record carrying that session's TRUE station id, session id, requested and delivered energy, arrival,
    departure and estimated departure; the records are fresh objects (mutating them cannot touch the simulation)"""
    j, k, p = z3.Int("os!j"), z3.Int("os!k"), z3.Int("os!p")
    n = net._EVSEs.keys.len
    a = ret.v.arrs[0]
    lam = z3.is_quantifier(a) and a.is_lambda()
    occ_p = old.field_of(evse_at(old, net, p), "BaseEVSE", "_ev").ref
    rj, rk = z3.Select(a, j), z3.Select(a, k)
    out = [
        ("every_record_is_a_connected_unsatisfied_session_with_its_true_data",
         FA([j], z3.Implies(z3.And(j >= 0, j < ret.len), z3.Exists([p], z3.And(p >= 0, p < n, is_active(old, occ_p), same_record(record(new, rj), _ev_record(old, occ_p))))),
            patterns=None if lam else [rj])),
        ("every_connected_unsatisfied_session_has_a_record",
         FA([p], z3.Implies(z3.And(p >= 0, p < n, is_active(old, occ_p)), z3.Exists([j], z3.And(j >= 0, j < ret.len, same_record(record(new, rj), _ev_record(old, occ_p))))),
            patterns=[evse_at(old, net, p)])),
        ("records_in_station_order_without_repetition",
         FA([j, k], z3.Implies(z3.And(j >= 0, j < k, k < ret.len), station_pos(net, record(new, rj)["station"]) < station_pos(net, record(new, rk)["station"])),
            patterns=None if lam else [z3.MultiPattern(rj, rk)])),
    ]
    if fresh:
        out.append(("records_are_fresh_objects", FA([j], z3.Implies(z3.And(j >= 0, j < ret.len), z3.And(rj != 0, z3.Not(old.alloc_ref(rj)))), patterns=None if lam else [rj])))
        if record is _ev_record:
            bj = new.field_of(rj, "EV", "_battery").ref
            out.append(("copied_evs_own_fresh_batteries", FA([j], z3.Implies(z3.And(j >= 0, j < ret.len), z3.And(bj != 0, z3.Not(old.alloc_ref(bj)))),
                                                             patterns=None if lam else [rj])))
    return out


EV_FIELDS_ALL = ["_arrival", "_departure", "_session_id", "_station_id", "_requested_energy", "_estimated_departure", "_battery", "_energy_delivered",
                 "_current_charging_rate"]
BATT_FIELDS_ALL = ["Battery._capacity", "Battery._current_charge", "Battery._init_charge", "Battery._max_power", "Battery._current_charging_power",
                   "Linear2StageBattery._noise_level", "Linear2StageBattery._transition_soc", "Linear2StageBattery.charge_calculation"]

REG.contract(
    SIM_ + "get_active_evs", params=dict(self=Ref("Simulator")), ret=Seq(Ref("EV")),
    requires=[C("wf", lambda s: And(net_wf(s, s.self.network), occupants_know_their_station(s, s.self.network)))],
    modifies=[("EV." + f, "FRESH") for f in EV_FIELDS_ALL] + [(f, "FRESH") for f in BATT_FIELDS_ALL] + ["alloc"],
    ensures=[C("C05.active_evs_are_copies_of_the_connected_unsatisfied_sessions",
               lambda old, new, ret: observed_sessions_spec(old, new, old.self.network, ret, _ev_record), props=("C05",))],
)


SI_FIELDS = ["station_id", "session_id", "requested_energy", "energy_delivered", "arrival", "departure", "estimated_departure", "current_time", "min_rates", "max_rates"]
_OBS_MOD = [("EV." + f, "FRESH") for f in EV_FIELDS_ALL] + [(f, "FRESH") for f in BATT_FIELDS_ALL] + [("SessionInfo." + f, "FRESH") for f in SI_FIELDS] + ["alloc"]


def sessions_valid(s, net):
    """every connected session is a valid one: departure and estimated departure after arrival (SessionInfo's constructor checks it)"""
    k = z3.Const("sv!k", IdSort)
    m = net._EVSEs._v
    e = _occ_at(s, net, k)
    f = lambda n: s.field_of(e, "EV", n)
    return FA([k], z3.Implies(z3.And(z3.Select(m.dom, k), e != 0), z3.And(f("_departure") > f("_arrival"), f("_estimated_departure") > f("_arrival"))),
              patterns=[z3.Select(m.arrs[0], k)])


def _sessions_post(old, new, ret):
    net = old.self._simulator.network
    j = z3.Int("sp!j")
    a = ret.v.arrs[0]
    lam = z3.is_quantifier(a) and a.is_lambda()
    return observed_sessions_spec(old, new, net, ret, _si_record) + [
        ("C05.records_carry_the_current_period", FA([j], z3.Implies(z3.And(j >= 0, j < ret.len),
                                                                     new.field_of(z3.Select(a, j), "SessionInfo", "current_time") == old.self._simulator._iteration),
                                                    patterns=None if lam else [z3.Select(a, j)]))]


for _fn in ("_active_sessions", "active_sessions"):
    REG.contract(
        IF + _fn, params=dict(self=Ref("Interface")), ret=Seq(Ref("SessionInfo")),
        requires=[C("wf", lambda s: And(net_wf(s, s.self._simulator.network), occupants_know_their_station(s, s.self._simulator.network),
                                        sessions_valid(s, s.self._simulator.network)))],
        modifies=_OBS_MOD,
        ensures=[C("C05.active_sessions_are_exactly_the_connected_unsatisfied_sessions_with_their_true_data", _sessions_post, props=("C05",))],
    )


# ---------------------------------------------------------------------------- previous rates / pilots / peak / time
def distinct_session_ids(s, net):
    p, q = z3.Int("ds!p"), z3.Int("ds!q")
    n = net._EVSEs.keys.len
    op = s.field_of(evse_at(s, net, p), "BaseEVSE", "_ev").ref
    oq = s.field_of(evse_at(s, net, q), "BaseEVSE", "_ev").ref
    return FA([p, q], z3.Implies(z3.And(p >= 0, p < q, q < n, op != 0, oq != 0), s.field_of(op, "EV", "_session_id") != s.field_of(oq, "EV", "_session_id")),
              patterns=[z3.MultiPattern(evse_at(s, net, p), evse_at(s, net, q))])


def _keyed_by_session(old, net, ret, value_of, extra_cond=lambda e: z3.BoolVal(True)):
    """ret maps the session id of every active (and selected) occupant to value_of(occupant, station position) and has no other key"""
    p = z3.Int("kb!p")
    k = z3.Const("kb!k", IdSort)
    n = net._EVSEs.keys.len
    e = old.field_of(evse_at(old, net, p), "BaseEVSE", "_ev").ref
    sess = old.field_of(e, "EV", "_session_id")
    m = ret._v
    sel = z3.And(p >= 0, p < n, is_active(old, e), extra_cond(e))
    return [
        ("every_selected_session_is_a_key_with_its_true_value", FA([p], z3.Implies(sel, z3.And(z3.Select(m.dom, sess), z3.Select(m.arrs[0], sess) == value_of(e, p))),
                                                                   patterns=[evse_at(old, net, p)])),
        ("no_other_key", FA([k], z3.Implies(z3.Select(m.dom, k), z3.Exists([p], z3.And(sel, sess == k))), patterns=[z3.Select(m.dom, k)])),
    ]


_OBS_REQ = [C("wf", lambda s: And(net_wf(s, s.self._simulator.network), occupants_know_their_station(s, s.self._simulator.network),
                                  distinct_session_ids(s, s.self._simulator.network)))]
_EV_MOD = [("EV." + f, "FRESH") for f in EV_FIELDS_ALL] + [(f, "FRESH") for f in BATT_FIELDS_ALL] + ["alloc"]

REG.contract(
    IF + "last_actual_charging_rate", params=dict(self=Ref("Interface")), ret=Map(Id, Real), requires=_OBS_REQ, modifies=_EV_MOD,
    ensures=[C("C05.previous_actual_rates_of_exactly_the_active_sessions",
               lambda old, new, ret: _keyed_by_session(old, old.self._simulator.network, ret, lambda e, p: _rate(old, e)), props=("C05",))])


def _lap_post(old, new, ret):
    sim = old.self._simulator
    net = sim.network
    i = sim._iteration - 1
    arrived = lambda e: old.field_of(e, "EV", "_arrival") <= i
    body = _keyed_by_session(old, net, ret, lambda e, p: sim.pilot_signals[p, i], arrived)
    return [("from_the_third_period_on", Implies(i > 0, And(*[g for _, g in body]))),
            ("nothing_before", Implies(Not(i > 0), FA([z3.Const("lp!k", IdSort)], z3.Not(z3.Select(ret._v.dom, z3.Const("lp!k", IdSort))))))]


REG.contract(
    IF + "last_applied_pilot_signals", params=dict(self=Ref("Interface")), ret=Map(Id, Real),
    requires=_OBS_REQ + [C("shapes", lambda s: And(s.self._simulator.pilot_signals.rows == s.self._simulator.network._EVSEs.keys.len,
                                                   s.self._simulator.pilot_signals.cols >= s.self._simulator._iteration, s.self._simulator._iteration >= 0))],
    modifies=_EV_MOD,
    ensures=[C("C05.previous_pilots_of_the_active_sessions_that_had_arrived", _lap_post, props=("C05",))])

REG.contract(IF + "current_time", params=dict(self=Ref("Interface")), ret=Int, modifies=[],
             ensures=[C("C05.current_period", lambda old, new, ret: ret == old.self._simulator._iteration, props=("C05",))])
REG.contract(IF + "period", params=dict(self=Ref("Interface")), ret=Real, modifies=[],
             ensures=[C("C05.period_length", lambda old, new, ret: ret == old.self._simulator.period, props=("C05",))])
REG.contract(IF + "get_prev_peak", params=dict(self=Ref("Interface")), ret=Real, modifies=[],
             ensures=[C("C05.peak_so_far", lambda old, new, ret: ret == old.self._simulator.peak, props=("C05",))])

REG.contract(
    SIM_ + "index_of_evse", params=dict(self=Ref("Simulator"), station_id=Id), ret=Int, modifies=[],
    requires=[C("wf", lambda s: net_wf(s, s.self.network))],
    raises=[RaiseSpec("KeyError", lambda s: Not(s.self.network._EVSEs.has(s.station_id)), iff=True, unchanged=True)],
    ensures=[C("C05.registration_position", lambda old, new, ret: And(ret == station_pos(old.self.network, old.station_id), ret >= 0,
                                                                      ret < old.self.network._EVSEs.keys.len), props=("C05",))])

REG.contract(IF + "current_datetime", params=dict(self=Ref("Interface")), ret=Ref("datetime"), fresh_ret=True, modifies=["alloc", ("datetime.theta", "FRESH")],
             ensures=[C("C05.current_datetime_is_start_plus_period_times_iteration",
                        lambda old, new, ret: new.field_of(ret.ref, "datetime", "theta")
                        == old.self._simulator.start.theta + 60 * old.self._simulator.period * z3.ToReal(old.self._simulator._iteration), props=("C05",))])


# ---------------------------------------------------------------------------- the remaining observation accessors (C05)
REG.contract(
    IF + "allowable_pilot_signals", params=dict(self=Ref("Interface"), station_id=Id), ret=Tup(Bool, Seq(Real)),
    requires=[C("network", lambda s: And(net_wf(s, s.self._simulator.network), net_shapes(s, s.self._simulator.network),
                                         net_info_wf(s, s.self._simulator.network)))],
    raises=[RaiseSpec("KeyError", lambda s: Not(s.self._simulator.network._EVSEs.has(s.station_id)), iff=True, unchanged=False)],
    modifies=[("InfrastructureInfo." + f, "FRESH") for f in II_FIELDS] + ["alloc"],
    ensures=[C("C05.allowable_pilot_signals", lambda old, new, ret: [
        ("continuity_flag_of_that_station", ret[0] == ty.sel(old.self._simulator.network.is_continuous.v.arrs[0], maplib_pos(old.self._simulator.network, old.station_id))),
        ("allowable_list_of_that_station", And(
            ret[1].len == z3.Select(old.self._simulator.network.allowable_rates.v.arrs[1], maplib_pos(old.self._simulator.network, old.station_id)),
            FA([z3.Int("m!aps")], z3.Implies(z3.And(z3.Int("m!aps") >= 0, z3.Int("m!aps") < ret[1].len),
                                             ty.sel(ret[1].v.arrs[0], z3.Int("m!aps")) == z3.Select(z3.Select(old.self._simulator.network.allowable_rates.v.arrs[0],
                                                                                                            maplib_pos(old.self._simulator.network, old.station_id)), z3.Int("m!aps"))))))])])
REG.contract(IF + "max_recompute_time", params=dict(self=Ref("Interface")), ret=Opt(Int), modifies=[],
             extra=dict(returns=lambda old: old.self._simulator.max_recompute, returns_props=("C05",)))
REG.contract(IF + "_violation_tolerance", params=dict(self=Ref("Interface")), ret=Real, modifies=[],
             extra=dict(returns=lambda old: old.self._simulator.network.violation_tolerance, returns_props=("C05", "C06")))
REG.contract(IF + "_relative_tolerance", params=dict(self=Ref("Interface")), ret=Real, modifies=[],
             extra=dict(returns=lambda old: old.self._simulator.network.relative_tolerance, returns_props=("C05", "C06")))
