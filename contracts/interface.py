"""Contracts for acnportal/acnsim/interface.py: what a scheduler observes (C05) and the bridge network -> InfrastructureInfo (C05 / C06 / C07)."""
import z3
from pyvc.vtypes import FA
from pyvc.contracts_api import REG, C, RaiseSpec, LoopSpec
from pyvc.dsl import And, Or, Not, Implies, If, Eq, IsNone, AllIdx, AnyIdx
from pyvc.vtypes import Real, Int, Bool, Id, Ref, Opt, Seq, Tup, Map, Mat, IdSort, RefSort
from pyvc import vtypes as ty
from .algorithms import infra_wf, rap, RAPF, net_index, net_max_pilot
from .feasibility import net_shapes
from .network import net_wf

IF = "acnportal.acnsim.interface.Interface."
II = "acnportal.acnsim.interface.InfrastructureInfo."


def seq_eq(a, b):
    i = z3.Int(ty.fresh_name("se"))
    return And(a.len == b.len, FA([i], z3.Implies(z3.And(i >= 0, i < b.len), And(*[ty.sel(x, i) == ty.sel(y, i) for x, y in zip(a.v.arrs, b.v.arrs)]))))


def seqseq_eq(a, b):
    """equality of two lists of real vectors"""
    i, j = z3.Int(ty.fresh_name("si")), z3.Int(ty.fresh_name("sj"))
    la, lb = (lambda x: ty.sel(a.v.arrs[1], x)), (lambda x: ty.sel(b.v.arrs[1], x))
    return And(a.len == b.len, FA([i], z3.Implies(z3.And(i >= 0, i < b.len), la(i) == lb(i))),
               FA([i, j], z3.Implies(z3.And(i >= 0, i < b.len, j >= 0, j < lb(i)), ty.sel(a.v.arrs[0], i, j) == ty.sel(b.v.arrs[0], i, j))))


def mat_eq(a, b):
    i, j = z3.Int(ty.fresh_name("mi")), z3.Int(ty.fresh_name("mj"))
    return And(a.rows == b.rows, a.cols == b.cols, FA([i, j], z3.Implies(z3.And(i >= 0, i < b.rows, j >= 0, j < b.cols), a[i, j] == b[i, j])))


# ---------------------------------------------------------------------------- InfrastructureInfo
def _ii_consistent(s):
    n = s.station_ids.len
    m = s.constraint_ids.len
    return And(s.constraint_matrix.cols == n, s.phases.len == n, s.voltages.len == n, s.max_pilot.len == n, s.min_pilot.len == n,
               s.allowable_pilots.len == n, s.is_continuous.len == n, s.constraint_matrix.rows == m, s.constraint_limits.len == m)


def _distinct(seq):
    i, j = z3.Int(ty.fresh_name("di")), z3.Int(ty.fresh_name("dj"))
    return FA([i, j], z3.Implies(z3.And(i >= 0, i < j, j < seq.len), ty.sel(seq.v.arrs[0], i) != ty.sel(seq.v.arrs[0], j)),
              patterns=[z3.MultiPattern(ty.sel(seq.v.arrs[0], i), ty.sel(seq.v.arrs[0], j))])


II_FIELDS = ["constraint_matrix", "constraint_limits", "phases", "voltages", "constraint_ids", "station_ids", "_station_ids_dict", "max_pilot", "min_pilot",
             "allowable_pilots", "is_continuous"]

REG.contract(
    II + "__init__",
    params=dict(self=Ref("InfrastructureInfo"), constraint_matrix=Mat, constraint_limits=Seq(Real), phases=Seq(Real), voltages=Seq(Real),
                constraint_ids=Seq(Id), station_ids=Seq(Id), max_pilot=Seq(Real), min_pilot=Seq(Real), allowable_pilots=Seq(Seq(Real)), is_continuous=Seq(Bool)),
    requires=[C("station_ids_distinct", lambda s: _distinct(s.station_ids))],
    raises=[RaiseSpec("ValueError", lambda s: Not(_ii_consistent(s)), iff=True, unchanged=False)],
    modifies=[("InfrastructureInfo." + f, lambda s: [s.self]) for f in II_FIELDS],
    ensures=[C("C05.fields_are_the_arguments", lambda old, new, ret: [
        mat_eq(new.self.constraint_matrix, old.constraint_matrix), seq_eq(new.self.constraint_limits, old.constraint_limits),
        seq_eq(new.self.phases, old.phases), seq_eq(new.self.voltages, old.voltages), seq_eq(new.self.constraint_ids, old.constraint_ids),
        seq_eq(new.self.station_ids, old.station_ids), seq_eq(new.self.max_pilot, old.max_pilot), seq_eq(new.self.min_pilot, old.min_pilot),
        seqseq_eq(new.self.allowable_pilots, old.allowable_pilots), seq_eq(new.self.is_continuous, old.is_continuous)]),
             C("C05.consistent_shapes_and_station_index", lambda old, new, ret: infra_wf(new, new.self))],
)

REG.contract(
    II + "get_station_index", params=dict(self=Ref("InfrastructureInfo"), station_id=Id), ret=Int, modifies=[],
    raises=[RaiseSpec("KeyError", lambda s: Not(s.self._station_ids_dict.has(s.station_id)), iff=True, unchanged=True)],
    extra=dict(returns=lambda old: old.self._station_ids_dict[old.station_id]))


# ---------------------------------------------------------------------------- Interface: the true infrastructure description
def net_info_wf(s, net):
    """the cached per-station descriptions of a network have one entry per registered station (established by _update_info_store)"""
    n = net._EVSEs.keys.len
    return And(net.max_pilot_signals.len == n, net.min_pilot_signals.len == n, net.allowable_rates.len == n, net.is_continuous.len == n,
               net._voltages.len == n, net._phase_angles.len == n)


def _info_post(old, new, ret):
    net = old.self._simulator.network
    cm = net.constraint_matrix
    return [
        ("fresh_object", And(ret.ref != 0, Not(old.alloc_ref(ret.ref)))),
        ("C05.limits", seq_eq(new.obj(ret.ref, "InfrastructureInfo").constraint_limits, net.magnitudes)),
        ("C05.phases", seq_eq(new.obj(ret.ref, "InfrastructureInfo").phases, net._phase_angles)),
        ("C05.voltages", seq_eq(new.obj(ret.ref, "InfrastructureInfo").voltages, net._voltages)),
        ("C05.constraint_names", seq_eq(new.obj(ret.ref, "InfrastructureInfo").constraint_ids, net.constraint_index)),
        ("C05.station_ids_in_registration_order", seq_eq(new.obj(ret.ref, "InfrastructureInfo").station_ids, net._EVSEs.keys)),
        ("C05.max_pilots", seq_eq(new.obj(ret.ref, "InfrastructureInfo").max_pilot, net.max_pilot_signals)),
        ("C05.min_pilots", seq_eq(new.obj(ret.ref, "InfrastructureInfo").min_pilot, net.min_pilot_signals)),
        ("C05.allowable_pilots", seqseq_eq(new.obj(ret.ref, "InfrastructureInfo").allowable_pilots, net.allowable_rates)),
        ("C05.continuity_flags", seq_eq(new.obj(ret.ref, "InfrastructureInfo").is_continuous, net.is_continuous)),
        ("C05.constraint_matrix", Implies(Not(cm.isnone), mat_eq(new.obj(ret.ref, "InfrastructureInfo").constraint_matrix, cm.val))),
        ("C06.constraint_free_network_is_an_empty_matrix", Implies(cm.isnone, And(new.obj(ret.ref, "InfrastructureInfo").constraint_matrix.rows == 0,
                                                                                  new.obj(ret.ref, "InfrastructureInfo").constraint_matrix.cols == net._EVSEs.keys.len))),
        ("well_formed", infra_wf(new, new.obj(ret.ref, "InfrastructureInfo"))),
    ]


for _fn in ("_infrastructure_info", "infrastructure_info"):
    REG.contract(
        IF + _fn, params=dict(self=Ref("Interface")), ret=Ref("InfrastructureInfo"), fresh_ret=True,
        requires=[C("network", lambda s: And(net_wf(s, s.self._simulator.network), net_shapes(s, s.self._simulator.network),
                                             net_info_wf(s, s.self._simulator.network)))],
        modifies=[("InfrastructureInfo." + f, "FRESH") for f in II_FIELDS] + ["alloc"],
        ensures=[C("C05.true_infrastructure_description", _info_post, props=("C05", "C06"))],
    )


# ---------------------------------------------------------------------------- scalar accessors
def _acc(name, field, rettype=Real):
    REG.contract(
        IF + name, params=dict(self=Ref("Interface"), station_id=Id), ret=rettype,
        requires=[C("network", lambda s: And(net_wf(s, s.self._simulator.network), net_shapes(s, s.self._simulator.network),
                                             net_info_wf(s, s.self._simulator.network)))],
        raises=[RaiseSpec("KeyError", lambda s: Not(s.self._simulator.network._EVSEs.has(s.station_id)), iff=True, unchanged=False)],
        modifies=[("InfrastructureInfo." + f, "FRESH") for f in II_FIELDS] + ["alloc"],
        ensures=[C("C05." + name, lambda old, new, ret, field=field: ret == ty.sel(getattr(old.self._simulator.network, field).v.arrs[0],
                                                                                maplib_pos(old.self._simulator.network, old.station_id)))])


def maplib_pos(net, sid):
    """position of a station in the registration order"""
    from pyvc import maplib
    return maplib._kpos(net._EVSEs.keys.v.arrs[0], sid)


_acc("max_pilot_signal", "max_pilot_signals")
_acc("min_pilot_signal", "min_pilot_signals")
_acc("evse_voltage", "_voltages")
_acc("evse_phase", "_phase_angles")


# ---------------------------------------------------------------------------- remaining demand in amp-periods
def _rap_define(ex, st, pre):
    """Definition (recorded as an assumption): RAPF(requested, delivered, voltage, period) abbreviates (requested - delivered) x 1000 / voltage x 60 / period"""
    ev, sim = pre.ev, pre.self._simulator
    net = sim.network
    v = ty.sel(net._voltages.v.arrs[0], net_index(net, ev.station_id))
    st.assume(RAPF(ev.requested_energy, ev.energy_delivered, v, sim.period) == (ev.requested_energy - ev.energy_delivered) * 1000 / v * 60 / sim.period)
    return {}


REG.assume("definition", "RAPF(requested, delivered, voltage, period) := (requested - delivered) kWh x 1000 / voltage x 60 / period  (remaining demand in A x periods)")
REG.contract(
    IF + "remaining_amp_periods", params=dict(self=Ref("Interface"), ev=Ref("SessionInfo")), ret=Real,
    requires=[C("network", lambda s: And(net_wf(s, s.self._simulator.network), net_shapes(s, s.self._simulator.network), net_info_wf(s, s.self._simulator.network))),
              C("station_registered_nonzero_voltage_and_period", lambda s: And(
                  s.self._simulator.network._EVSEs.has(s.ev.station_id), s.self._simulator.period != 0,
                  ty.sel(s.self._simulator.network._voltages.v.arrs[0], net_index(s.self._simulator.network, s.ev.station_id)) != 0))],
    modifies=[("InfrastructureInfo." + f, "FRESH") for f in II_FIELDS] + ["alloc"],
    ensures=[C("C07.remaining_amp_periods", lambda old, new, ret: ret == rap(old, old.self, old.ev))],
    extra=dict(ghost_entry=_rap_define))
