"""Contracts for acnportal/acnsim/network/current.py and the constraint bookkeeping of ChargingNetwork  (C12).

A Current is a finite mapping station id -> coefficient (ghost field `coef`); a station the mapping does not mention has coefficient 0.
The network's constraint table is (constraint_matrix, magnitudes, constraint_index): row i of the matrix, limit i and name i describe
constraint i; column j belongs to the j-th registered station."""
import z3
from pyvc.vtypes import FA
from pyvc.contracts_api import REG, C, RaiseSpec, LoopSpec
from pyvc.dsl import And, Or, Not, Implies, If, Eq, IsNone, AllIdx, AnyIdx
from pyvc.vtypes import Real, Int, Bool, Id, Ref, Opt, Seq, Tup, Map, Mat, IdSort, RefSort
from pyvc import vtypes as ty
from .feasibility import net_shapes
from .network import net_wf

CUR = "acnportal.acnsim.network.current.Current."
N = "acnportal.acnsim.network.charging_network.ChargingNetwork."

REG.schema("Current", **{"coef": Map(Id, Real, ordered=True), "name": Opt(Id)})


def coef(cur, k):
    """coefficient of station k in a Current (0 if the Current does not mention it)"""
    m = cur.coef._v
    return z3.If(z3.Select(m.dom, k), z3.Select(m.arrs[0], k), z3.RealVal(0))


def mentions(cur, k):
    return z3.Select(cur.coef._v.dom, k)


def _algebra(name, combine, requires_current=True):
    def post(old, new, ret):
        k = z3.Const("k!alg", IdSort)
        return [("result_is_a_new_current", And(ret.ref != 0, Not(old.alloc_ref(ret.ref)))),
                ("C12.coefficients_pointwise", FA([k], coef(ret, k) == combine(old, k))),
                ("mentions_the_union", FA([k], mentions(ret, k) == z3.Or(mentions(old.self, k), mentions(old.other, k)) if requires_current else mentions(ret, k) == mentions(old.self, k)))]
    return post


REG.contract(
    CUR + "__add__", params=dict(self=Ref("Current"), other=Ref("Current")), ret=Ref("Current"), fresh_ret=True,
    modifies=[("Current.coef", "FRESH"), ("Current.name", "FRESH"), "alloc"],
    ensures=[C("C12.sum", props=("C12", "C10"), fn=_algebra("add", lambda old, k: coef(old.self, k) + coef(old.other, k)))])
REG.contract(
    CUR + "__sub__", params=dict(self=Ref("Current"), other=Ref("Current")), ret=Ref("Current"), fresh_ret=True,
    modifies=[("Current.coef", "FRESH"), ("Current.name", "FRESH"), "alloc"],
    ensures=[C("C12.difference", _algebra("sub", lambda old, k: coef(old.self, k) - coef(old.other, k)))])
REG.contract(
    CUR + "__mul__", params=dict(self=Ref("Current"), other=Real), ret=Ref("Current"), fresh_ret=True,
    modifies=[("Current.coef", "FRESH"), ("Current.name", "FRESH"), "alloc"],
    ensures=[C("C12.scalar_multiple", _algebra("mul", lambda old, k: coef(old.self, k) * old.other, requires_current=False))])


# ---------------------------------------------------------------------------- the constraint table
INFO_FIELDS = ["_station_ids_dict", "max_pilot_signals", "min_pilot_signals", "allowable_rates", "is_continuous"]

# what a registered station advertises, seen through a base-class reference (dynamic dispatch): the value each property returns is named by an
# uninterpreted function of the EVSE object.  The three concrete classes' properties are verified against their own definitions in C13 (contracts/evse.py);
# here only "the network's cache holds whatever the station's own property returns" is at stake.
ADV_MAX = z3.Function("evse_advertised_max_rate", RefSort, z3.RealSort())
ADV_MIN = z3.Function("evse_advertised_min_rate", RefSort, z3.RealSort())
ADV_LV = z3.Function("evse_advertised_levels", RefSort, z3.ArraySort(z3.IntSort(), z3.RealSort()))
ADV_LVN = z3.Function("evse_advertised_level_count", RefSort, z3.IntSort())
EVSEM = "acnportal.acnsim.models.evse."
_DISPATCH = ("dynamic dispatch on a registered station: the value the station's own property returns, as a function of the EVSE object (A-OWN: EVSE "
             "parameters are not mutated after registration); EVSE / DeadbandEVSE / FiniteRatesEVSE implement it and are verified in C13")
REG.contract(EVSEM + "BaseEVSE.max_rate", params=dict(self=Ref("BaseEVSE")), ret=Real, modifies=[], assumed=_DISPATCH,
             ensures=[C("advertised", lambda old, new, ret: ret == ADV_MAX(old.self.ref))],
             iface=[C("advertised", lambda old, new, ret: ret == ADV_MAX(old.self.ref))])
REG.contract(EVSEM + "BaseEVSE.min_rate", params=dict(self=Ref("BaseEVSE")), ret=Real, modifies=[], assumed=_DISPATCH,
             ensures=[C("advertised", lambda old, new, ret: ret == ADV_MIN(old.self.ref))],
             iface=[C("advertised", lambda old, new, ret: ret == ADV_MIN(old.self.ref))])
REG.contract(EVSEM + "BaseEVSE.allowable_pilot_signals", params=dict(self=Ref("BaseEVSE")), ret=Seq(Real), modifies=[], assumed=_DISPATCH,
             ensures=[C("advertised", lambda old, new, ret: And(ret.len == ADV_LVN(old.self.ref), ret.v.arrs[0] == ADV_LV(old.self.ref), ret.len >= 0))],
             iface=[C("advertised", lambda old, new, ret: And(ret.len == ADV_LVN(old.self.ref), ret.v.arrs[0] == ADV_LV(old.self.ref), ret.len >= 0))])


def info_store_is_truthful(s, net, upto=None, allowable=None, flags=None):
    """C05 / C07: the cached per-station descriptions handed to schedulers are what each registered station itself advertises - entry i belongs to the
    i-th registered station: its max / min rate, its allowable pilot list, its continuity flag; the index dictionary inverts the registration order"""
    n = net._EVSEs.keys.len
    i = z3.Int("i!uis")
    sid = ty.sel(net._EVSEs.keys.v.arrs[0], i)
    ev = z3.Select(net._EVSEs._v.arrs[0], sid)
    hi = n if upto is None else upto
    ar = net.allowable_rates if allowable is None else allowable
    fl = net.is_continuous if flags is None else flags
    rng = z3.And(i >= 0, i < hi)
    cont = s.field_of(ev, "BaseEVSE", "is_continuous")
    out = [
        ("C05.one_allowable_list_and_flag_per_station", And(ar.len == hi, fl.len == hi)),
        ("C05.allowable_rates_are_each_stations_advertised_list",
         FA([i], z3.Implies(rng, z3.And(z3.Select(ar.v.arrs[1], i) == ADV_LVN(ev), z3.Select(ar.v.arrs[0], i) == ADV_LV(ev))), patterns=[sid])),
        ("C05.continuity_flags_are_each_stations_flag", FA([i], z3.Implies(rng, ty.sel(fl.v.arrs[0], i) == cont), patterns=[sid])),
    ]
    if upto is None:
        d = net._station_ids_dict._v
        out += [
            ("C05.one_max_and_min_per_station", And(net.max_pilot_signals.len == n, net.min_pilot_signals.len == n)),
            ("C05.max_pilots_are_each_stations_advertised_maximum", FA([i], z3.Implies(rng, ty.sel(net.max_pilot_signals.v.arrs[0], i) == ADV_MAX(ev)), patterns=[sid])),
            ("C05.min_pilots_are_each_stations_advertised_minimum", FA([i], z3.Implies(rng, ty.sel(net.min_pilot_signals.v.arrs[0], i) == ADV_MIN(ev)), patterns=[sid])),
            ("C05.index_dictionary_inverts_the_registration_order", FA([i], z3.Implies(rng, z3.And(z3.Select(d.dom, sid), z3.Select(d.arrs[0], sid) == i)), patterns=[sid])),
        ]
    return out


def _same_five(new, ret):
    """the returned tuple is the five fields just stored"""
    net = new.self
    d, mx, mn, ar, fl = ret[0], ret[1], ret[2], ret[3], ret[4]
    return And(d._v.dom == net._station_ids_dict._v.dom, d._v.arrs[0] == net._station_ids_dict._v.arrs[0],
               mx.len == net.max_pilot_signals.len, mx.v.arrs[0] == net.max_pilot_signals.v.arrs[0],
               mn.len == net.min_pilot_signals.len, mn.v.arrs[0] == net.min_pilot_signals.v.arrs[0],
               ar.len == net.allowable_rates.len, ar.v.arrs[0] == net.allowable_rates.v.arrs[0], ar.v.arrs[1] == net.allowable_rates.v.arrs[1],
               fl.len == net.is_continuous.len, fl.v.arrs[0] == net.is_continuous.v.arrs[0])


def registry_live(s, net):
    """the ordered key list of the station registry is exactly its domain and every registered EVSE is a live object"""
    from pyvc import maplib
    m = net._EVSEs._v
    k = z3.Const("rk!live", IdSort)
    return And(maplib.keys_wf(m), FA([k], z3.Implies(z3.Select(m.dom, k), z3.And(z3.Select(m.arrs[0], k) != 0, s.alloc_ref(z3.Select(m.arrs[0], k)))),
                                     patterns=[z3.Select(m.arrs[0], k)]))


REG.contract(
    N + "_update_info_store", params=dict(self=Ref("ChargingNetwork")),
    ret=Tup(Map(Id, Int), Seq(Real), Seq(Real), Seq(Seq(Real)), Seq(Bool)),
    requires=[C("registry_live", lambda s: registry_live(s, s.self))],
    modifies=[("ChargingNetwork." + f, lambda s: [s.self]) for f in INFO_FIELDS],
    ensures=[C("C05.info_store", lambda old, new, ret: info_store_is_truthful(new, new.self), props=("C05", "C07", "C13")),
             C("returns_the_five_cached_descriptions", lambda old, new, ret: _same_five(new, ret))],
    loops={0: LoopSpec(invariant=lambda s: info_store_is_truthful(s, s.self, upto=s._k, allowable=s.allowable_rates, flags=s.is_continuous),
                       locals=dict(allowable_rates=Seq(Seq(Real)), is_continuous=Seq(Bool)))},
)


def station(net, j):
    return ty.sel(net._EVSEs.keys.v.arrs[0], j)


def table_wf(s, net):
    """the constraint table is aligned: M names, M limits, M x N matrix (or no matrix and no constraint), N registered stations"""
    return And(net_wf(s, net), net_shapes(s, net))


def row_is(net_new, i, row_coef):
    """row i of the (new) matrix holds, for every registered station j, row_coef(station j)"""
    j = z3.Int("j!row")
    A = net_new.constraint_matrix.val
    return FA([j], z3.Implies(z3.And(j >= 0, j < net_new._EVSEs.keys.len), ty.sel(A.arr, i, j) == row_coef(station(net_new, j))))


def rows_kept(old_net, new_net, upto, shift=lambda i: i, skip=None):
    """rows 0..upto-1 of the new matrix / limits / names are rows shift(i) of the old ones"""
    i, j = z3.Int("i!rk"), z3.Int("j!rk")
    A0, A1 = old_net.constraint_matrix.val, new_net.constraint_matrix.val
    return And(
        FA([i, j], z3.Implies(z3.And(i >= 0, i < upto, j >= 0, j < old_net._EVSEs.keys.len), ty.sel(A1.arr, i, j) == ty.sel(A0.arr, shift(i), j))),
        FA([i], z3.Implies(z3.And(i >= 0, i < upto), z3.And(ty.sel(new_net.magnitudes.v.arrs[0], i) == ty.sel(old_net.magnitudes.v.arrs[0], shift(i)),
                                                            ty.sel(new_net.constraint_index.v.arrs[0], i) == ty.sel(old_net.constraint_index.v.arrs[0], shift(i))))))


def _name_used(s, net, name):
    i = z3.Int("i!nu")
    return z3.Exists([i], z3.And(i >= 0, i < net.constraint_index.len, ty.sel(net.constraint_index.v.arrs[0], i) == name))


def _unknown_station(s):
    k = z3.Const("k!us", IdSort)
    return z3.Exists([k], z3.And(mentions(s.current, k), z3.Not(s.self._EVSEs.has(k))))


def _ac_post(old, new, ret):
    net0, net1 = old.self, new.self
    M = net0.constraint_index.len
    cur = old.current
    return [
        ("one_more_constraint", And(net1.constraint_index.len == M + 1, net1.magnitudes.len == M + 1, Not(net1.constraint_matrix.isnone),
                                    net1.constraint_matrix.val.rows == M + 1, net1.constraint_matrix.val.cols == net0._EVSEs.keys.len)),
        ("C12.existing_rows_limits_and_names_unchanged", Implies(M > 0, rows_kept(net0, net1, M))),
        ("existing_limits_and_names_unchanged", AllIdx(0, M, lambda i: And(Eq(net1.magnitudes[i], net0.magnitudes[i]), net1.constraint_index[i] == net0.constraint_index[i]), name="ek")),
        ("C12.new_row_holds_each_stations_coefficient_zero_if_absent", row_is(net1, M, lambda k: coef(cur, k))),
        ("C12.new_limit", Eq(net1.magnitudes[M], old.limit)),
        ("C12.new_name_is_the_given_name_when_it_is_free", Implies(And(Not(old.name.isnone), Not(_name_used(old, net0, old.name.val))),
                                                                  net1.constraint_index[M] == old.name.val)),
        ("table_stays_aligned", net_shapes(new, net1)),
    ]


def _as_id(x):
    return x.val if hasattr(x, "isnone") else x


def _ac_first_row_inv(s):
    """first constraint of a network: the one-row frame built from the Current is being completed with a 0 column for every station it lacks"""
    f = s.constraint_frame_
    cur = s.current
    k, i = z3.Const("k!fr", IdSort), z3.Int("i!fr")
    ids = s._iter
    added = lambda kk: z3.Exists([i], z3.And(i >= 0, i < s._k, ty.sel(ids.v.arrs[0], i) == kk))
    return [
        ("one_row_named_like_the_constraint", And(f.index.len == 1, f.index[0] == _as_id(s.name))),
        ("columns_are_the_currents_stations_and_the_stations_visited", FA([k], z3.Select(f.hascol, k) == z3.Or(mentions(cur, k), added(k)))),
        ("cells_hold_the_coefficients", FA([k], z3.Implies(z3.Select(f.hascol, k), z3.And(f.cell(0, k) == coef(cur, k), z3.Not(f.nan(0, k)))))),
    ]


REG.contract(
    N + "add_constraint", params=dict(self=Ref("ChargingNetwork"), current=Ref("Current"), limit=Real, name=Opt(Id)),
    requires=[C("table", lambda s: table_wf(s, s.self))],
    raises=[RaiseSpec("KeyError", _unknown_station, iff=True, unchanged=True)],
    modifies=[("ChargingNetwork." + f, lambda s: [s.self]) for f in INFO_FIELDS + ["constraint_matrix", "magnitudes", "constraint_index"]]
             + [("Current.name", lambda s: [s.current]), "warnings"],
    ensures=[C("C12.add_constraint", _ac_post, props=("C12", "C10"))],   # the row is a function of the Current's coefficients, not of its listing order
    loops={0: LoopSpec(invariant=lambda s: [("listed_stations_registered", AllIdx(0, s._k, lambda i: s.self._EVSEs.has(s._iter[i]), name="ls"))]),
           1: LoopSpec(invariant=_ac_first_row_inv)},
)


def _first_pos(net, name):
    """position of the first constraint with that name (witness function; meaningful when the name is used)"""
    return z3.Function("first_named", z3.ArraySort(z3.IntSort(), IdSort), IdSort, z3.IntSort())(net.constraint_index.v.arrs[0], name)


def _rc_post(old, new, ret):
    net0, net1 = old.self, new.self
    M = net0.constraint_index.len
    names0 = net0.constraint_index.v.arrs[0]
    p, j = z3.Int("p!rc"), z3.Int("j!rc")
    # p = the first row carrying that name; every other row keeps its content, limit and name, the later ones moving up by one
    witness = z3.Exists([p], z3.And(
        p >= 0, p < M, ty.sel(names0, p) == old.name, FA([j], z3.Implies(z3.And(j >= 0, j < p), ty.sel(names0, j) != old.name)),
        rows_kept(net0, net1, M - 1, shift=lambda i: z3.If(i < p, i, i + 1))))
    return [
        ("one_constraint_fewer", And(net1.constraint_index.len == M - 1, net1.magnitudes.len == M - 1, Not(net1.constraint_matrix.isnone),
                                     net1.constraint_matrix.val.rows == M - 1, net1.constraint_matrix.val.cols == net0._EVSEs.keys.len)),
        ("C12.the_first_row_with_that_name_is_removed_with_its_limit_and_name_all_others_stay_aligned", witness),
        ("table_stays_aligned", net_shapes(new, net1)),
    ]


REG.contract(
    N + "remove_constraint", params=dict(self=Ref("ChargingNetwork"), name=Id),
    requires=[C("table", lambda s: table_wf(s, s.self))],
    raises=[RaiseSpec("KeyError", lambda s: Not(_name_used(s, s.self, s.name)), iff=True, unchanged=True)],
    modifies=[("ChargingNetwork." + f, lambda s: [s.self]) for f in INFO_FIELDS + ["constraint_matrix", "magnitudes", "constraint_index"]],
    ensures=[C("C12.remove_constraint", _rc_post)],
)


def _re_post(old, new, ret):
    net0, net1 = old.self, new.self
    n = net0._EVSEs.keys.len
    sid = old.evse._station_id
    is_new = Not(net0._EVSEs.has(sid))
    return [
        ("registered_under_its_station_id", And(net1._EVSEs.has(sid), net1._EVSEs[sid] == old.evse)),
        ("C12.new_station_is_appended_to_the_station_order", Implies(is_new, And(net1._EVSEs.keys.len == n + 1, net1._EVSEs.keys[n] == sid,
                                                                                AllIdx(0, n, lambda i: net1._EVSEs.keys[i] == net0._EVSEs.keys[i], name="rk")))),
        ("voltage_and_phase_appended", And(net1._voltages.len == net0._voltages.len + 1, net1._phase_angles.len == net0._phase_angles.len + 1,
                                           Eq(net1._voltages[net0._voltages.len], old.voltage), Eq(net1._phase_angles[net0._phase_angles.len], old.phase_angle),
                                           AllIdx(0, net0._voltages.len, lambda i: Eq(net1._voltages[i], net0._voltages[i]), name="rv"),
                                           AllIdx(0, net0._phase_angles.len, lambda i: Eq(net1._phase_angles[i], net0._phase_angles[i]), name="rp"))),
        ("registry_stays_live", registry_live(new, net1)),
        ("registry_stays_well_formed", Implies(net_wf(old, net0), net_wf(new, net1))),
    ]


REG.contract(
    N + "register_evse", params=dict(self=Ref("ChargingNetwork"), evse=Ref("BaseEVSE"), voltage=Real, phase_angle=Real),
    requires=[C("registry_live", lambda s: registry_live(s, s.self))],
    raises=[RaiseSpec("EVSERegistrationError", lambda s: Not(s.self.constraint_matrix.isnone), iff=True, unchanged=True)],
    modifies=[("ChargingNetwork." + f, lambda s: [s.self]) for f in INFO_FIELDS + ["_EVSEs", "_voltages", "_phase_angles"]],
    ensures=[C("C12.register_evse", _re_post),
             # C05 / C07: after every registration the descriptions cached for schedulers are what the registered stations advertise
             C("C05.info_store_refreshed", lambda old, new, ret: info_store_is_truthful(new, new.self), props=("C05", "C07", "C12"))],
)


def _uc_post(old, new, ret):
    net0, net1 = old.self, new.self
    M = net0.constraint_index.len
    names0 = net0.constraint_index.v.arrs[0]
    cur = old.current
    p, j = z3.Int("p!uc"), z3.Int("j!uc")
    others = z3.Exists([p], z3.And(
        p >= 0, p < M, ty.sel(names0, p) == old.name, FA([j], z3.Implies(z3.And(j >= 0, j < p), ty.sel(names0, j) != old.name)),
        rows_kept(net0, net1, M - 1, shift=lambda i: z3.If(i < p, i, i + 1))))
    return [
        ("same_number_of_constraints", And(net1.constraint_index.len == M, net1.magnitudes.len == M, Not(net1.constraint_matrix.isnone),
                                           net1.constraint_matrix.val.rows == M, net1.constraint_matrix.val.cols == net0._EVSEs.keys.len)),
        ("C12.all_other_constraints_keep_row_limit_and_name_aligned", others),
        ("C12.updated_constraint_is_the_last_row_with_the_new_coefficients", row_is(net1, M - 1, lambda k: coef(cur, k))),
        ("C12.updated_limit", Eq(net1.magnitudes[M - 1], old.limit)),
        ("table_stays_aligned", net_shapes(new, net1)),
    ]


REG.contract(
    N + "update_constraint", params=dict(self=Ref("ChargingNetwork"), name=Id, current=Ref("Current"), limit=Real, new_name=Opt(Id)),
    requires=[C("table", lambda s: table_wf(s, s.self))],
    raises=[RaiseSpec("KeyError", lambda s: Or(Not(_name_used(s, s.self, s.name)), _unknown_station(s)), iff=True, unchanged=False)],
    modifies=[("ChargingNetwork." + f, lambda s: [s.self]) for f in INFO_FIELDS + ["constraint_matrix", "magnitudes", "constraint_index"]]
             + [("Current.name", lambda s: [s.current]), "warnings"],
    ensures=[C("C12.update_constraint", _uc_post)],
)


# ---------------------------------------------------------------------------- Current construction from a list of station ids (the site factories' form)
def _ci_post(old, new, ret):
    k = z3.Const("k!ci", IdSort)
    ids = old.loads
    i = z3.Int("i!ci")
    listed = z3.Exists([i], z3.And(i >= 0, i < ids.len, ty.sel(ids.v.arrs[0], i) == k))
    return [("C12.a_current_built_from_a_list_of_stations_has_coefficient_one_for_each_of_them_and_mentions_no_other",
             FA([k], z3.And(mentions(new.self, k) == listed, z3.Implies(listed, coef(new.self, k) == 1))))]


REG.contract(
    CUR + "__init__", params=dict(self=Ref("Current"), loads=Seq(Id)), modifies=[("Current.coef", lambda s: [s.self]), ("Current.name", lambda s: [s.self])],
    ensures=[C("C12.current_from_station_list", _ci_post, props=("C12", "C16"))], recv="list",
)


# ---------------------------------------------------------------------------- the constructor: an empty, well-formed network
REG.contract(
    N + "__init__", params=dict(self=Ref("ChargingNetwork"), violation_tolerance=Real, relative_tolerance=Real),
    modifies=[("ChargingNetwork." + f, lambda s: [s.self]) for f in INFO_FIELDS + ["_EVSEs", "_voltages", "_phase_angles", "constraint_matrix", "magnitudes",
                                                                                   "constraint_index", "violation_tolerance", "relative_tolerance"]],
    ensures=[C("C12.empty_network", lambda old, new, ret: [
        ("no_station_no_constraint", And(new.self._EVSEs.keys.len == 0, new.self.constraint_matrix.isnone, new.self.magnitudes.len == 0,
                                         new.self.constraint_index.len == 0, new.self._voltages.len == 0, new.self._phase_angles.len == 0)),
        ("tolerances_as_given", And(Eq(new.self.violation_tolerance, old.violation_tolerance), Eq(new.self.relative_tolerance, old.relative_tolerance))),
        ("registry_live", registry_live(new, new.self)),
        ("table_aligned", table_wf(new, new.self))], props=("C12", "C06")),
        C("C05.info_store_initialised", lambda old, new, ret: info_store_is_truthful(new, new.self), props=("C05", "C12"))],
)


# ---------------------------------------------------------------------------- sites.auto_acn.simple_acn: stations in the order given (C10 / C19 reproducibility)
def _distinct_ids(ids, name):
    a, b = z3.Int("a!" + name), z3.Int("b!" + name)
    v = ids.v.arrs[0]
    return FA([a, b], z3.Implies(z3.And(a >= 0, a < b, b < ids.len), ty.sel(v, a) != ty.sel(v, b)), patterns=[z3.MultiPattern(ty.sel(v, a), ty.sel(v, b))])


def _registered_prefix(s, net, ids, upto, voltage):
    """the first `upto` given ids are the registered stations, IN THE ORDER GIVEN, each at the given voltage and phase 0; no constraint yet"""
    i = z3.Int("i!sacn")
    return [
        ("C10.stations_registered_in_the_order_given", And(net._EVSEs.keys.len == upto, FA([i], z3.Implies(z3.And(i >= 0, i < upto), station(net, i) == ty.sel(ids.v.arrs[0], i)),
                                                                                         patterns=[station(net, i)]))),
        ("voltages_and_phases", And(net._voltages.len == upto, net._phase_angles.len == upto,
                                    FA([i], z3.Implies(z3.And(i >= 0, i < upto), z3.And(ty.sel(net._voltages.v.arrs[0], i) == voltage, ty.sel(net._phase_angles.v.arrs[0], i) == 0))))),
        ("registry_well_formed", And(registry_live(s, net), net_wf(s, net))),
    ]


REG.contract(
    "acnportal.acnsim.network.sites.auto_acn.simple_acn",
    params=dict(station_ids=Seq(Id), evse_type=Id, voltage=Real, aggregate_cap=Real), ret=Ref("ChargingNetwork"),
    requires=[C("distinct_station_ids", lambda s: _distinct_ids(s.station_ids, "sad")),
              C("known_evse_type", lambda s: Or(Eq(s.evse_type, "BASIC"), Eq(s.evse_type, "AeroVironment"), Eq(s.evse_type, "ClipperCreek"))),
              C("voltage_nonzero", lambda s: s.voltage != 0)],
    modifies=["alloc", "warnings"] + [("ChargingNetwork." + f, "FRESH") for f in INFO_FIELDS + ["_EVSEs", "_voltages", "_phase_angles", "constraint_matrix", "magnitudes",
                                                                                                 "constraint_index", "violation_tolerance", "relative_tolerance"]]
             + [("BaseEVSE." + f, "FRESH") for f in ("_station_id", "_ev", "_current_pilot", "is_continuous")]
             + [("EVSE._max_rate", "FRESH"), ("EVSE._min_rate", "FRESH"), ("FiniteRatesEVSE.allowable_rates", "FRESH"), ("Current.coef", "FRESH"), ("Current.name", "FRESH")],
    ensures=[C("C10.simple_acn", lambda old, new, ret: _registered_prefix(new, new.obj(ret.ref, "ChargingNetwork"), old.station_ids, old.station_ids.len, old.voltage)[:2]
               + [("one_aggregate_constraint_with_the_current_limit", And(new.obj(ret.ref, "ChargingNetwork").magnitudes.len == 1,
                                                                          Eq(new.obj(ret.ref, "ChargingNetwork").magnitudes[0], (old.aggregate_cap / old.voltage) * 1000))),
                  ("every_station_counts_once_in_the_aggregate", row_is(new.obj(ret.ref, "ChargingNetwork"), 0, lambda k: z3.RealVal(1)))],
               props=("C10", "C19", "C12"))],
    loops={0: LoopSpec(invariant=lambda s: _registered_prefix(s, s.network, s.arg("station_ids"), s._k, s.voltage)
                       + [("no_constraint_yet", And(s.network.constraint_matrix.isnone, s.network.magnitudes.len == 0, s.network.constraint_index.len == 0))],
                       modifies=["alloc"] + [("ChargingNetwork." + f, lambda s: [s.network]) for f in INFO_FIELDS + ["_EVSEs", "_voltages", "_phase_angles"]]
                       + [("BaseEVSE." + f, "FRESH") for f in ("_station_id", "_ev", "_current_pilot", "is_continuous")]
                       + [("EVSE._max_rate", "FRESH"), ("EVSE._min_rate", "FRESH"), ("FiniteRatesEVSE.allowable_rates", "FRESH")])},
)
