"""Contracts for acnportal/acnsim/events/stochastic_events.py  (C15, stochastic samples -> sessions)."""
import z3
from pyvc.contracts_api import REG, C, RaiseSpec, LoopSpec
from pyvc.dsl import And, Or, Not, Implies, If, Eq, Min, IsNone
from pyvc.vtypes import Real, Int, Bool, Id, Ref, Opt, Seq, Mat, FA
from pyvc import vtypes as ty

SE = "acnportal.acnsim.events.stochastic_events.StochasticEvents."


def trunc(x):
    """python int() of a non-negative real = floor"""
    return z3.ToInt(x)


def row_valid(m, r):
    a, d, e = ty.sel(m.arr, r, 0), ty.sel(m.arr, r, 1), ty.sel(m.arr, r, 2)
    return z3.And(a >= 0, d > 0, e > 0)


def ev_of_row(s, ev, m, r, old, parts=False):
    """the EV built from sample row r: arrival / departure are the period indices (floor) of the arrival time and of arrival + stay (the stay capped at
    max_len, both in the sample's unit: hours), the requested energy is the sample's energy (capped at max power x stay under force_feasible), the default
    battery holds exactly the request"""
    a, d, e = ty.sel(m.arr, r, 0), ty.sel(m.arr, r, 1), ty.sel(m.arr, r, 2)
    pph = 60 / old.period
    stay = z3.If(z3.And(z3.Not(old.max_len.isnone), d > old.max_len.val), old.max_len.val, d)
    req = z3.If(old.force_feasible, z3.If(old.max_battery_power * stay < e, old.max_battery_power * stay, e), e)
    b = ev._battery
    ps = [("arrival_is_the_period_index_of_the_arrival_time", ev._arrival == trunc(a * pph)),
          ("departure_is_the_period_index_of_arrival_plus_capped_stay", ev._departure == trunc((a + stay) * pph)),
          ("requested_energy_is_the_samples_energy_capped_if_forced_feasible", ev._requested_energy == req),
          ("nothing_delivered_yet", ev._energy_delivered == 0),
          ("battery_holds_exactly_the_request", z3.And(b._capacity == req, b._current_charge == 0, b._max_power == old.max_battery_power,
                                                       b._capacity - b._current_charge >= ev._requested_energy))]
    return ps if parts else z3.And(*[g for _, g in ps])


def _inv_for(s, evs, upto, old, src, rank):
    """ghost: src[k] = sample row of the k-th session; rank[r] = position of row r's session in the result (-1 for a rejected row)"""
    m = old.ev_matrix
    k, r, k2 = z3.Int("k!cem"), z3.Int("r!cem"), z3.Int("k2!cem")
    ev = lambda kk: s.obj(z3.Select(evs.v.arrs[0], kk), "EV")
    sa = lambda x: ty.sel(src.v.arrs[0], x)
    rk = lambda x: ty.sel(rank.v.arrs[0], x)
    return [
        ("ghost_lengths", z3.And(src.len == evs.len, rank.len == upto, evs.len >= 0)),
        ("C15.every_built_session_comes_from_a_valid_sample_row",
         FA([k], z3.Implies(z3.And(k >= 0, k < evs.len), z3.And(sa(k) >= 0, sa(k) < upto, row_valid(m, sa(k)), ev(k).ref != 0, s.alloc_ref(ev(k).ref),
                                                                ev(k)._battery.ref != 0, s.alloc_ref(ev(k)._battery.ref))),
            patterns=[z3.Select(evs.v.arrs[0], k)])),
    ] + [("C15." + t, FA([k], z3.Implies(z3.And(k >= 0, k < evs.len), g), patterns=[z3.Select(evs.v.arrs[0], k)])) for t, g in ev_of_row(s, ev(k), m, sa(k), old, parts=True)] + [
        ("C15.sample_order_is_kept", FA([k, k2], z3.Implies(z3.And(k >= 0, k < k2, k2 < evs.len), sa(k) < sa(k2)), patterns=[z3.MultiPattern(sa(k), sa(k2))])),
        ("C15.every_valid_sample_row_has_its_session", FA([r], z3.Implies(z3.And(r >= 0, r < upto, row_valid(m, r)), z3.And(rk(r) >= 0, rk(r) < evs.len, sa(rk(r)) == r)),
                                                          patterns=[rk(r)])),
    ]


def _appended_if(cond, seq_view, x):
    v = seq_view.v
    return ty.SeqV(v.elem, [z3.If(cond, z3.Store(v.arrs[0], v.len, x), v.arrs[0])], z3.If(cond, v.len + 1, v.len))


REG.contract(
    SE + "_convert_ev_matrix",
    params=dict(ev_matrix=Mat, period=Real, voltage=Real, max_battery_power=Real, max_len=Opt(Real), battery_params=Opt(Ref("dict")), force_feasible=Bool),
    ret=Seq(Ref("EV")),
    requires=[C("args", lambda s: And(s.period > 0, s.max_battery_power > 0, s.ev_matrix.cols == 3, IsNone(s.battery_params))),
              C("cap_positive", lambda s: Implies(Not(s.max_len.isnone), s.max_len.val > 0))],
    modifies=["alloc", ("EV._arrival", "FRESH"), ("EV._departure", "FRESH"), ("EV._session_id", "FRESH"), ("EV._station_id", "FRESH"),
              ("EV._requested_energy", "FRESH"), ("EV._estimated_departure", "FRESH"), ("EV._battery", "FRESH"), ("EV._energy_delivered", "FRESH"),
              ("EV._current_charging_rate", "FRESH"), ("Battery._capacity", "FRESH"), ("Battery._current_charge", "FRESH"),
              ("Battery._init_charge", "FRESH"), ("Battery._max_power", "FRESH"), ("Battery._current_charging_power", "FRESH")],
    ensures=[C("C15.samples", lambda old, new, ret: _inv_for(new, ret, old.ev_matrix.rows, old, new.src, new.rank), props=("C15",))],
    loops={0: LoopSpec(invariant=lambda s: _inv_for(s, s.evs, s._k, s, s.src, s.rank), locals=dict(evs=Seq(Ref("EV"))), modifies=["alloc"],
                       ghost=lambda s: dict(src=[], rank=[]), ghost_vars=dict(src=Seq(Int), rank=Seq(Int)),
                       ghost_step=lambda head, end: dict(
                           src=_appended_if(end.evs.len > head.evs.len, head.src, head._k),
                           rank=_appended_if(z3.BoolVal(True), head.rank, z3.If(end.evs.len > head.evs.len, head.evs.len, -1))))},
)
