"""Sidecar contracts for zach401/acnportal.  Importing this package fills pyvc.contracts_api.REG."""
import importlib
import pkgutil

_loaded = False


def load_all():
    global _loaded
    if _loaded:
        return
    _loaded = True
    from . import schemas  # noqa: F401  (class schemas first)
    for m in sorted(pkgutil.iter_modules(__path__), key=lambda x: x.name):
        if m.name not in ("schemas",):
            importlib.import_module(f"{__name__}.{m.name}")
