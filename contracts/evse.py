"""Contracts for acnportal/acnsim/models/evse.py  (C13; set_pilot also carries C02/C03)."""
import z3
from pyvc.contracts_api import REG, C, RaiseSpec
from pyvc.dsl import And, Or, Not, Implies, If, Eq, Abs, IsNone, AllIdx, AnyIdx
from pyvc.vtypes import Real, Int, Bool, Id, Ref, Opt, Seq
from .battery import battery_inv, _energy
from .ev import ev_wf, ev_inv

M = "acnportal.acnsim.models.evse."
ATOL = z3.RealVal("1/1000")


# ---------------------------------------------------------------------------- acceptance predicates (spec)
# Written from the property: "accepts a pilot exactly when it lies, within 1e-3 A, in its allowable set".
def accepts_EVSE(e, p, atol=ATOL):
    return And(e._min_rate - atol <= p, p <= e._max_rate + atol)


def accepts_Deadband(e, p, atol=ATOL):
    return Or(Abs(p) <= atol, And(e._deadband_end - atol <= p, p <= e._max_rate + atol))


def accepts_Finite(e, p, atol=ATOL):
    return AnyIdx(0, e.allowable_rates.len, lambda i: Abs(p - e.allowable_rates[i]) <= ATOL)


ACCEPTS = {"EVSE": accepts_EVSE, "DeadbandEVSE": accepts_Deadband, "FiniteRatesEVSE": accepts_Finite}


# class invariants needed for "every advertised value is accepted"
def inv_EVSE(e):
    return e._min_rate <= e._max_rate


def inv_Deadband(e):
    return e._deadband_end <= e._max_rate


def inv_Finite(e):
    r = e.allowable_rates
    return And(r.len >= 1, AnyIdx(0, r.len, lambda i: r[i] == 0),
               AllIdx(0, r.len - 1, lambda i: r[i] < r[i + 1]), Not(e.is_continuous))


INV = {"EVSE": inv_EVSE, "DeadbandEVSE": inv_Deadband, "FiniteRatesEVSE": inv_Finite}

# ---------------------------------------------------------------------------- _valid_rate (one per class)
REG.contract(
    M + "EVSE._valid_rate", params=dict(self=Ref("EVSE"), pilot=Real, atol=Real), ret=Bool, modifies=[],
    ensures=[C("C13.accept_iff", lambda old, new, ret: ret == accepts_EVSE(old.self, old.pilot, old.atol))])
REG.contract(
    M + "DeadbandEVSE._valid_rate", params=dict(self=Ref("DeadbandEVSE"), pilot=Real, atol=Real), ret=Bool, modifies=[],
    ensures=[C("C13.accept_iff", lambda old, new, ret: ret == accepts_Deadband(old.self, old.pilot, old.atol))])
REG.contract(
    M + "FiniteRatesEVSE._valid_rate", params=dict(self=Ref("FiniteRatesEVSE"), pilot=Real, atol=Real), ret=Bool, modifies=[],
    ensures=[C("C13.accept_iff", lambda old, new, ret: ret == accepts_Finite(old.self, old.pilot))])

# ---------------------------------------------------------------------------- set_pilot, once per concrete receiver class
EV_FIELDS = ["EV._energy_delivered", "EV._current_charging_rate"]
BATT_FIELDS = ["Battery._current_charge", "Battery._current_charging_power"]


def _set_pilot_contract(cls):
    acc = ACCEPTS[cls]
    occupied = lambda s: Not(IsNone(s.self._ev))
    REG.contract(
        M + "BaseEVSE.set_pilot", recv=cls,
        params=dict(self=Ref(cls, exact=True), pilot=Real, voltage=Real, period=Real),
        requires=[
            C("occupant_wf", lambda s: Implies(occupied(s), ev_wf(s.self._ev))),
            # weakest precondition: a *negative* accepted pilot (within the tolerance of a zero lower end) may
            # only be forwarded to a vacant station -- C03 speaks about non-negative pilots.
            C("pilot_nonneg_if_forwarded", lambda s: Implies(And(acc(s.self, s.pilot), occupied(s)), s.pilot >= 0)),
        ],
        raises=[
            RaiseSpec("InvalidRateError", lambda s: Not(acc(s.self, s.pilot)), iff=True, unchanged=True),
            RaiseSpec("ValueError", lambda s: And(acc(s.self, s.pilot), occupied(s), Or(s.voltage <= 0, s.period <= 0)),
                      iff=True, unchanged=False),
        ],
        modifies=["BaseEVSE._current_pilot"]
                 + [(f, lambda s: [s.self._ev]) for f in EV_FIELDS]
                 + [(f, lambda s: [s.self._ev._battery]) for f in BATT_FIELDS],
        ensures=[
            # C04: the pilot applied to a station is the value it was sent - whether or not an EV is attached
            C("C13.pilot_recorded", lambda old, new, ret: [
                Eq(new.self._current_pilot, old.pilot), new.self._ev == old.self._ev], props=("C13", "C04")),
            C("C03.rate_within_pilot", lambda old, new, ret: Implies(occupied(old), And(
                new.self._ev._current_charging_rate >= 0,
                new.self._ev._current_charging_rate <= old.pilot,
                new.self._ev._battery._current_charging_power <= old.self._ev._battery._max_power,
                new.self._ev._battery._current_charge >= old.self._ev._battery._current_charge,
                new.self._ev._battery._current_charge <= old.self._ev._battery._capacity,
                battery_inv(new.self._ev._battery)))),
            C("C02.exactly_one_charge", lambda old, new, ret: Implies(occupied(old), And(
                Eq(new.self._ev._energy_delivered,
                   old.self._ev._energy_delivered
                   + _energy(new.self._ev._current_charging_rate, old.voltage, old.period)),
                Eq(new.self._ev._energy_delivered - old.self._ev._energy_delivered,
                   new.self._ev._battery._current_charge - old.self._ev._battery._current_charge),
                new.self._ev._battery == old.self._ev._battery))),
        ],
    )


for _cls in ACCEPTS:
    _set_pilot_contract(_cls)

# ---------------------------------------------------------------------------- plugin / unplug
REG.contract(
    M + "BaseEVSE.plugin", params=dict(self=Ref("BaseEVSE"), ev=Ref("EV")),
    raises=[RaiseSpec("StationOccupiedError", lambda s: Not(IsNone(s.self._ev)), iff=True, unchanged=True)],
    modifies=["BaseEVSE._ev"],
    ensures=[C("C13.plugged", lambda old, new, ret: new.self._ev == old.ev)],
    iface=[C("C13.plugged", lambda old, new, ret: new.self._ev == old.ev)],
)
REG.contract(
    M + "BaseEVSE.unplug", params=dict(self=Ref("BaseEVSE")),
    modifies=["BaseEVSE._ev", "BaseEVSE._current_pilot"],
    ensures=[C("C01.unplugged", lambda old, new, ret: [IsNone(new.self._ev), Eq(new.self._current_pilot, 0)])],
    iface=[C("C01.unplugged", lambda old, new, ret: [IsNone(new.self._ev), Eq(new.self._current_pilot, 0)])],
)

# ---------------------------------------------------------------------------- constructors
BASE_FIELDS = ["BaseEVSE._station_id", "BaseEVSE._ev", "BaseEVSE._current_pilot", "BaseEVSE.is_continuous"]
REG.contract(
    M + "BaseEVSE.__init__", params=dict(self=Ref("BaseEVSE"), station_id=Id), modifies=BASE_FIELDS,
    ensures=[C("init", lambda old, new, ret: [
        new.self._station_id == old.station_id, IsNone(new.self._ev), Eq(new.self._current_pilot, 0), new.self.is_continuous])])
REG.contract(
    M + "EVSE.__init__", params=dict(self=Ref("EVSE"), station_id=Id, max_rate=Real, min_rate=Real),
    modifies=BASE_FIELDS + ["EVSE._max_rate", "EVSE._min_rate"],
    ensures=[C("C13.init", lambda old, new, ret: [
        new.self._station_id == old.station_id, IsNone(new.self._ev), Eq(new.self._current_pilot, 0),
        new.self.is_continuous, Eq(new.self._max_rate, old.max_rate), Eq(new.self._min_rate, old.min_rate),
        Implies(old.min_rate <= old.max_rate, inv_EVSE(new.self))])])
REG.contract(
    M + "FiniteRatesEVSE.__init__", params=dict(self=Ref("FiniteRatesEVSE"), station_id=Id, allowable_rates=Seq(Real)),
    modifies=BASE_FIELDS + ["FiniteRatesEVSE.allowable_rates"],
    ensures=[C("C13.finite_init", lambda old, new, ret: [
        ("inv", inv_Finite(new.self)),
        ("same_set_plus_zero", AllIdx(0, old.allowable_rates.len, lambda i: AnyIdx(
            0, new.self.allowable_rates.len, lambda j: new.self.allowable_rates[j] == old.allowable_rates[i]))),
        ("nothing_else", AllIdx(0, new.self.allowable_rates.len, lambda j: Or(
            new.self.allowable_rates[j] == 0,
            AnyIdx(0, old.allowable_rates.len, lambda i: new.self.allowable_rates[j] == old.allowable_rates[i])))),
        ("vacant", IsNone(new.self._ev)), ("id", new.self._station_id == old.station_id),
    ])])

# ---------------------------------------------------------------------------- advertised values (properties of the real classes)
REG.contract(M + "EVSE.max_rate", params=dict(self=Ref("EVSE")), ret=Real, modifies=[],
             ensures=[C("C13.adv", lambda old, new, ret: Eq(ret, old.self._max_rate))])
REG.contract(M + "EVSE.min_rate", params=dict(self=Ref("EVSE")), ret=Real, modifies=[],
             ensures=[C("C13.adv", lambda old, new, ret: Eq(ret, old.self._min_rate))])
REG.contract(M + "DeadbandEVSE.max_rate", params=dict(self=Ref("DeadbandEVSE")), ret=Real, modifies=[],
             ensures=[C("C13.adv", lambda old, new, ret: Eq(ret, old.self._max_rate))])
REG.contract(
    M + "FiniteRatesEVSE.max_rate", params=dict(self=Ref("FiniteRatesEVSE")), ret=Real, modifies=[],
    requires=[C("inv", lambda s: inv_Finite(s.self))],
    ensures=[C("C13.adv_max_is_accepted", lambda old, new, ret: [
        ("is_member", AnyIdx(0, old.self.allowable_rates.len, lambda i: old.self.allowable_rates[i] == ret)),
        ("is_max", AllIdx(0, old.self.allowable_rates.len, lambda i: old.self.allowable_rates[i] <= ret)),
        ("accepted", accepts_Finite(old.self, ret))])])
REG.contract(
    M + "FiniteRatesEVSE.min_rate", params=dict(self=Ref("FiniteRatesEVSE")), ret=Real, modifies=[],
    requires=[C("inv", lambda s: inv_Finite(s.self))],
    ensures=[C("C13.adv_min", lambda old, new, ret: [
        ("accepted", accepts_Finite(old.self, ret)),
        ("least_positive", AllIdx(0, old.self.allowable_rates.len, lambda i: Implies(
            old.self.allowable_rates[i] > 0, ret <= old.self.allowable_rates[i]))),
        ("nonneg", ret >= 0)])])


# ---------------------------------------------------------------------------- lemma: advertised => accepted
def _adv_lemma():
    """For every class: each value of allowable_pilot_signals (and max_rate) satisfies the class's own
    acceptance predicate, given the class invariant.  Pure formulas over the spec predicates that the
    _valid_rate contracts are proved equal to."""
    import z3 as _z
    mn, mx, db = _z.Reals("adv_min adv_max adv_db")

    class _E:  # a view-like record
        pass
    e = _E(); e._min_rate, e._max_rate = mn, mx
    d = _E(); d._deadband_end, d._max_rate = db, mx
    out = [
        ("EVSE/min_accepted", [inv_EVSE(e)], accepts_EVSE(e, mn)),
        ("EVSE/max_accepted", [inv_EVSE(e)], accepts_EVSE(e, mx)),
        ("Deadband/deadband_end_accepted", [inv_Deadband(d)], accepts_Deadband(d, db)),
        ("Deadband/max_accepted", [inv_Deadband(d)], accepts_Deadband(d, mx)),
        ("Deadband/zero_accepted", [inv_Deadband(d)], accepts_Deadband(d, _z.RealVal(0))),
        # the canary of the lemma's own hypotheses
    ]
    return out


REG.lemma("C13.advertised_is_accepted", _adv_lemma, props=("C13",))


# ---------------------------------------------------------------------------- allowable_pilot_signals / DeadbandEVSE ctor / factory
REG.contract(
    M + "EVSE.allowable_pilot_signals", params=dict(self=Ref("EVSE")), ret=Seq(Real), modifies=[],
    ensures=[C("C13.adv_list", lambda old, new, ret: [
        ("shape", And(ret.len == 2, Eq(ret[0], old.self._min_rate), Eq(ret[1], old.self._max_rate))),
        ("accepted", Implies(inv_EVSE(old.self), And(accepts_EVSE(old.self, ret[0]), accepts_EVSE(old.self, ret[1]))))])])
REG.contract(
    M + "DeadbandEVSE.allowable_pilot_signals", params=dict(self=Ref("DeadbandEVSE")), ret=Seq(Real), modifies=[],
    ensures=[C("C13.adv_list", lambda old, new, ret: [
        ("shape", And(ret.len == 2, Eq(ret[0], old.self._deadband_end), Eq(ret[1], old.self._max_rate))),
        ("accepted", Implies(inv_Deadband(old.self),
                             And(accepts_Deadband(old.self, ret[0]), accepts_Deadband(old.self, ret[1]))))])])
REG.contract(
    M + "FiniteRatesEVSE.allowable_pilot_signals", params=dict(self=Ref("FiniteRatesEVSE")), ret=Seq(Real), modifies=[],
    ensures=[C("C13.adv_list", lambda old, new, ret: [
        ("is_the_rate_list", And(ret.len == old.self.allowable_rates.len,
                                 AllIdx(0, ret.len, lambda i: ret[i] == old.self.allowable_rates[i]))),
        ("accepted", AllIdx(0, ret.len, lambda i: accepts_Finite(old.self, ret[i])))])])
REG.contract(
    M + "DeadbandEVSE.__init__",
    params=dict(self=Ref("DeadbandEVSE"), station_id=Id, deadband_end=Real, max_rate=Real),
    modifies=BASE_FIELDS + ["DeadbandEVSE._max_rate", "DeadbandEVSE._deadband_end"],
    ensures=[C("C13.init", lambda old, new, ret: [
        new.self._station_id == old.station_id, IsNone(new.self._ev), Eq(new.self._current_pilot, 0),
        Eq(new.self._max_rate, old.max_rate), Eq(new.self._deadband_end, old.deadband_end),
        Implies(old.deadband_end <= old.max_rate, inv_Deadband(new.self))])])


def _cls_of(v):
    return getattr(getattr(v, "_v", None), "cls", None)


def _factory_clauses(old, new, ret):
    c = _cls_of(ret)
    out = []
    if c == "EVSE":
        out += [("basic", And(Eq(old.evse_type, "BASIC"), Eq(ret._max_rate, 32), Eq(ret._min_rate, 0),
                              ret._station_id == old.station_id, IsNone(ret._ev), inv_EVSE(ret)))]
    elif c == "FiniteRatesEVSE":
        r = ret.allowable_rates
        # the rate list is strictly increasing (inv_Finite), so "same members" pins the list itself
        for tname, expected in (("AeroVironment", [0] + list(range(6, 33))), ("ClipperCreek", [0, 8, 16, 24, 32])):
            is_t = Eq(old.evse_type, tname)
            out.append((f"finite.{tname}.only_expected", Implies(is_t, AllIdx(0, r.len, lambda j: Or(*[r[j] == e for e in expected])))))
            for e in expected:
                out.append((f"finite.{tname}.has_{e}", Implies(is_t, AnyIdx(0, r.len, lambda j, e=e: r[j] == e))))
        out += [("finite", And(Or(Eq(old.evse_type, "AeroVironment"), Eq(old.evse_type, "ClipperCreek")),
                               ret._station_id == old.station_id, IsNone(ret._ev), inv_Finite(ret)))]
    elif ret is None:
        out += [("unknown_type", Not(Or(Eq(old.evse_type, "BASIC"), Eq(old.evse_type, "AeroVironment"),
                                        Eq(old.evse_type, "ClipperCreek"))))]
    elif c == "BaseEVSE":
        # the view a CALLER gets (the concrete class is not known statically): an object exactly for the three known types, vacant, carrying the
        # station id it was asked for; what the product advertises is reached through the dispatch-level property contracts
        known = Or(Eq(old.evse_type, "BASIC"), Eq(old.evse_type, "AeroVironment"), Eq(old.evse_type, "ClipperCreek"))
        out += [("product", And(Eq(ret.ref == 0, Not(known)), Implies(known, And(ret._station_id == old.station_id, IsNone(ret._ev), new.alloc_ref(ret.ref),
                                                                               Not(old.alloc_ref(ret.ref))))))]
    else:
        out += [("unexpected_class", False)]
    return out


REG.contract(
    # frame: only fields of the freshly allocated product are written - no existing station is touched
    M + "get_evse_by_type", params=dict(station_id=Id, evse_type=Id), ret=Ref("BaseEVSE", nullable=True), modifies=[(f, "FRESH") for f in BASE_FIELDS + [
        "EVSE._max_rate", "EVSE._min_rate", "FiniteRatesEVSE.allowable_rates"]] + ["alloc"],
    ensures=[C("C13.factory", _factory_clauses, props=("C13", "C16"))])


# ---------------------------------------------------------------------------- set_pilot through a base-class reference (network loop)
def _set_pilot_generic():
    occupied = lambda s: Not(IsNone(s.self._ev))
    REG.contract(
        M + "BaseEVSE.set_pilot",
        params=dict(self=Ref("BaseEVSE"), pilot=Real, voltage=Real, period=Real),
        requires=[C("occupant_wf", lambda s: Implies(occupied(s), ev_wf(s.self._ev)))],
        raises=[RaiseSpec("InvalidRateError", lambda s: True, iff=False, unchanged=True),
                RaiseSpec("ValueError", lambda s: True, iff=False, unchanged=False)],
        modifies=["BaseEVSE._current_pilot"]
                 + [(f, lambda s: [(s.self._ev, occupied(s))]) for f in EV_FIELDS]
                 + [(f, lambda s: [(s.self._ev._battery, occupied(s))]) for f in BATT_FIELDS],
        ensures=[C("C13.pilot_recorded", lambda old, new, ret: [Eq(new.self._current_pilot, old.pilot), new.self._ev == old.self._ev]),
                 C("C03.battery_inv_kept", lambda old, new, ret: Implies(occupied(old), And(
                     battery_inv(new.self._ev._battery), new.self._ev._battery == old.self._ev._battery))),
                 # the same clause, verbatim, as in the three receiver-specific contracts (each is verified from the body of set_pilot)
                 C("C02.exactly_one_charge", lambda old, new, ret: Implies(occupied(old), And(
                     Eq(new.self._ev._energy_delivered,
                        old.self._ev._energy_delivered
                        + _energy(new.self._ev._current_charging_rate, old.voltage, old.period)),
                     Eq(new.self._ev._energy_delivered - old.self._ev._energy_delivered,
                        new.self._ev._battery._current_charge - old.self._ev._battery._current_charge),
                     new.self._ev._battery == old.self._ev._battery)))],
    )


_set_pilot_generic()
