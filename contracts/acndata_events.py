"""Contracts for acnportal/acnsim/events/acndata_events.py  (C15)."""
import z3
from pyvc.contracts_api import REG, C, RaiseSpec, LoopSpec
from pyvc.dsl import And, Or, Not, Implies, If, Eq, Min, IsNone
from pyvc.vtypes import Real, Int, Bool, Id, Ref, Opt, Seq, Mat, FA
from pyvc.state import PyDict
from pyvc import vtypes as ty

M = "acnportal.acnsim.events.acndata_events."


def floor_idx(theta, period):
    """period index of an instant: floor(theta / (60 period))   (theta >= 0, period > 0)"""
    return z3.ToInt(ty.to_real(theta) / (60 * ty.to_real(period)))


REG.contract(
    M + "_datetime_to_timestamp", params=dict(dt=Ref("datetime"), period=Real, round_up=Bool), ret=Int, modifies=[],
    requires=[C("args", lambda s: And(s.period > 0, s.dt.theta >= 0))],
    ensures=[C("C15.floor_of_period_index", lambda old, new, ret: [
        ("floor", Implies(Not(old.round_up), ret == floor_idx(old.dt.theta, old.period))),
        ("floor_bounds", Implies(Not(old.round_up), And(ret * 60 * old.period <= old.dt.theta, old.dt.theta < (ret + 1) * 60 * old.period))),
        ("ceil_bounds", Implies(old.round_up, And((ret - 1) * 60 * old.period < old.dt.theta, old.dt.theta <= ret * 60 * old.period))),
    ])])


def _doc(ex, st):
    """a session document: dict with the five fields the converter reads (symbolic values)"""
    conn = ty.named(Ref("datetime"), "d.connectionTime")
    disc = ty.named(Ref("datetime"), "d.disconnectTime")
    for o in (conn, disc):
        st.assume(z3.And(o.ref != 0, z3.Select(st.alloc, o.ref)))
    return PyDict({"connectionTime": conn, "disconnectTime": disc, "kWhDelivered": z3.Real("d.kWhDelivered"),
                   "sessionID": z3.Const("d.sessionID", ty.IdSort), "spaceID": z3.Const("d.spaceID", ty.IdSort)})


def _conv_post(old, new, ret):
    d = old.d
    p = old.period
    a = floor_idx(d["connectionTime"].theta, p) - old.offset
    dep0 = floor_idx(d["disconnectTime"].theta, p) - old.offset
    dep = If(And(Not(old.max_len.isnone), dep0 - a > old.max_len.val), a + old.max_len.val, dep0)
    kwh = d["kWhDelivered"]
    req = If(old.force_feasible, Min(kwh, old.max_battery_power * (dep - a) * (p / 60)), kwh)
    b = ret._battery
    return [
        ("arrival_is_period_index_minus_start_index", ret._arrival == a),
        ("departure_is_period_index_minus_start_index_capped_at_max_len", ret._departure == dep),
        ("order_preserving", Implies(d["connectionTime"].theta <= d["disconnectTime"].theta, ret._arrival <= dep0)),
        ("stay_capped", Implies(Not(old.max_len.isnone), ret._departure - ret._arrival <= If(old.max_len.val >= 0, old.max_len.val, dep0 - a))),
        ("requested_energy", Eq(ret._requested_energy, req)),
        ("ids_copied", And(ret._session_id == d["sessionID"], ret._station_id.val == d["spaceID"], Not(ret._station_id.isnone))),
        ("battery_free_capacity_covers_request", b._capacity - b._current_charge >= ret._requested_energy),
        ("default_battery", And(Eq(b._capacity, req), Eq(b._current_charge, 0), Eq(b._max_power, old.max_battery_power))),
        ("starts_with_nothing_delivered", Eq(ret._energy_delivered, 0)),
    ]


REG.contract(
    M + "_convert_to_ev",
    params=dict(d=_doc, offset=Int, period=Real, voltage=Real, max_battery_power=Real, max_len=Opt(Int), force_feasible=Bool),
    requires=[C("args", lambda s: And(s.period > 0, s.d["connectionTime"].theta >= 0, s.d["disconnectTime"].theta >= 0,
                                      s.max_battery_power > 0, s.d["kWhDelivered"] > 0)),
              # the EV / Battery constructors reject empty stays and empty batteries: the property speaks about sessions that can be built
              C("non_degenerate", lambda s: And(
                  floor_idx(s.d["disconnectTime"].theta, s.period) > floor_idx(s.d["connectionTime"].theta, s.period),
                  Implies(Not(s.max_len.isnone), s.max_len.val > 0)))],
    modifies=["alloc", ("EV._arrival", "FRESH"), ("EV._departure", "FRESH"), ("EV._session_id", "FRESH"), ("EV._station_id", "FRESH"),
              ("EV._requested_energy", "FRESH"), ("EV._estimated_departure", "FRESH"), ("EV._battery", "FRESH"), ("EV._energy_delivered", "FRESH"),
              ("EV._current_charging_rate", "FRESH"), ("Battery._capacity", "FRESH"), ("Battery._current_charge", "FRESH"),
              ("Battery._init_charge", "FRESH"), ("Battery._max_power", "FRESH"), ("Battery._current_charging_power", "FRESH")],
    ensures=[C("C15.convert", _conv_post)],
)

