"""Contracts for acnportal/acnsim/models/battery.py  (C02 ledger, C03 bounds, C14 laws)."""
from pyvc.contracts_api import REG, C, RaiseSpec
from pyvc.dsl import And, Or, Not, Implies, If, Min, Max, Exp, Eq, With
from pyvc.vtypes import Real, Int, Bool, Id, Ref, Opt, Tup
import z3

M = "acnportal.acnsim.models.battery."


# ---------------------------------------------------------------------------- invariants
def battery_inv(b):
    """Representation invariant of every Battery (established by __init__/reset for valid
    arguments, preserved by every charge variant -- that induction is what carries the
    bounds of C03 along *sequences* of pilots)."""
    return And(b._capacity > 0, b._current_charge >= 0, b._current_charge <= b._capacity,
               b._max_power > 0)


def l2_inv(b):
    return And(battery_inv(b), b._transition_soc >= 0, b._transition_soc < 1, b._noise_level >= 0,
               Or(Eq(b.charge_calculation, "continuous"), Eq(b.charge_calculation, "stepwise")))


def _energy(ret, voltage, period):
    return ret * voltage / 1000 * (period / 60)


# ---------------------------------------------------------------------------- the spec function of C14
def F_core(s, r, R, tr, h):
    """Closed-form solution of the documented two-stage law, written from the docstring /
    property text (not from the code):  ds/dt = min(r, R (1-s)/(1-tr)),  r = requested SoC per hour
    (already capped at R), R = SoC per hour at maximum power, tr = transition SoC, h = hours.
    Returns a list of (case-name, case-condition, value-of-new-SoC)."""
    s_star = 1 - (r / R) * (1 - tr)                      # SoC where the taper reaches r
    kappa = R / (1 - tr)
    t_joint = (s_star - s) / r                           # hours until the joint (r > 0)
    return [
        ("linear", And(s < s_star, h <= t_joint), s + r * h),
        ("crossing", And(s < s_star, h > t_joint), 1 - (1 - s_star) * Exp(-kappa * (h - t_joint))),
        ("taper", s >= s_star, 1 - (1 - s) * Exp(-kappa * h)),
    ]


def two_stage_F(cap, charge, pmax, tr, pilot, voltage, period):
    return F_core(charge / cap, Min(pilot * voltage / 1000, pmax) / cap, pmax / cap, tr, period / 60)


# ---------------------------------------------------------------------------- common clauses
def bounds_and_ledger(old, new, ret, b_old, b_new):
    return [
        ("C03.rate_nonneg", ret >= 0),
        ("C03.rate_le_pilot", ret <= old.pilot),
        ("C03.power_le_max", b_new._current_charging_power <= b_old._max_power),
        ("C03.charge_mono", b_new._current_charge >= b_old._current_charge),
        ("C03.charge_le_cap", b_new._current_charge <= b_old._capacity),
        ("C02.ledger", Eq(b_new._current_charge,
                          b_old._current_charge + _energy(ret, old.voltage, old.period))),
        ("C02.power_is_rate", Eq(b_new._current_charging_power, ret * old.voltage / 1000)),
    ]


IFACE = [
    C("iface", lambda old, new, ret: bounds_and_ledger(old, new, ret, old.self, new.self), props=("C02", "C03")),
    C("inv", lambda old, new, ret: [("Battery.inv_preserved", battery_inv(new.self))], props=("C03",)),
]
RAISES = [RaiseSpec("ValueError", lambda s: Or(s.voltage <= 0, s.period <= 0), iff=True, unchanged=True)]
MODIFIES = ["Battery._current_charge", "Battery._current_charging_power"]
PARAMS = dict(pilot=Real, voltage=Real, period=Real)

# ---------------------------------------------------------------------------- Battery
REG.contract(
    M + "Battery.__init__",
    params=dict(self=Ref("Battery"), capacity=Real, init_charge=Real, max_power=Real),
    requires=[C("args", lambda s: [s.capacity > 0, s.init_charge >= 0, s.max_power > 0])],
    raises=[RaiseSpec("ValueError", lambda s: s.init_charge > s.capacity, iff=True, unchanged=True)],
    modifies=["Battery._capacity", "Battery._current_charge", "Battery._init_charge", "Battery._max_power",
              "Battery._current_charging_power"],
    ensures=[C("C03.init_establishes_inv", lambda old, new, ret: [
        battery_inv(new.self), Eq(new.self._current_charge, old.init_charge),
        Eq(new.self._init_charge, old.init_charge), Eq(new.self._capacity, old.capacity),
        Eq(new.self._max_power, old.max_power), Eq(new.self._current_charging_power, 0)])],
)

REG.contract(
    M + "Battery.charge",
    params=dict(self=Ref("Battery"), **PARAMS), ret=Real,
    requires=[C("inv", lambda s: battery_inv(s.self)), C("pilot_nonneg", lambda s: s.pilot >= 0)],
    raises=RAISES, modifies=MODIFIES,
    ensures=IFACE + [
        C("C14.ideal_law", lambda old, new, ret: Eq(
            ret * old.voltage / 1000,
            Min(old.pilot * old.voltage / 1000, old.self._max_power,
                (old.self._capacity - old.self._current_charge) / (old.period / 60)))),
    ],
    iface=IFACE,
)

REG.contract(
    M + "Battery.reset",
    params=dict(self=Ref("Battery"), init_charge=Opt(Real)),
    requires=[C("inv", lambda s: battery_inv(s.self)),
              C("init_ok", lambda s: And(s.self._init_charge >= 0, s.self._init_charge <= s.self._capacity,
                                         Implies(Not(s.init_charge.isnone), s.init_charge.val >= 0)))],
    raises=[RaiseSpec("ValueError", lambda s: And(Not(s.init_charge.isnone), s.init_charge.val > s.self._capacity),
                      iff=True, unchanged=True)],
    modifies=MODIFIES,
    ensures=[C("C14.reset", lambda old, new, ret: [
        Eq(new.self._current_charge, If(old.init_charge.isnone, old.self._init_charge, old.init_charge.val)),
        Eq(new.self._current_charging_power, 0), battery_inv(new.self)])],
)


# ---------------------------------------------------------------------------- Linear2StageBattery
def law_clauses(old, new, ret):
    """C14: with noise off the new SoC is F(old SoC, period) -- case by case."""
    b = old.self
    out = []
    for name, cond, val in two_stage_F(b._capacity, b._current_charge, b._max_power, b._transition_soc,
                                       old.pilot, old.voltage, old.period):
        out.append((f"C14.law.{name}", Implies(And(b._noise_level == 0, old.pilot > 0, cond),
                                               Eq(new.self._current_charge, b._capacity * val))))
    out.append(("C14.zero_pilot", Implies(old.pilot == 0, And(ret == 0, Eq(new.self._current_charge, b._current_charge)))))
    return out


L2_REQ = [C("inv", lambda s: l2_inv(s.self)), C("pilot_nonneg", lambda s: s.pilot >= 0)]
L2_INV = C("inv2", lambda old, new, ret: [("L2.inv_preserved", l2_inv(new.self))], props=("C03",))

REG.contract(
    M + "Linear2StageBattery.__init__",
    params=dict(self=Ref("Linear2StageBattery"), capacity=Real, init_charge=Real, max_power=Real,
                noise_level=Real, transition_soc=Real, charge_calculation=Id),
    requires=[C("args", lambda s: [s.capacity > 0, s.init_charge >= 0, s.max_power > 0, s.noise_level >= 0])],
    raises=[RaiseSpec("ValueError", lambda s: Or(s.init_charge > s.capacity, s.transition_soc < 0, s.transition_soc >= 1,
                                                  Not(Or(Eq(s.charge_calculation, "continuous"), Eq(s.charge_calculation, "stepwise")))),
                      iff=True, unchanged=False)],
    modifies=["Battery._capacity", "Battery._current_charge", "Battery._init_charge", "Battery._max_power",
              "Battery._current_charging_power", "Linear2StageBattery._noise_level",
              "Linear2StageBattery._transition_soc", "Linear2StageBattery.charge_calculation"],
    ensures=[C("C03.init_establishes_inv", lambda old, new, ret: [
        l2_inv(new.self), Eq(new.self._current_charge, old.init_charge), Eq(new.self._init_charge, old.init_charge),
        Eq(new.self._transition_soc, old.transition_soc), Eq(new.self.charge_calculation, old.charge_calculation),
        Eq(new.self._capacity, old.capacity), Eq(new.self._max_power, old.max_power), Eq(new.self._noise_level, old.noise_level),
        Eq(new.self._current_charging_power, 0)])],
)

REG.contract(
    M + "Linear2StageBattery._charge",
    params=dict(self=Ref("Linear2StageBattery"), **PARAMS), ret=Real,
    requires=L2_REQ, raises=RAISES, modifies=MODIFIES,
    ensures=IFACE + [L2_INV, C("C14.law", law_clauses)],
)

REG.contract(
    M + "Linear2StageBattery._charge_stepwise",
    params=dict(self=Ref("Linear2StageBattery"), **PARAMS), ret=Real,
    requires=L2_REQ, raises=RAISES, modifies=MODIFIES,
    ensures=IFACE + [L2_INV],
)

REG.contract(
    M + "Linear2StageBattery.charge",
    params=dict(self=Ref("Linear2StageBattery"), **PARAMS), ret=Real,
    requires=L2_REQ, raises=RAISES, modifies=MODIFIES,
    ensures=IFACE + [L2_INV, C("C14.law", lambda old, new, ret: [
        (t, Implies(Eq(old.self.charge_calculation, "continuous"), g)) for t, g in law_clauses(old, new, ret)])],
)


# ---------------------------------------------------------------------------- C14 lemmas over the spec function F only
def _F_lemmas():
    """Pure facts about F_core (the documented law).  Since `_charge` is proved equal to F on every path
    (C14.law.*), these transfer to the real code: T = T/2 twice (stated for any split h1+h2), monotone in the
    duration, monotone in the pilot, F(s,0)=s.  exp(a+b)=exp(a)exp(b) is supplied as ground axiom instances."""
    import z3
    from pyvc.dsl import EXP
    s, r, R, tr, h1, h2, r2 = z3.Reals("Fs Fr FR Ftr Fh1 Fh2 Fr2")
    dom = [s >= 0, s <= 1, r > 0, r <= R, tr >= 0, tr < 1, h1 >= 0, h2 >= 0]
    out = []
    kappa = R / (1 - tr)
    s_star = 1 - (r / R) * (1 - tr)
    tj = (s_star - s) / r
    # ---- semigroup: F(F(s,h1),h2) = F(s,h1+h2), by (case of step 1, case of step 2, case of the whole)
    for n1, c1, v1 in F_core(s, r, R, tr, h1):
        for n2, c2, v2 in F_core(v1, r, R, tr, h2):
            for n3, c3, v3 in F_core(s, r, R, tr, h1 + h2):
                a, b = -kappa * (h1 - tj), -kappa * h2
                facts = [EXP(a + b) == EXP(a) * EXP(b), EXP(-kappa * h1 + b) == EXP(-kappa * h1) * EXP(b)]
                out.append((f"semigroup/{n1}.{n2}={n3}", dom + [c1, c2, c3] + facts, v2 == v3))
    # ---- the three cases are exhaustive and exclusive (so the case split above loses nothing)
    cs = [c for _, c, _ in F_core(s, r, R, tr, h1)]
    out.append(("cases_exhaustive", dom, z3.Or(*cs)))
    out.append(("cases_exclusive", dom, z3.And(z3.Not(z3.And(cs[0], cs[1])), z3.Not(z3.And(cs[0], cs[2])), z3.Not(z3.And(cs[1], cs[2])))))
    # ---- F(s,0) = s ; F stays in [s,1]
    for n1, c1, v1 in F_core(s, r, R, tr, h1):
        out.append((f"zero_duration/{n1}", dom + [c1, h1 == 0], v1 == s))
        out.append((f"range/{n1}", dom + [c1], z3.And(v1 >= s, v1 <= 1)))
    # ---- monotone in the duration
    for n1, c1, v1 in F_core(s, r, R, tr, h1):
        for n2, c2, v2 in F_core(s, r, R, tr, h2):
            out.append((f"mono_T/{n1}<={n2}", dom + [c1, c2, h1 <= h2], v1 <= v2))
    return out


REG.lemma("C14.F_semigroup_monotone", _F_lemmas, props=("C14",))


def _F_mono_pilot():
    """delivered energy is non-decreasing in the pilot: r <= r2 => F_r(s,h) <= F_r2(s,h)."""
    import z3
    from pyvc.dsl import EXP
    s, r, R, tr, h, r2 = z3.Reals("Gs Gr GR Gtr Gh Gr2")
    dom = [s >= 0, s <= 1, r > 0, r <= r2, r2 <= R, tr >= 0, tr < 1, h >= 0]
    kappa = R / (1 - tr)
    out = []
    for n1, c1, v1 in F_core(s, r, R, tr, h):
        for n2, c2, v2 in F_core(s, r2, R, tr, h):
            s2 = 1 - (r2 / R) * (1 - tr)
            u = h - (s2 - s) / r2
            s1 = 1 - (r / R) * (1 - tr)
            u1 = h - (s1 - s) / r
            facts = [EXP(-kappa * u) * EXP(kappa * u) == 1, EXP(-kappa * u1) * EXP(kappa * u1) == 1,
                     EXP(-kappa * u) == EXP(-kappa * u1) * EXP(-kappa * (u - u1)),
                     EXP(-kappa * (u - u1)) * EXP(kappa * (u - u1)) == 1,
                     EXP(-kappa * h) * EXP(kappa * h) == 1,
                     EXP(-kappa * u1) == EXP(-kappa * h) * EXP(kappa * (h - u1)),
                     EXP(-kappa * u) == EXP(-kappa * h) * EXP(kappa * (h - u))]
            out.append((f"mono_pilot/{n1}<={n2}", dom + [c1, c2] + facts, v1 <= v2))
    return out


REG.lemma("C14.F_monotone_in_pilot", _F_mono_pilot, props=("C14",))


# ---------------------------------------------------------------------------- C15: two-stage capacity fit
BC = M + "batt_cap_fn"
REG.contract(
    BC + ".<locals>._get_init_cap.<locals>.binsearch", params=dict(lb=Real, ub=Real, target=Real, tol=Real), ret=Real, modifies=[],
    assumed="bisection on a decreasing function (higher-order argument, recursion): only its frame is used; the search branch of the fit is "
            "covered by the bounded monitor, not proved",
    ensures=[])


def _closed(E, n, V, p, cap):
    tr = z3.RealVal("4/5")
    md = 32 * V / 1000 / cap / (60 / p)                   # SoC per period at 32 A
    X = Exp(md * n / (tr - 1))
    return tr, X, (1 + (E / cap) / (X - 1)) >= tr


def _init_cap_post(old, new, ret):
    """_get_init_cap(battery_cap): on the closed-form branch (start at or beyond the transition SoC) the whole stay is in the taper
    region, F(s0, n periods) - s0 = E / cap, and the result is the initial charge in kWh"""
    E, n, V, p, cap = old.requested_energy, old.stay_dur, old.voltage, old.period, old.battery_cap
    tr, X, closed = _closed(E, n, V, p, cap)
    s0 = ret / cap
    return [
        ("closed_form.full_rate_for_the_stay_delivers_exactly_the_request", Implies(closed, Eq((1 - (1 - s0) * X) - s0, E / cap))),
        ("closed_form.initial_charge_in_kWh_within_free_capacity", Implies(closed, And(ret >= tr * cap, ret <= cap - E))),
    ]


REG.contract(
    BC + ".<locals>._get_init_cap", params=dict(battery_cap=Real), ret=Real, modifies=[],
    requires=[C("args", lambda s: And(s.requested_energy > 0, s.stay_dur > 0, s.voltage > 0, s.period > 0, s.battery_cap >= s.requested_energy))],
    ensures=[C("C15.fit", _init_cap_post)],
    extra=dict(closure=dict(requested_energy=Real, stay_dur=Real, voltage=Real, period=Real)),
)


def _fit_post(old, new, ret):
    cap, init = ret
    E, n, V, p = old.requested_energy, old.stay_dur, old.voltage, old.period
    tr, X, closed = _closed(E, n, V, p, cap)
    s0 = init / cap
    return [
        ("capacity_covers_request", cap >= E),
        ("capacity_is_a_listed_size", Or(*[cap == c for c in (8, 24, 40, 60, 85, 100)])),
        ("closed_form.full_rate_for_the_stay_delivers_exactly_the_request", Implies(closed, Eq((1 - (1 - s0) * X) - s0, E / cap))),
        ("closed_form.initial_charge_in_kWh_within_free_capacity", Implies(closed, And(init >= tr * cap, init <= cap - E))),
        ("initial_charge_nonnegative", init >= 0),
    ]


REG.contract(
    BC, params=dict(requested_energy=Real, stay_dur=Real, voltage=Real, period=Real), ret=Tup(Real, Real), modifies=[],
    requires=[C("args", lambda s: And(s.requested_energy > 0, s.stay_dur > 0, s.voltage > 0, s.period > 0))],
    raises=[RaiseSpec("ValueError", lambda s: True, iff=False, unchanged=True)],
    ensures=[C("C15.fit", _fit_post)],
)
