"""Contracts for acnportal/acnsim/models/battery.py  (C02 ledger, C03 bounds, C14 laws)."""
from pyvc.contracts_api import REG, C, RaiseSpec
from pyvc.dsl import And, Or, Not, Implies, If, Min, Max, Exp, Eq, With
from pyvc.vtypes import Real, Int, Bool, Id, Ref, Opt

M = "acnportal.acnsim.models.battery."


# ---------------------------------------------------------------------------- invariants
def battery_inv(b):
    """Representation invariant of every Battery (established by __init__/reset for valid
    arguments, preserved by every charge variant -- that induction is what carries the
    bounds of C03 along *sequences* of pilots)."""
    return And(b._capacity > 0, b._current_charge >= 0, b._current_charge <= b._capacity,
               b._max_power > 0)


def l2_inv(b):
    return And(battery_inv(b), b._transition_soc >= 0, b._transition_soc < 1, b._noise_level >= 0,
               Or(Eq(b.charge_calculation, "continuous"), Eq(b.charge_calculation, "stepwise")))


def _energy(ret, voltage, period):
    return ret * voltage / 1000 * (period / 60)


# ---------------------------------------------------------------------------- the spec function of C14
def two_stage_F(cap, charge, pmax, tr, pilot, voltage, period):
    """Closed-form solution of the documented two-stage law, written from the docstring /
    property text (not from the code):  ds/dt = min(r, R (1-s)/(1-tr)).
    Returns a list of (case-name, case-condition, value-of-new-SoC)."""
    s = charge / cap
    h = period / 60
    r = Min(pilot * voltage / 1000, pmax) / cap          # SoC per hour requested
    R = pmax / cap                                       # SoC per hour at full power
    s_star = 1 - (r / R) * (1 - tr)                      # SoC where the taper reaches r
    kappa = R / (1 - tr)
    t_joint = (s_star - s) / r                           # hours until the joint (r > 0)
    return [
        ("linear", And(s < s_star, h <= t_joint), s + r * h),
        ("crossing", And(s < s_star, h > t_joint), 1 - (1 - s_star) * Exp(-kappa * (h - t_joint))),
        ("taper", s >= s_star, 1 - (1 - s) * Exp(-kappa * h)),
    ]


# ---------------------------------------------------------------------------- common clauses
def bounds_and_ledger(old, new, ret, b_old, b_new):
    return [
        ("C03.rate_nonneg", ret >= 0),
        ("C03.rate_le_pilot", ret <= old.pilot),
        ("C03.power_le_max", b_new._current_charging_power <= b_old._max_power),
        ("C03.charge_mono", b_new._current_charge >= b_old._current_charge),
        ("C03.charge_le_cap", b_new._current_charge <= b_old._capacity),
        ("C02.ledger", Eq(b_new._current_charge,
                          b_old._current_charge + _energy(ret, old.voltage, old.period))),
        ("C02.power_is_rate", Eq(b_new._current_charging_power, ret * old.voltage / 1000)),
    ]


IFACE = [
    C("iface", lambda old, new, ret: bounds_and_ledger(old, new, ret, old.self, new.self), props=("C02", "C03")),
    C("inv", lambda old, new, ret: [("Battery.inv_preserved", battery_inv(new.self))], props=("C03",)),
]
RAISES = [RaiseSpec("ValueError", lambda s: Or(s.voltage <= 0, s.period <= 0), iff=True, unchanged=True)]
MODIFIES = ["Battery._current_charge", "Battery._current_charging_power"]
PARAMS = dict(pilot=Real, voltage=Real, period=Real)

# ---------------------------------------------------------------------------- Battery
REG.contract(
    M + "Battery.__init__",
    params=dict(self=Ref("Battery"), capacity=Real, init_charge=Real, max_power=Real),
    requires=[C("args", lambda s: [s.capacity > 0, s.init_charge >= 0, s.max_power > 0])],
    raises=[RaiseSpec("ValueError", lambda s: s.init_charge > s.capacity, iff=True, unchanged=True)],
    modifies=["Battery._capacity", "Battery._current_charge", "Battery._init_charge", "Battery._max_power",
              "Battery._current_charging_power"],
    ensures=[C("C03.init_establishes_inv", lambda old, new, ret: [
        battery_inv(new.self), Eq(new.self._current_charge, old.init_charge),
        Eq(new.self._init_charge, old.init_charge), Eq(new.self._capacity, old.capacity),
        Eq(new.self._max_power, old.max_power), Eq(new.self._current_charging_power, 0)])],
)

REG.contract(
    M + "Battery.charge",
    params=dict(self=Ref("Battery"), **PARAMS), ret=Real,
    requires=[C("inv", lambda s: battery_inv(s.self)), C("pilot_nonneg", lambda s: s.pilot >= 0)],
    raises=RAISES, modifies=MODIFIES,
    ensures=IFACE + [
        C("C14.ideal_law", lambda old, new, ret: Eq(
            ret * old.voltage / 1000,
            Min(old.pilot * old.voltage / 1000, old.self._max_power,
                (old.self._capacity - old.self._current_charge) / (old.period / 60)))),
    ],
    iface=IFACE,
)

REG.contract(
    M + "Battery.reset",
    params=dict(self=Ref("Battery"), init_charge=Opt(Real)),
    requires=[C("inv", lambda s: battery_inv(s.self)),
              C("init_ok", lambda s: And(s.self._init_charge >= 0, s.self._init_charge <= s.self._capacity,
                                         Implies(Not(s.init_charge.isnone), s.init_charge.val >= 0)))],
    raises=[RaiseSpec("ValueError", lambda s: And(Not(s.init_charge.isnone), s.init_charge.val > s.self._capacity),
                      iff=True, unchanged=True)],
    modifies=MODIFIES,
    ensures=[C("C14.reset", lambda old, new, ret: [
        Eq(new.self._current_charge, If(old.init_charge.isnone, old.self._init_charge, old.init_charge.val)),
        Eq(new.self._current_charging_power, 0), battery_inv(new.self)])],
)


# ---------------------------------------------------------------------------- Linear2StageBattery
def law_clauses(old, new, ret):
    """C14: with noise off the new SoC is F(old SoC, period) -- case by case."""
    b = old.self
    out = []
    for name, cond, val in two_stage_F(b._capacity, b._current_charge, b._max_power, b._transition_soc,
                                       old.pilot, old.voltage, old.period):
        out.append((f"C14.law.{name}", Implies(And(b._noise_level == 0, old.pilot > 0, cond),
                                               Eq(new.self._current_charge, b._capacity * val))))
    out.append(("C14.zero_pilot", Implies(old.pilot == 0, And(ret == 0, Eq(new.self._current_charge, b._current_charge)))))
    return out


L2_REQ = [C("inv", lambda s: l2_inv(s.self)), C("pilot_nonneg", lambda s: s.pilot >= 0)]
L2_INV = C("inv2", lambda old, new, ret: [("L2.inv_preserved", l2_inv(new.self))], props=("C03",))

REG.contract(
    M + "Linear2StageBattery.__init__",
    params=dict(self=Ref("Linear2StageBattery"), capacity=Real, init_charge=Real, max_power=Real,
                noise_level=Real, transition_soc=Real, charge_calculation=Id),
    requires=[C("args", lambda s: [s.capacity > 0, s.init_charge >= 0, s.max_power > 0, s.noise_level >= 0])],
    raises=[RaiseSpec("ValueError", lambda s: Or(s.init_charge > s.capacity, s.transition_soc < 0, s.transition_soc >= 1,
                                                  Not(Or(Eq(s.charge_calculation, "continuous"), Eq(s.charge_calculation, "stepwise")))),
                      iff=True, unchanged=False)],
    modifies=["Battery._capacity", "Battery._current_charge", "Battery._init_charge", "Battery._max_power",
              "Battery._current_charging_power", "Linear2StageBattery._noise_level",
              "Linear2StageBattery._transition_soc", "Linear2StageBattery.charge_calculation"],
    ensures=[C("C03.init_establishes_inv", lambda old, new, ret: [
        l2_inv(new.self), Eq(new.self._current_charge, old.init_charge), Eq(new.self._init_charge, old.init_charge),
        Eq(new.self._transition_soc, old.transition_soc), Eq(new.self.charge_calculation, old.charge_calculation)])],
)

REG.contract(
    M + "Linear2StageBattery._charge",
    params=dict(self=Ref("Linear2StageBattery"), **PARAMS), ret=Real,
    requires=L2_REQ, raises=RAISES, modifies=MODIFIES,
    ensures=IFACE + [L2_INV, C("C14.law", law_clauses)],
)

REG.contract(
    M + "Linear2StageBattery._charge_stepwise",
    params=dict(self=Ref("Linear2StageBattery"), **PARAMS), ret=Real,
    requires=L2_REQ, raises=RAISES, modifies=MODIFIES,
    ensures=IFACE + [L2_INV],
)

REG.contract(
    M + "Linear2StageBattery.charge",
    params=dict(self=Ref("Linear2StageBattery"), **PARAMS), ret=Real,
    requires=L2_REQ, raises=RAISES, modifies=MODIFIES,
    ensures=IFACE + [L2_INV, C("C14.law", lambda old, new, ret: [
        (t, Implies(Eq(old.self.charge_calculation, "continuous"), g)) for t, g in law_clauses(old, new, ret)])],
)
