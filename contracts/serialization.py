"""C09 (JSON half), per class: _to_dict writes every state field of the object under its own name, _from_dict rebuilds an object whose state fields are
the dictionary's entries - so loading what was dumped restores the state field by field.  The registry plumbing (base.py: _to_registry / _from_registry,
pydoc.locate, version checks, shared-object table) is reflective code outside the verifier's reach and stays with the bounded monitor."""
import z3
from pyvc.contracts_api import REG, C, RaiseSpec
from pyvc.dsl import And, Or, Not, Implies, If, Eq
from pyvc.vtypes import Real, Int, Bool, Id, Ref, Opt, Map
from pyvc import vtypes as ty

B = "acnportal.acnsim.models.battery."
BATT_STATE = ["_max_power", "_current_charging_power", "_current_charge", "_capacity", "_init_charge"]


def _dict_holds(d, obj, names):
    return [(f"{n}_is_written_under_its_own_name", Eq(d[n], getattr(obj, n))) for n in names]


REG.contract(
    B + "Battery._to_dict", params=dict(self=Ref("Battery", exact=True)), modifies=[],
    ensures=[C("C09.battery_state_is_written_field_by_field", lambda old, new, ret: _dict_holds(ret[0], old.self, BATT_STATE)
               + [("exactly_these_keys", len(ret[0]) == len(BATT_STATE))], props=("C09",))],
    inline=True,          # a subclass calling super()._to_dict executes this body (the result is a python dictionary, not a sorted value)
)


def _dict_builder(fields):
    """a dictionary with exactly the given keys and arbitrary values of the given sorts (what json.loads returns for a dumped object)"""
    def build(ex, st):
        from pyvc.state import PyDict
        from pyvc import vtypes as ty
        return PyDict({k: ty.named(t, "d_" + k.strip("_")) for k, t in fields.items()})
    return build


def _obj_holds(obj, d, names):
    return [(f"{n}_is_read_back_from_its_own_name", Eq(getattr(obj, n), d[n])) for n in names]


BATT_DICT = {n: Real for n in BATT_STATE}
REG.contract(
    B + "Battery._from_dict", params=dict(attribute_dict=_dict_builder(BATT_DICT), context_dict=lambda ex, st: ty.OpaqueV("context table"), loaded_dict=lambda ex, st: ty.OpaqueV("loaded table")),
    modifies=["Battery._capacity", "Battery._current_charge", "Battery._init_charge", "Battery._max_power", "Battery._current_charging_power", "alloc"],
    requires=[C("the_dictionary_of_a_valid_battery", lambda s: And(s.attribute_dict["_capacity"] > 0, s.attribute_dict["_init_charge"] >= 0,
                                                                    s.attribute_dict["_init_charge"] <= s.attribute_dict["_capacity"], s.attribute_dict["_max_power"] > 0))],
    ensures=[C("C09.battery_state_is_restored_field_by_field", lambda old, new, ret: _obj_holds(ret[0], old.attribute_dict, BATT_STATE)
               + [("fresh_object", Not(old.alloc(ret[0])))], props=("C09",))],
    extra=dict(cls="Battery"),
)


# ---------------------------------------------------------------------------- Linear2StageBattery
L2_STATE = BATT_STATE + ["_noise_level", "_transition_soc", "charge_calculation"]
L2_DICT = dict(BATT_DICT, _noise_level=Real, _transition_soc=Real, charge_calculation=Id)
REG.contract(
    B + "Linear2StageBattery._to_dict", params=dict(self=Ref("Linear2StageBattery", exact=True)), modifies=[],
    ensures=[C("C09.two_stage_battery_state_is_written_field_by_field", lambda old, new, ret: _dict_holds(ret[0], old.self, L2_STATE)
               + [("exactly_these_keys", len(ret[0]) == len(L2_STATE))], props=("C09",))],
)
REG.contract(
    B + "Linear2StageBattery._from_dict", params=dict(attribute_dict=_dict_builder(L2_DICT), context_dict=lambda ex, st: ty.OpaqueV("context table"), loaded_dict=lambda ex, st: ty.OpaqueV("loaded table")),
    modifies=["Battery._capacity", "Battery._current_charge", "Battery._init_charge", "Battery._max_power", "Battery._current_charging_power",
              "Linear2StageBattery._noise_level", "Linear2StageBattery._transition_soc", "Linear2StageBattery.charge_calculation", "alloc"],
    requires=[C("the_dictionary_of_a_valid_battery", lambda s: And(
        s.attribute_dict["_capacity"] > 0, s.attribute_dict["_init_charge"] >= 0, s.attribute_dict["_init_charge"] <= s.attribute_dict["_capacity"],
        s.attribute_dict["_max_power"] > 0, s.attribute_dict["_noise_level"] >= 0, s.attribute_dict["_transition_soc"] >= 0, s.attribute_dict["_transition_soc"] < 1,
        Or(Eq(s.attribute_dict["charge_calculation"], "continuous"), Eq(s.attribute_dict["charge_calculation"], "stepwise"))))],
    ensures=[C("C09.two_stage_battery_state_is_restored_field_by_field", lambda old, new, ret: _obj_holds(ret[0], old.attribute_dict, L2_STATE)
               + [("fresh_object", Not(old.alloc(ret[0])))], props=("C09",))],
    extra=dict(cls="Linear2StageBattery"),
)

# ---------------------------------------------------------------------------- the object registry (assumed: reflective code in base.py)
BASE = "acnportal.acnsim.base.BaseSimObj."
REGID = z3.Function("registry_id", z3.IntSort(), z3.IntSort())        # the id under which an object (reference) is registered in the context dictionary


class _RegistryStub:
    pass


def _fresh_id(ex, st):
    from pyvc.state import PyDict
    from pyvc import vtypes as ty
    return (PyDict({"id": z3.Int(ty.fresh_name("regid"))}), ty.OpaqueV("context table"))


REG.contract(
    BASE + "_to_registry", params=dict(self=Ref("BaseSimObj")),
    assumed="registry plumbing (base.py, reflective): registers the object - and, through its _to_dict, everything it refers to - in the context dictionary "
            "under an id that identifies the OBJECT (the same object always gets the same id, so shared objects stay shared) and returns ({'id': that id}, context)",
    modifies=[], ret=_fresh_id,
    ensures=[C("id_of_the_object", lambda old, new, ret: ret[0]["id"] == REGID(old.self.ref))],
)


def _rebuilt(ex, st):
    """(object, loaded table): the object the registry holds under the id; its class is the one recorded at dump time (fixed here by the caller's use)"""
    from pyvc import vtypes as ty
    cls = "Battery" if "EV._from_dict" in ex.cur_fn else "Event" if "EventQueue" in ex.cur_fn else "EV"
    v = ty.named(ty.Ref(cls), ty.fresh_name("rebuilt"))
    st.assume(z3.And(v.ref != 0, z3.Select(st.alloc, v.ref)))
    return (v, ty.OpaqueV("loaded table"))


REG.contract(
    BASE + "_build_from_id", params=dict(obj_id=Int),
    assumed="registry plumbing (base.py, reflective): returns the object rebuilt from (or already loaded for) the registry entry with this id - one object per id, "
            "so references that were shared before the dump are shared after the load",
    modifies=["alloc"], ret=_rebuilt,
    ensures=[C("the_object_registered_under_that_id", lambda old, new, ret: REGID(ret[0].ref) == old.obj_id)],
)

# ---------------------------------------------------------------------------- EV
E_ = "acnportal.acnsim.models.ev."
EV_STATE = ["_arrival", "_departure", "_session_id", "_station_id", "_requested_energy", "_estimated_departure", "_energy_delivered", "_current_charging_rate"]
REG.contract(
    E_ + "EV._to_dict", params=dict(self=Ref("EV")), modifies=[],
    ensures=[C("C09.ev_state_is_written_field_by_field_and_the_battery_by_its_registry_id", lambda old, new, ret: _dict_holds(ret[0], old.self, [n for n in EV_STATE if n != "_station_id"])
               + [("battery_is_referenced_by_the_id_of_the_battery_object", ret[0]["_battery"] == REGID(old.self._battery.ref)),
                  ("_station_id_is_written_under_its_own_name", And(Eq(ret[0]["_station_id"].isnone, old.self._station_id.isnone),
                                                                    ret[0]["_station_id"].val == old.self._station_id.val)),
                  ("exactly_these_keys", len(ret[0]) == len(EV_STATE) + 1)], props=("C09",))],
)
EV_DICT = dict(_arrival=Int, _departure=Int, _session_id=Id, _station_id=Id, _requested_energy=Real, _estimated_departure=Int, _energy_delivered=Real,
               _current_charging_rate=Real, _battery=Int)
REG.contract(
    E_ + "EV._from_dict", params=dict(attribute_dict=_dict_builder(EV_DICT), context_dict=lambda ex, st: ty.OpaqueV("context table"), loaded_dict=lambda ex, st: ty.OpaqueV("loaded table")),
    modifies=["EV." + n for n in EV_STATE] + ["EV._battery", "alloc"],
    ensures=[C("C09.ev_state_is_restored_field_by_field_and_the_battery_is_the_registered_object", lambda old, new, ret:
               _obj_holds(ret[0], old.attribute_dict, [n for n in EV_STATE if n != "_station_id"])
               + [("station_id", And(Not(ret[0]._station_id.isnone), ret[0]._station_id.val == old.attribute_dict["_station_id"])),
                  ("battery_is_the_object_registered_under_the_dumped_id", REGID(ret[0]._battery.ref) == old.attribute_dict["_battery"])], props=("C09",))],
    extra=dict(cls="EV"),
)

# ---------------------------------------------------------------------------- events
EV_ = "acnportal.acnsim.events.event."
EVENT_STATE = ["timestamp", "event_type", "precedence"]
EVENT_DICT = dict(timestamp=Int, event_type=Id, precedence=Real)
REG.contract(
    EV_ + "Event._to_dict", params=dict(self=Ref("Event")), modifies=[], inline=True,
    ensures=[C("C09.event_state_is_written_field_by_field", lambda old, new, ret: _dict_holds(ret[0], old.self, EVENT_STATE)
               + [("exactly_these_keys", len(ret[0]) == 3)], props=("C09", "C11"))],
)
REG.contract(
    EV_ + "Event._from_dict", params=dict(attribute_dict=_dict_builder(EVENT_DICT), context_dict=lambda ex, st: ty.OpaqueV("context table"), loaded_dict=lambda ex, st: ty.OpaqueV("loaded table")),
    modifies=["Event.timestamp", "Event.event_type", "Event.precedence", "alloc"],
    ensures=[C("C09.event_state_is_restored_field_by_field", lambda old, new, ret: _obj_holds(ret[0], old.attribute_dict, EVENT_STATE)
               + [("fresh_object", Not(old.alloc(ret[0])))], props=("C09", "C11"))],
    extra=dict(cls="Event"),
)
REG.contract(
    EV_ + "EVEvent._to_dict", params=dict(self=Ref("EVEvent")), modifies=[],
    ensures=[C("C09.ev_event_state_is_written_and_its_ev_referenced_by_the_id_of_the_ev_object", lambda old, new, ret: _dict_holds(ret[0], old.self, EVENT_STATE)
               + [("ev_is_referenced_by_the_id_of_the_ev_object", ret[0]["ev"] == REGID(old.self.ev.ref)), ("exactly_these_keys", len(ret[0]) == 4)], props=("C09", "C11"))],
)
for _c in ("EVEvent",):
    REG.contract(
        EV_ + _c + "._from_dict", params=dict(attribute_dict=_dict_builder(dict(EVENT_DICT, ev=Int)), context_dict=lambda ex, st: ty.OpaqueV("context table"), loaded_dict=lambda ex, st: ty.OpaqueV("loaded table")),
        modifies=["Event.timestamp", "Event.event_type", "Event.precedence", "EVEvent.ev", "alloc"],
        ensures=[C("C09.ev_event_state_is_restored_and_its_ev_is_the_registered_object", lambda old, new, ret: _obj_holds(ret[0], old.attribute_dict, EVENT_STATE)
                   + [("the_ev_is_the_object_registered_under_the_dumped_id", REGID(ret[0].as_("EVEvent").ev.ref) == old.attribute_dict["ev"])], props=("C09", "C11"))],
        extra=dict(cls=_c),
    )


# ---------------------------------------------------------------------------- composition: dump then load restores every state field
def _round_trip():
    """for every class above: the _to_dict clause  d[n] = o.n  and the _from_dict clause  o'.n = d[n]  give  o'.n = o.n ; for a referenced object the
    registry id written equals the id of the object, and the loaded reference is the object registered under that id"""
    out = []
    for cls, fields in (("Battery", BATT_DICT), ("Linear2StageBattery", L2_DICT), ("EV", {k: v for k, v in EV_DICT.items() if k != "_battery"}), ("Event", EVENT_DICT)):
        for n, t in fields.items():
            srt = z3.IntSort() if t is Int else z3.RealSort() if t is Real else __import__("pyvc.vtypes", fromlist=["IdSort"]).IdSort
            o, d, o2 = z3.Const(f"rt_{cls}_{n}_obj", srt), z3.Const(f"rt_{cls}_{n}_dict", srt), z3.Const(f"rt_{cls}_{n}_loaded", srt)
            out.append((f"{cls}.{n}", [d == o, o2 == d], o2 == o))
    for cls, ref in (("EV", "_battery"), ("EVEvent", "ev")):
        a, b, idv = z3.Ints(f"rt_{cls}_orig rt_{cls}_loaded rt_{cls}_id")
        out.append((f"{cls}.{ref}_is_the_same_registered_object", [idv == REGID(a), REGID(b) == idv], REGID(b) == REGID(a)))
    return out


REG.lemma("C09.dump_then_load_restores_every_state_field", _round_trip, props=("C09",))
REG.assume("A-REGISTRY", "C09: base.py's registry (_to_registry / _build_from_id / to_json / from_json: reflective, pydoc.locate, version checks) is an assumed contract - one id per "
                         "object, the object rebuilt from an id is the one registered under it; json.dumps / loads of JSON-native values is the identity")

# ---------------------------------------------------------------------------- EventQueue: the heap array is written / rebuilt position by position (C11: "a queue restored from JSON behaves identically")
from pyvc.contracts_api import LoopSpec
from pyvc.vtypes import Seq, Tup, FA
from pyvc import vtypes as ty
EQ_ = "acnportal.acnsim.events.event_queue.EventQueue."


def _q_dump_rel(qarr_ts, qarr_ev, out, upto):
    """out[i] = (stored timestamp i, registry id of event i) for i < upto"""
    i = z3.Int("qd!i")
    return And(out.len == upto, FA([i], z3.Implies(z3.And(i >= 0, i < upto), z3.And(ty.sel(out.v.arrs[0], i) == ty.sel(qarr_ts, i),
                                                                                     ty.sel(out.v.arrs[1], i) == REGID(ty.sel(qarr_ev, i))))))


REG.contract(
    EQ_ + "_to_dict", params=dict(self=Ref("EventQueue"), context_dict=lambda ex, st: ty.OpaqueV("context table")), modifies=[],
    ensures=[C("C11.queue_is_written_position_by_position", lambda old, new, ret: [
        ("timestep", ret[0]["_timestep"] == old.self._timestep),
        ("heap_array", _q_dump_rel(old.self._queue.v.arrs[0], old.self._queue.v.arrs[1], ret[0]["_queue"], old.self._queue.len))], props=("C11", "C09"))],
    loops={0: LoopSpec(invariant=lambda s: [("prefix_written", _q_dump_rel(s.self._queue.v.arrs[0], s.self._queue.v.arrs[1], s.event_queue, s._k))],
                       locals=dict(event_queue=Seq(Tup(Int, Int))))},
)


def _q_dict(ex, st):
    from pyvc.state import PyDict
    return PyDict({"_timestep": ty.named(Int, "d_timestep"), "_queue": ty.named(Seq(Tup(Int, Int)), "d_queue")})


def _q_load_rel(s, d, q, upto):
    """q[i] = (dumped timestamp i, the object registered under dumped id i) for i < upto"""
    i = z3.Int("ql!i")
    return And(q.len == upto, FA([i], z3.Implies(z3.And(i >= 0, i < upto), z3.And(ty.sel(q.v.arrs[0], i) == ty.sel(d.v.arrs[0], i),
                                                                                   REGID(ty.sel(q.v.arrs[1], i)) == ty.sel(d.v.arrs[1], i)))))


REG.contract(
    EQ_ + "_from_dict", params=dict(attribute_dict=_q_dict, context_dict=lambda ex, st: ty.OpaqueV("context table"), loaded_dict=lambda ex, st: ty.OpaqueV("loaded table")),
    modifies=["EventQueue._queue", "EventQueue._timestep", "alloc"],
    requires=[C("dumped_list", lambda s: s.attribute_dict["_queue"].len >= 0)],
    ensures=[C("C11.queue_is_rebuilt_position_by_position", lambda old, new, ret: [
        ("timestep", ret[0]._timestep == old.attribute_dict["_timestep"]),
        ("heap_array", _q_load_rel(new, old.attribute_dict["_queue"], ret[0]._queue, old.attribute_dict["_queue"].len))], props=("C11", "C09"))],
    loops={0: LoopSpec(invariant=lambda s: [("prefix_rebuilt", _q_load_rel(s, s.attribute_dict["_queue"], s.event_queue, s._k))],
                       locals=dict(event_queue=Seq(Tup(Int, Ref("Event")))), modifies=["alloc"])},
    extra=dict(cls="EventQueue"),
)
