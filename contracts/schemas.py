"""Class schemas: the sort of every field the verified functions read or write.
(Types only; the representation invariants are in the per-module contract files.)"""
from pyvc.contracts_api import REG
from pyvc.vtypes import Real, Int, Bool, Id, Ref, Opt, Seq, Tup, Map, Mat

REG.schema("BaseSimObj")

# ---- models
REG.schema("Battery", bases=["BaseSimObj"],
           _capacity=Real, _current_charge=Real, _init_charge=Real, _max_power=Real,
           _current_charging_power=Real)
REG.schema("Linear2StageBattery", bases=["Battery"],
           _noise_level=Real, _transition_soc=Real, charge_calculation=Id)

REG.schema("EV", bases=["BaseSimObj"],
           _arrival=Int, _departure=Int, _session_id=Id, _station_id=Opt(Id),
           _requested_energy=Real, _estimated_departure=Int,
           _battery=Ref("Battery"), _energy_delivered=Real, _current_charging_rate=Real)

REG.schema("BaseEVSE", bases=["BaseSimObj"],
           _station_id=Id, _ev=Ref("EV", nullable=True), _current_pilot=Real, is_continuous=Bool)
REG.schema("EVSE", bases=["BaseEVSE"], _max_rate=Real, _min_rate=Real)
REG.schema("DeadbandEVSE", bases=["BaseEVSE"], _max_rate=Real, _deadband_end=Real)
REG.schema("FiniteRatesEVSE", bases=["BaseEVSE"], allowable_rates=Seq(Real))

# ---- events
REG.schema("Event", bases=["BaseSimObj"], timestamp=Int, event_type=Id, precedence=Real)
REG.schema("EVEvent", bases=["Event"], ev=Ref("EV"))
REG.schema("PluginEvent", bases=["EVEvent"])
REG.schema("UnplugEvent", bases=["EVEvent"])
REG.schema("RecomputeEvent", bases=["Event"])
REG.schema("EventQueue", bases=["BaseSimObj"], _queue=Seq(Tup(Int, Ref("Event"))), _timestep=Int)

# ---- network / simulator
REG.schema("ChargingNetwork", bases=["BaseSimObj"],
           _EVSEs=Map(Id, Ref("BaseEVSE"), ordered=True), constraint_matrix=Opt(Mat), magnitudes=Seq(Real),
           constraint_index=Seq(Id), _voltages=Seq(Real), _phase_angles=Seq(Real), violation_tolerance=Real,
           relative_tolerance=Real, _station_ids_dict=Map(Id, Int), max_pilot_signals=Seq(Real), min_pilot_signals=Seq(Real),
           allowable_rates=Seq(Seq(Real)), is_continuous=Seq(Bool))
REG.schema("BaseAlgorithm", _interface=Ref("Interface", nullable=True), max_recompute=Opt(Int),
           ghost_calls=Seq(Int))        # ghost: periods in which run() was invoked
REG.schema("Interface", _simulator=Ref("Simulator"))
REG.schema("Simulator", bases=["BaseSimObj"],
           network=Ref("ChargingNetwork", exact=True), scheduler=Ref("BaseAlgorithm", nullable=True), max_recompute=Opt(Int),
           event_queue=Ref("EventQueue"), period=Real, verbose=Bool, pilot_signals=Mat, charging_rates=Mat, peak=Real,
           ev_history=Map(Id, Ref("EV"), ordered=True), event_history=Seq(Ref("Event")),
           schedule_history=Opt(Map(Int, Map(Id, Seq(Real), ordered=True))), _iteration=Int, _resolve=Bool, _last_schedule_update=Opt(Int),
           signals=Map(Id, Ref("TimeOfUseTariff")), start=Ref("datetime"))

# ---- library objects modelled by ghost fields
REG.schema("datetime", theta=Real)       # theta = datetime.timestamp(): seconds since the epoch (A-LIB)

# ---- algorithms
REG.schema("InfrastructureInfo", constraint_matrix=Mat, constraint_limits=Seq(Real), phases=Seq(Real), voltages=Seq(Real),
           constraint_ids=Seq(Id), station_ids=Seq(Id), _station_ids_dict=Map(Id, Int), max_pilot=Seq(Real), min_pilot=Seq(Real),
           allowable_pilots=Seq(Seq(Real)), is_continuous=Seq(Bool))
REG.schema("SessionInfo", station_id=Id, session_id=Id, requested_energy=Real, energy_delivered=Real, arrival=Int, departure=Int,
           estimated_departure=Int, current_time=Int, min_rates=Seq(Real), max_rates=Seq(Real))
