"""Contract for preprocessing.apply_minimum_charging_rate  (C07: uninterrupted charging - every session either gets its station's minimum pilot as a
lower bound, or is switched off for this period; the vector of granted minimum pilots is accepted by the algorithm-side feasibility check)."""
import z3
from pyvc.vtypes import FA
from pyvc.contracts_api import REG, C, RaiseSpec, LoopSpec
from pyvc.dsl import And, Or, Not, Implies, If, Eq
from pyvc.vtypes import Real, Int, Bool, Id, Ref, Opt, Seq, RefSort
from pyvc import vtypes as ty
from .algorithms import PRE, infra_wf, sessions_ok, sess_at, st_index, feas, _rates, _objects_distinct, RAPF

ArrIR = z3.ArraySort(z3.IntSort(), z3.RealSort())


def _rap_u(inf, e, period):
    """remaining demand in amp-periods as utils.remaining_amp_periods computes it (infrastructure voltages)"""
    v = ty.sel(inf.voltages.v.arrs[0], st_index(inf, e.station_id))
    return (e.requested_energy - e.energy_delivered) * 1000 / v * 60 / period


def _floor_pilot(inf, e, override):
    mp = ty.sel(inf.min_pilot.v.arrs[0], st_index(inf, e.station_id))
    return z3.If(mp <= override, mp, override)


def _wf(s, q, inf):
    j = z3.Int("j!mcw")
    e = sess_at(s, q, j)
    return FA([j], z3.Implies(z3.And(j >= 0, j < q.len), z3.And(e.ref != 0, s.alloc_ref(e.ref), e.max_rates.len == e.min_rates.len, e.min_rates.len >= 1,
                                                               ty.sel(inf.voltages.v.arrs[0], st_index(inf, e.station_id)) != 0)),
              patterns=[ty.sel(q.v.arrs[0], j)])


def _outcome(s, q, inf, lo, hi, rates, mn0, mx0, override, period, name):
    """sessions lo <= j < hi: granted (first lower bound = max(floor pilot, old lower bound), first upper bound raised to it if it was smaller, the floor
    pilot does not exceed the remaining demand, rates holds the floor pilot at the station) or switched off (both first bounds 0, rates 0)"""
    j = z3.Int("j!" + name)
    e = sess_at(s, q, j)
    idx = st_index(inf, e.station_id)
    mn1, _ = _rates(s, e.ref, "min_rates")
    mx1, _ = _rates(s, e.ref, "max_rates")
    old_mn, old_mx = z3.Select(z3.Select(mn0, e.ref), 0), z3.Select(z3.Select(mx0, e.ref), 0)
    m = _floor_pilot(inf, e, override)
    new_mn = z3.If(m >= old_mn, m, old_mn)
    granted = z3.And(z3.Select(mn1, 0) == new_mn, z3.Select(mx1, 0) == z3.If(old_mx < new_mn, new_mn, old_mx), m <= _rap_u(inf, e, period),
                     ty.sel(rates.v.arrs[0], idx) == m)
    off = z3.And(z3.Select(mn1, 0) == 0, z3.Select(mx1, 0) == 0, ty.sel(rates.v.arrs[0], idx) == 0)
    return FA([j], z3.Implies(z3.And(j >= lo, j < hi), z3.Or(granted, off)), patterns=[ty.sel(q.v.arrs[0], j)])


def _inv(s):
    q, q0, inf, rates = s.session_queue, s.q_in, s.infrastructure, s.rates
    j, i = z3.Int("j!mci"), z3.Int("i!mci")
    e = sess_at(s, q, j)
    mn1, mnl = _rates(s, e.ref, "min_rates")
    mx1, mxl = _rates(s, e.ref, "max_rates")
    return [
        ("queue_is_the_sorted_list", And(q.len == q0.len, q.v.arrs[0] == q0.v.arrs[0])),
        ("sessions", sessions_ok(s, q, inf, "mcq")),
        ("objects_distinct", _objects_distinct(q)),
        ("bounds_wf", _wf(s, q, inf)),
        ("one_rate_per_station", rates.len == inf.station_ids.len),
        ("C07.processed_sessions_are_granted_their_minimum_pilot_or_switched_off", _outcome(s, q, inf, 0, s._k, rates, s.mn0, s.mx0, s.override, s.period, "mco")),
        ("pending_sessions_untouched", FA([j], z3.Implies(z3.And(j >= s._k, j < q.len), z3.And(
            mn1 == z3.Select(s.mn0, e.ref), mx1 == z3.Select(s.mx0, e.ref), ty.sel(rates.v.arrs[0], st_index(inf, e.station_id)) == 0)),
            patterns=[ty.sel(q.v.arrs[0], j)])),
        ("C07.granted_minimum_pilots_are_feasible_together", Or(feas(rates, inf), FA([i], z3.Implies(z3.And(i >= 0, i < rates.len), ty.sel(rates.v.arrs[0], i) == 0)))),
    ]


def _post(old, new, ret):
    """what a caller sees (the vector of granted pilots is a local of the function): the same sessions in some order, each either with its first lower
    bound raised to the station's (overridden) minimum pilot - not above its remaining demand - and the first upper bound at least as large, or with both
    first bounds 0"""
    inf = old.infrastructure
    H = z3.ArraySort(z3.IntSort(), z3.RealSort())
    mn0, mx0 = old.heap_array("SessionInfo.min_rates#0", H), old.heap_array("SessionInfo.max_rates#0", H)
    j = z3.Int("j!mcp")
    e = sess_at(new, ret, j)
    mn1, _ = _rates(new, e.ref, "min_rates")
    mx1, _ = _rates(new, e.ref, "max_rates")
    old_mn, old_mx = z3.Select(z3.Select(mn0, e.ref), 0), z3.Select(z3.Select(mx0, e.ref), 0)
    m = _floor_pilot(inf, e, old.override)
    new_mn = z3.If(m >= old_mn, m, old_mn)
    granted = z3.And(z3.Select(mn1, 0) == new_mn, z3.Select(mx1, 0) == z3.If(old_mx < new_mn, new_mn, old_mx), m <= _rap_u(inf, e, old.period))
    off = z3.And(z3.Select(mn1, 0) == 0, z3.Select(mx1, 0) == 0)
    return [
        ("same_number_of_sessions_each_at_a_registered_station", And(ret.len == old.active_sessions.len, sessions_ok(new, ret, inf, "mcp"))),
        ("C07.every_session_is_granted_its_minimum_pilot_or_switched_off", FA([j], z3.Implies(z3.And(j >= 0, j < ret.len), z3.Or(granted, off)), patterns=[ty.sel(ret.v.arrs[0], j)])),
    ]


REG.contract(
    PRE + "apply_minimum_charging_rate", params=dict(active_sessions=Seq(Ref("SessionInfo")), infrastructure=Ref("InfrastructureInfo"), period=Real, override=Real),
    ret=Seq(Ref("SessionInfo")),
    requires=[C("infrastructure_wf", lambda s: infra_wf(s, s.infrastructure)), C("sessions", lambda s: sessions_ok(s, s.active_sessions, s.infrastructure)),
              C("bounds_wf", lambda s: And(_wf(s, s.active_sessions, s.infrastructure), _objects_distinct(s.active_sessions))),
              C("period_nonzero", lambda s: s.period != 0)],
    modifies=[("SessionInfo.max_rates", "ALL"), ("SessionInfo.min_rates", "ALL")],
    ensures=[C("C07.apply_minimum_charging_rate", _post, props=("C07",))],      # the feasibility of the granted pilots is stated where the loop ends (at_exit): `rates` is a local
    loops={0: LoopSpec(invariant=_inv, modifies=[("SessionInfo.max_rates", "ALL"), ("SessionInfo.min_rates", "ALL")],
                       ghost=lambda s: dict(q_in=s.session_queue, mn0=s.heap_array("SessionInfo.min_rates#0", z3.ArraySort(z3.IntSort(), z3.RealSort())),
                                            mx0=s.heap_array("SessionInfo.max_rates#0", z3.ArraySort(z3.IntSort(), z3.RealSort()))),
                       at_exit=lambda s: [("C07.every_session_is_granted_its_minimum_pilot_or_switched_off",
                                           _outcome(s, s.session_queue, s.infrastructure, 0, s.session_queue.len, s.rates, s.mn0, s.mx0, s.override, s.period, "mcx")),
                                          ("C07.granted_minimum_pilots_are_feasible_together",
                                           Or(feas(s.rates, s.infrastructure), FA([z3.Int("i!mcx")], z3.Implies(z3.And(z3.Int("i!mcx") >= 0, z3.Int("i!mcx") < s.rates.len),
                                                                                                                ty.sel(s.rates.v.arrs[0], z3.Int("i!mcx")) == 0))))])},
)
