"""Contracts for acnportal/acnsim/events/event.py and event_queue.py  (C11; used by C01, C05, C09).

Abstract view of a queue q:  bag(q) = cnt(q._queue, .) : Event -> multiplicity;  representation invariant
QINV(q) = Heap(q._queue) and every stored timestamp equals the event's own timestamp.  Every method's postcondition is
over the whole bag, so any interleaving of calls is covered by induction on the call sequence."""
import z3
from pyvc.vtypes import FA
from pyvc.contracts_api import REG, C, RaiseSpec, LoopSpec
from pyvc.dsl import And, Or, Not, Implies, If, Eq, IsNone, AllIdx, AnyIdx
from pyvc.vtypes import Real, Int, Bool, Id, Ref, Opt, Seq, Tup, RefSort
from pyvc import heaplib as H

M = "acnportal.acnsim.events.event."
Q = "acnportal.acnsim.events.event_queue."

PREC = ("Event.precedence#0", z3.RealSort())
TS = ("Event.timestamp#0", z3.IntSort())


def P(s):
    return s.heap_array(*PREC)


def TSA(s):
    return s.heap_array(*TS)


def qv(q):
    return q._queue.v           # the SeqV of (ts, event ref)


def bag(q, e):
    return H.cnt(qv(q), e)


def qinv(s, q):
    """Heap + stored timestamp = event.timestamp + length >= 0."""
    v = qv(q)
    i = z3.Int("qi!inv")
    return And(H.HEAP(v.arrs[0], v.arrs[1], v.len, P(s)), v.len >= 0,
               FA([i], z3.Implies(z3.And(i >= 0, i < v.len),
                                         z3.And(z3.Select(v.arrs[0], i) == z3.Select(TSA(s), z3.Select(v.arrs[1], i)),
                                                z3.Select(v.arrs[1], i) != 0, s.alloc_ref(z3.Select(v.arrs[1], i)))),
                         patterns=[z3.Select(v.arrs[1], i)]))


def lt_ev(s, e1, e2):
    """Python's order on heap entries, with the stored timestamp = the event's own (QINV)."""
    return H.lt(P(s), z3.Select(TSA(s), e1), e1, z3.Select(TSA(s), e2), e2)


def bag_same_except(s_old, q_old, s_new, q_new, e, delta):
    x = z3.Const("bx!q", RefSort)
    return FA([x], bag(q_new, x) == bag(q_old, x) + z3.If(x == e, delta, 0), patterns=[bag(q_new, x), bag(q_old, x)])


# ---------------------------------------------------------------------------- events
def _ev_init(cls, etype, prec, with_ev):
    params = dict(self=Ref(cls), timestamp=Int)
    mods = ["Event.timestamp", "Event.event_type", "Event.precedence"]
    if with_ev:
        params["ev"] = Ref("EV")
        mods.append("EVEvent.ev")
    REG.contract(
        M + cls + ".__init__", params=params, modifies=mods,
        ensures=[C("C11.event_init", lambda old, new, ret: [
            ("timestamp", new.self.timestamp == old.timestamp),
            ("type", Eq(new.self.event_type, etype)),
            ("precedence", Eq(new.self.precedence, prec)),
        ] + ([("ev", new.self.ev == old.ev)] if with_ev else []), props=("C01", "C11"))])


_ev_init("PluginEvent", "Plugin", 10, True)
_ev_init("UnplugEvent", "Unplug", 0, True)
_ev_init("RecomputeEvent", "Recompute", 20, False)
REG.contract(M + "EVEvent.__init__", params=dict(self=Ref("EVEvent"), timestamp=Int, ev=Ref("EV")),
             modifies=["Event.timestamp", "Event.event_type", "Event.precedence", "EVEvent.ev"],
             ensures=[C("C11.event_init", lambda old, new, ret: [new.self.timestamp == old.timestamp, new.self.ev == old.ev])])
REG.contract(M + "Event.__init__", params=dict(self=Ref("Event"), timestamp=Int),
             modifies=["Event.timestamp", "Event.event_type", "Event.precedence"],
             ensures=[C("C11.event_init", lambda old, new, ret: [new.self.timestamp == old.timestamp, Eq(new.self.event_type, "")])])
REG.contract(M + "Event.__lt__", params=dict(self=Ref("Event"), other=Ref("Event")), ret=Bool, modifies=[],
             ensures=[C("C11.lt_is_precedence", lambda old, new, ret: ret == (old.self.precedence < old.other.precedence))])

# ---------------------------------------------------------------------------- queue
REG.contract(
    Q + "EventQueue.__len__", params=dict(self=Ref("EventQueue")), ret=Int, modifies=[],
    ensures=[C("C11.len", lambda old, new, ret: ret == old.self._queue.len)])
REG.contract(
    Q + "EventQueue.empty", params=dict(self=Ref("EventQueue")), ret=Bool, modifies=[],
    ensures=[C("C11.empty", lambda old, new, ret: ret == (old.self._queue.len == 0))])
REG.contract(
    Q + "EventQueue.add_event", params=dict(self=Ref("EventQueue"), event=Ref("Event")),
    requires=[C("qinv", lambda s: qinv(s, s.self))],
    modifies=["EventQueue._queue"],
    ensures=[C("C11.add", lambda old, new, ret: [
        ("qinv", qinv(new, new.self)),
        ("len", new.self._queue.len == old.self._queue.len + 1),
        ("bag", bag_same_except(old, old.self, new, new.self, old.event.ref, 1)),
    ])])
REG.contract(
    Q + "EventQueue.get_event", params=dict(self=Ref("EventQueue")), ret=Ref("Event"),
    requires=[C("qinv", lambda s: qinv(s, s.self))],
    raises=[RaiseSpec("IndexError", lambda s: s.self._queue.len == 0, iff=True, unchanged=True)],
    modifies=["EventQueue._queue"],
    ensures=[C("C11.get", lambda old, new, ret: [
        ("qinv", qinv(new, new.self)),
        ("len", new.self._queue.len == old.self._queue.len - 1),
        ("was_pending", bag(old.self, ret.ref) > 0),
        ("bag", bag_same_except(old, old.self, new, new.self, ret.ref, -1)),
        ("minimal_among_old", _all_q(old.self, lambda e: Not(lt_ev(old, e, ret.ref)))),
        ("not_above_remaining", _all_q(new.self, lambda e: Not(lt_ev(old, e, ret.ref)))),
    ])])


def _all_q(q, f):
    v = qv(q)
    i = z3.Int("qi!all")
    return FA([i], z3.Implies(z3.And(i >= 0, i < v.len), f(z3.Select(v.arrs[1], i))), patterns=[z3.Select(v.arrs[1], i)])


def _all_seq(seq, f):
    v = seq.v
    i = z3.Int("si!all")
    return FA([i], z3.Implies(z3.And(i >= 0, i < v.len), f(z3.Select(v.arrs[0], i))), patterns=[z3.Select(v.arrs[0], i)])


def _sorted(s, seq):
    v = seq.v
    i, j = z3.Int("si!a"), z3.Int("si!b")
    return FA([i, j], z3.Implies(z3.And(i >= 0, i < j, j < v.len),
                                        z3.Not(lt_ev(s, z3.Select(v.arrs[0], j), z3.Select(v.arrs[0], i)))),
                     patterns=[z3.MultiPattern(z3.Select(v.arrs[0], i), z3.Select(v.arrs[0], j))])


def _gce_inv(s0_self_queue_bag):
    pass


def _gce_post(old, new, ret):
    x = z3.Const("bx!g", RefSort)
    t = old.timestep
    return [
        ("qinv", qinv(new, new.self)),
        ("timestep", new.self._timestep == t),
        ("bag_split", FA([x], H.cnt(ret.v, x) + bag(new.self, x) == bag(old.self, x),
                                patterns=[bag(new.self, x), H.cnt(ret.v, x), bag(old.self, x)])),
        ("returned_are_due", _all_seq(ret, lambda e: z3.Select(TSA(old), e) <= t)),
        ("remaining_are_later", _all_q(new.self, lambda e: z3.Select(TSA(old), e) > t)),
        ("sorted_by_time_then_precedence", _sorted(old, ret)),
        ("len", ret.len + new.self._queue.len == old.self._queue.len),
    ]


def _gce_loop_inv(s):
    x = z3.Const("bx!l", RefSort)
    cur = s.current_events
    q0 = s.q0                         # ghost: bag of the queue on entry (a function Ref -> Int as an array)
    return [
        ("qinv", qinv(s, s.self)),
        ("timestep", s.self._timestep == s.timestep),
        ("bag_split", FA([x], H.cnt(cur.v, x) + bag(s.self, x) == z3.Select(q0, x), patterns=[bag(s.self, x)])),
        ("len", cur.len + s.self._queue.len == s.len0),
        ("cur_nonneg", cur.len >= 0),
        ("collected_are_due", _all_seq(cur, lambda e: z3.Select(TSA(s), e) <= s.timestep)),
        ("collected_sorted", _sorted(s, cur)),
        ("collected_below_remaining", _all_seq(cur, lambda c: _all_q(s.self, lambda e: Not(lt_ev(s, e, c))))),
    ]


REG.contract(
    Q + "EventQueue.get_current_events", params=dict(self=Ref("EventQueue"), timestep=Int), ret=Seq(Ref("Event")),
    requires=[C("qinv", lambda s: qinv(s, s.self))],
    modifies=["EventQueue._queue", "EventQueue._timestep"],
    ensures=[C("C11.current", _gce_post)],
    loops={0: LoopSpec(invariant=_gce_loop_inv, modifies=[("EventQueue._queue", lambda s: [s.self])], locals=dict(current_events=Seq(Ref("Event"))),
                       decreases=lambda s: s.self._queue.len)},
    extra=dict(ghost_entry=lambda ex, st, view: {
        "q0": _bag_array(view), "len0": view.self._queue.len}),
)


def _bag_array(view):
    x = z3.Const("bx!e", RefSort)
    return z3.Lambda([x], bag(view.self, x))


REG.contract(
    Q + "EventQueue.get_last_timestamp", params=dict(self=Ref("EventQueue")), ret=Opt(Int), modifies=[],
    requires=[C("qinv", lambda s: qinv(s, s.self))],
    ensures=[C("C11.last", lambda old, new, ret: [
        ("none_iff_empty", ret.isnone == (old.self._queue.len == 0)),
        ("is_max", Implies(Not(ret.isnone), _all_q(old.self, lambda e: z3.Select(TSA(old), e) <= ret.val))),
        ("is_attained", Implies(Not(ret.isnone), bag_has_ts(old, old.self, ret.val))),
    ])])


def bag_has_ts(s, q, t):
    v = qv(q)
    i = z3.Int("qi!ex")
    return z3.Exists([i], z3.And(i >= 0, i < v.len, z3.Select(v.arrs[0], i) == t))


# ---------------------------------------------------------------------------- add_events / constructor
def _add_events_inv(s):
    x = z3.Const("bx!ae", RefSort)
    ev = s.events
    return [
        ("qinv", qinv(s, s.self)),
        ("len", s.self._queue.len == s.len0 + s._k),
        ("bag_is_entry_bag_plus_prefix", FA([x], bag(s.self, x) == z3.Select(s.q0, x) + H.CNT(ev.v.arrs[0], s._k, x),
                                                   patterns=[bag(s.self, x)])),
    ]


REG.contract(
    Q + "EventQueue.add_events", params=dict(self=Ref("EventQueue"), events=Seq(Ref("Event"))),
    requires=[C("qinv", lambda s: qinv(s, s.self))],
    modifies=["EventQueue._queue"],
    ensures=[C("C11.add_many", lambda old, new, ret: [
        ("qinv", qinv(new, new.self)),
        ("len", new.self._queue.len == old.self._queue.len + old.events.len),
        ("bag", FA([z3.Const("bx!am", RefSort)],
                          bag(new.self, z3.Const("bx!am", RefSort)) == bag(old.self, z3.Const("bx!am", RefSort))
                          + H.cnt(old.events.v, z3.Const("bx!am", RefSort)), patterns=[bag(new.self, z3.Const("bx!am", RefSort))])),
    ])],
    loops={0: LoopSpec(invariant=_add_events_inv, modifies=[("EventQueue._queue", lambda s: [s.self])])},
    extra=dict(ghost_entry=lambda ex, st, view: {"q0": _bag_array(view), "len0": view.self._queue.len}),
)

REG.contract(
    Q + "EventQueue.__init__", params=dict(self=Ref("EventQueue"), events=Opt(Seq(Ref("Event")))),
    modifies=["EventQueue._queue", "EventQueue._timestep"],
    ensures=[C("C11.init", lambda old, new, ret: [
        ("qinv", qinv(new, new.self)), ("timestep", new.self._timestep == 0),
        ("len", new.self._queue.len == If(old.events.isnone, 0, old.events.val.len)),
        ("bag", FA([z3.Const("bx!in", RefSort)], bag(new.self, z3.Const("bx!in", RefSort)) ==
                          If(old.events.isnone, 0, H.cnt(old.events.val.v, z3.Const("bx!in", RefSort))),
                          patterns=[bag(new.self, z3.Const("bx!in", RefSort))])),
    ])])


# the queue contracts C01's run-loop proof rests on (time order, precedence within a period, stored key = the event's own timestamp) serve C01 as well:
# a change that breaks one of them is reported by the C01 (and C19: the stochastic network runs on the same queue) check too, not only by C11
for _q in (Q + "EventQueue.add_event", Q + "EventQueue.get_event", Q + "EventQueue.get_current_events", Q + "EventQueue.empty", M + "Event.__lt__"):
    for _cl in REG.get(_q).ensures:
        if _cl.tag.startswith("C11."):
            _cl.props = ("C01", "C11", "C19")     # C19: first-come-first-served admission and 'every arrived EV is somewhere' need every due event delivered, in order
