"""Contracts for the three feasibility checkers (C06):
  ChargingNetwork.constraint_current / is_feasible, Interface.is_feasible, algorithms.utils.infrastructure_constraints_feasible.

All three are proved against ONE specification written from the property text:

    FEASDEF(A, limits, phases, S, vtol, rtol)  :=  for every constraint i and period t
        | sum_j A[i][j] * S[j][t] * e^{i phi_j} |  <=  limits[i] + max(vtol, rtol * limits[i])

so "the three checkers agree on every schedule" is a corollary of the three postconditions."""
import z3
from pyvc.vtypes import FA
from pyvc.contracts_api import REG, C, RaiseSpec, LoopSpec
from pyvc.dsl import And, Or, Not, Implies, If, Eq, IsNone, AllIdx, AnyIdx, With
from pyvc.vtypes import Real, Int, Bool, Id, Ref, Opt, Seq, Tup, Map, Mat, CMat, IdSort, RefSort
from pyvc.nplib import SUM
from pyvc.cplx import COS, SIN, D2R, CABS
from pyvc import vtypes as ty

N = "acnportal.acnsim.network.charging_network.ChargingNetwork."
I = "acnportal.acnsim.interface.Interface."
U = "acnportal.algorithms.utils."


# ---------------------------------------------------------------------------- specification
def phasor_sum(A_arr, row, ph_arr, n, cell, linear=False):
    """(re, im) of  sum_{j<n} A[row][j] * cell(j) * e^{i phi_j}   (linear: sum_j |A[row][j]| * cell(j), 0)"""
    j = z3.Int(ty.fresh_name("pj"))
    a = ty.sel(A_arr, row, j)
    if linear:
        return SUM(z3.Lambda([j], z3.If(a >= 0, a, -a) * cell(j)), n), z3.RealVal(0)
    ang = D2R(ty.sel(ph_arr, j))
    return (SUM(z3.Lambda([j], a * (cell(j) * COS(ang))), n),
            SUM(z3.Lambda([j], a * (cell(j) * SIN(ang))), n))


def allowance(limit, vtol, rtol):
    r = rtol * limit
    return limit + z3.If(vtol >= r, vtol, r)


def feasdef(A_arr, m, limits_arr, ph_arr, n, S_arr, T, vtol, rtol, linear=False):
    i, t = z3.Int(ty.fresh_name("fi")), z3.Int(ty.fresh_name("ft"))
    re, im = phasor_sum(A_arr, i, ph_arr, n, lambda j: ty.sel(S_arr, j, t), linear)
    return FA([i, t], z3.Implies(z3.And(i >= 0, i < m, t >= 0, t < T), CABS(re, im) <= allowance(ty.sel(limits_arr, i), vtol, rtol)))


def feasdef_lin_or_not(linear, *args):
    return If(linear, feasdef(*args, linear=True), feasdef(*args, linear=False))


# ---------------------------------------------------------------------------- ChargingNetwork
def net_shapes(s, net):
    """shape invariant of a network with constraints: M x N matrix, M limits and names, N phase angles / voltages / stations"""
    cm = net.constraint_matrix
    n = net._EVSEs.keys.len
    return And(net._phase_angles.len == n, net._voltages.len == n, net.magnitudes.len == net.constraint_index.len,
               Implies(Not(cm.isnone), And(cm.val.rows == net.magnitudes.len, cm.val.cols == n)),
               Implies(cm.isnone, net.magnitudes.len == 0))


def name_selected(old, i):
    """constraint i of the network is among the requested names (the very membership term the code's filter evaluates)"""
    from pyvc import lib
    from pyvc.views import unwrap
    net = old.self
    return ty.to_bool(lib.contains(old._ex, old._st, unwrap(old.constraints), ty.sel(net.constraint_index.v.arrs[0], i), None))


def selection(old):
    """(number of selected constraints, result row -> network row): all constraints when none is named, otherwise the order-preserving
    selection of the named ones (canonical selection functions of the membership condition, see pyvc.seqlib.filter_maps)"""
    from pyvc.seqlib import filter_maps
    net = old.self
    M = net.constraint_index.len
    none = z3.simplify(old.constraints.isnone)
    if z3.is_true(none):
        return M, (lambda r: r)
    i = z3.Int(ty.fresh_name("sel"))
    _, m, idx, _pos = filter_maps(i, M, name_selected(old, i))
    if z3.is_false(none):
        return m, idx
    return z3.If(none, M, m), (lambda r: z3.If(none, r, idx(r)))


def cc_value(old):
    """constraint_current(S, constraints, time_indices, linear): one row per requested constraint in NETWORK order (all of them when none is
    named), one column per requested period in the order given; entry (r, t) = the phasor sum of that constraint over column
    time_indices[t] of S (or column t)"""
    net, S = old.self, old.input_schedule
    A = net.constraint_matrix.val
    n = net._phase_angles.len
    r, t = z3.Int(ty.fresh_name("r")), z3.Int(ty.fresh_name("t"))
    cols = If(old.time_indices.isnone, S.cols, old.time_indices.val.len)
    col_of = lambda tt: z3.If(old.time_indices.isnone, tt, ty.sel(old.time_indices.val.v.arrs[0], tt))
    rows, row_of = selection(old)
    parts = []
    for lin in (False, True):
        parts.append(phasor_sum(A.arr, row_of(r), net._phase_angles.v.arrs[0], n, lambda j: ty.sel(S.arr, j, col_of(t)), linear=lin))
    re = z3.If(old.linear, parts[1][0], parts[0][0])
    im = z3.If(old.linear, parts[1][1], parts[0][1])
    return ty.CMatV(ty.MatV(z3.Lambda([r], z3.Lambda([t], re)), rows, cols), ty.MatV(z3.Lambda([r], z3.Lambda([t], im)), rows, cols))


REG.contract(
    N + "constraint_current",
    params=dict(self=Ref("ChargingNetwork"), input_schedule=Mat, constraints=Opt(Seq(Id)), time_indices=Opt(Seq(Int)), linear=Bool), ret=CMat, modifies=[],
    requires=[C("shapes", lambda s: And(net_shapes(s, s.self), Not(s.self.constraint_matrix.isnone), s.input_schedule.rows == s.self._phase_angles.len)),
              C("time_indices_in_range", lambda s: Implies(Not(s.time_indices.isnone),
                  AllIdx(0, s.time_indices.val.len, lambda k: And(s.time_indices.val[k] >= 0, s.time_indices.val[k] < s.input_schedule.cols), name="tk")))],
    extra=dict(returns=cc_value, returns_props=("C06", "C12", "C18", "C10"), canonical_filters=True),
)


def _isf_post(old, new, ret):
    net, S = old.self, old.schedule_matrix
    vtol = If(old.violation_tolerance.isnone, net.violation_tolerance, old.violation_tolerance.val)
    rtol = If(old.relative_tolerance.isnone, net.relative_tolerance, old.relative_tolerance.val)
    A = net.constraint_matrix.val
    args = (A.arr, net.magnitudes.len, net.magnitudes.v.arrs[0], net._phase_angles.v.arrs[0], net._phase_angles.len, S.arr, S.cols, vtol, rtol)
    out = [("C06.no_constraints_accept_everything", Implies(net.magnitudes.len == 0, ret)),
           ("C06.no_periods_accept_everything", Implies(S.cols == 0, ret))]
    for lin, nm in ((False, "phase_aware"), (True, "linear")):
        spec = feasdef(*args, linear=lin)
        case = And(net.magnitudes.len > 0, old.linear if lin else Not(old.linear))
        # the equivalence ret <=> FEASDEF, one direction per obligation (each is "forall => forall", decided by instantiation)
        out.append((f"C06.{nm}.accepted_only_if_every_sum_is_within_limit_plus_tolerance", Implies(case, Implies(ret, spec))))
        out.append((f"C06.{nm}.accepted_if_every_sum_is_within_limit_plus_tolerance", Implies(case, Implies(spec, ret))))
    return out


REG.contract(
    N + "is_feasible",
    params=dict(self=Ref("ChargingNetwork"), schedule_matrix=Mat, linear=Bool, violation_tolerance=Opt(Real), relative_tolerance=Opt(Real)),
    ret=Bool, modifies=[],
    requires=[C("shapes", lambda s: And(net_shapes(s, s.self), Implies(s.self.magnitudes.len > 0, s.schedule_matrix.rows == s.self._phase_angles.len)))],
    ensures=[C("C06.network_side", _isf_post, props=("C06",))],
    extra=dict(variant="full"),
)


# ---------------------------------------------------------------------------- algorithm side: utils.infrastructure_constraints_feasible
from .algorithms import FEAS, infra_shapes      # FEAS: the abstract predicate the search procedures are verified against


def feasdef_1d(inf, rates, vtol, rtol, linear):
    """FEASDEF for a single period: the rate vector is the only column"""
    i = z3.Int(ty.fresh_name("fi"))
    re, im = phasor_sum(inf.constraint_matrix.arr, i, inf.phases.v.arrs[0], inf.phases.len, lambda j: ty.sel(rates.v.arrs[0], j), linear)
    return FA([i], z3.Implies(z3.And(i >= 0, i < inf.constraint_limits.len),
                              CABS(re, im) <= allowance(ty.sel(inf.constraint_limits.v.arrs[0], i), vtol, rtol)))


def _icf_inv(linear):
    def inv(s):
        inf = s.infrastructure
        i = z3.Int(ty.fresh_name("li"))
        re, im = phasor_sum(inf.constraint_matrix.arr, i, inf.phases.v.arrs[0], inf.phases.len, lambda j: ty.sel(s.rates.v.arrs[0], j), linear)
        return [("rows_checked_so_far_are_within_their_limits",
                 FA([i], z3.Implies(z3.And(i >= 0, i < s._k), CABS(re, im) <= allowance(ty.sel(inf.constraint_limits.v.arrs[0], i), s.violation_tolerance, s.relative_tolerance))))]
    return inv


def _icf_post(old, new, ret):
    inf = old.infrastructure
    out = []
    for lin, nm in ((False, "phase_aware"), (True, "linear")):
        spec = feasdef_1d(inf, old.rates, old.violation_tolerance, old.relative_tolerance, lin)
        case = old.linear if lin else Not(old.linear)
        out.append((f"C06.{nm}.accepted_only_if_every_sum_is_within_limit_plus_tolerance", Implies(case, Implies(ret, spec))))
        out.append((f"C06.{nm}.accepted_if_every_sum_is_within_limit_plus_tolerance", Implies(case, Implies(spec, ret))))
    dflt = And(Not(old.linear), Eq(old.violation_tolerance, z3.RealVal("1e-5")), Eq(old.relative_tolerance, z3.RealVal("1e-7")))
    out.append(("FEAS_is_this_result_under_the_default_arguments",
                Implies(dflt, ret == FEAS(old.rates.v.arrs[0], old.rates.len, inf.ref))))
    return out


def _icf_define_FEAS(ex, st, pre):
    """Definition (recorded as an assumption): FEAS(v, infrastructure) abbreviates FEASDEF(infrastructure's matrix / limits / phases, v) with the
    default tolerances 1e-5 / 1e-7.  It is instantiated for the argument vector in the entry state of this function only."""
    inf, rates = pre.infrastructure, pre.rates
    st.assume(FEAS(rates.v.arrs[0], rates.len, inf.ref) == feasdef_1d(inf, rates, z3.RealVal("1e-5"), z3.RealVal("1e-7"), False))
    return {}


REG.assume("definition", "FEAS(v, infrastructure) := FEASDEF over the infrastructure object's constraint matrix, limits and phases with the default "
                         "tolerances; InfrastructureInfo objects are not written by any function under contract (frames checked)")
REG.contract(
    U + "infrastructure_constraints_feasible",
    params=dict(rates=Seq(Real), infrastructure=Ref("InfrastructureInfo"), linear=Bool, violation_tolerance=Real, relative_tolerance=Real),
    ret=Bool, modifies=[],
    requires=[C("shapes", lambda s: And(infra_shapes(s, s.infrastructure), s.rates.len == s.infrastructure.phases.len))],
    ensures=[C("C06.algorithm_side", _icf_post, props=("C06", "C07", "C08"))],
    loops={0: LoopSpec(invariant=_icf_inv(False)), 1: LoopSpec(invariant=_icf_inv(True))},
    # callers (the search procedures and allocation loops of C07 / C08) are shown only the abstract verdict FEAS; that FEAS is FEASDEF is this
    # function's own, proved, postcondition
    extra=dict(ghost_entry=_icf_define_FEAS, export_tags=("FEAS_",)),
)


# ---------------------------------------------------------------------------- interface side: Interface.is_feasible
def dict_matrix_arr(net, m, L):
    """the schedule matrix a mapping station id -> list of pilots denotes: row i = the list of the i-th registered station, 0 where it is omitted"""
    i, j = z3.Int(ty.fresh_name("di")), z3.Int(ty.fresh_name("dj"))
    sid = ty.sel(net._EVSEs.keys.v.arrs[0], i)
    return z3.Lambda([i], z3.Lambda([j], z3.If(z3.Select(m._v.dom, sid), z3.Select(z3.Select(m._v.arrs[0], sid), j), z3.RealVal(0))))


def _iisf_post(old, new, ret):
    net, m = old.self._simulator.network, old.load_currents
    vtol = If(old.violation_tolerance.isnone, net.violation_tolerance, old.violation_tolerance.val)
    rtol = If(old.relative_tolerance.isnone, net.relative_tolerance, old.relative_tolerance.val)
    L = z3.Select(m._v.arrs[1], ty.sel(m.keys.v.arrs[0], 0))
    A = net.constraint_matrix.val
    S = dict_matrix_arr(net, m, L)
    args = (A.arr, net.magnitudes.len, net.magnitudes.v.arrs[0], net._phase_angles.v.arrs[0], net._phase_angles.len, S, L, vtol, rtol)
    nonempty = m.keys.len > 0
    out = [("C06.empty_mapping_is_feasible", Implies(Not(nonempty), ret)),
           ("C06.no_constraints_accept_everything", Implies(net.magnitudes.len == 0, ret))]
    k = z3.Const("ik!e", IdSort)
    ln = lambda kk: z3.Select(m._v.arrs[1], kk)
    all_len_L = Implies(nonempty, FA([k], z3.Implies(z3.Select(m._v.dom, k), ln(k) == L), patterns=[ln(k)]))     # helper fact, proved first
    for lin, nm in ((False, "phase_aware"), (True, "linear")):
        spec = feasdef(*args, linear=lin)
        case = And(nonempty, net.magnitudes.len > 0, old.linear if lin else Not(old.linear))
        out.append((f"C06.{nm}.accepted_only_if_every_sum_is_within_limit_plus_tolerance", With(Implies(case, Implies(ret, spec)), [all_len_L])))
        out.append((f"C06.{nm}.accepted_if_every_sum_is_within_limit_plus_tolerance", With(Implies(case, Implies(spec, ret)), [all_len_L])))
    return out


def _equal_lengths(m):
    k1, k2 = z3.Const("ik!1", IdSort), z3.Const("ik!2", IdSort)
    ln = lambda k: z3.Select(m._v.arrs[1], k)
    return FA([k1, k2], z3.Implies(z3.And(z3.Select(m._v.dom, k1), z3.Select(m._v.dom, k2)), ln(k1) == ln(k2)), patterns=[z3.MultiPattern(ln(k1), ln(k2))])


REG.contract(
    I + "is_feasible",
    params=dict(self=Ref("Interface"), load_currents=Map(Id, Seq(Real), ordered=True), linear=Bool, violation_tolerance=Opt(Real), relative_tolerance=Opt(Real)),
    ret=Bool, modifies=[],
    requires=[C("shapes", lambda s: And(net_shapes(s, s.self._simulator.network), s.self._simulator.network._EVSEs.keys.len >= 1)),
              C("lists", lambda s: FA([z3.Const("ik!l", IdSort)], z3.Select(s.load_currents._v.arrs[1], z3.Const("ik!l", IdSort)) >= 0))],
    raises=[RaiseSpec("InvalidScheduleError", lambda s: And(s.load_currents.keys.len > 0, Not(_equal_lengths(s.load_currents))), iff=True, unchanged=True)],
    ensures=[C("C06.interface_side", _iisf_post, props=("C06",))],
)


# ---------------------------------------------------------------------------- lemmas over the contracts / the specification
def _agree():
    """the three postconditions speak about one predicate: whatever the three checkers return on the same data is the same"""
    r_net, r_if, r_alg, spec = z3.Bools("lem_r_net lem_r_if lem_r_alg lem_FEASDEF")
    return [("network_interface_and_algorithm_side_return_the_same_verdict",
             [r_net == spec, r_if == spec, r_alg == spec], z3.And(r_net == r_if, r_if == r_alg))]


def _linear_conservative():
    """For a non-negative schedule the linear relaxation dominates the phase-aware magnitude, row by row and period by period:
        | sum_j a_j s_j e^{i phi_j} |  <=  sum_j |a_j| s_j
    (A-MATH: triangle inequality for finite sums, |k e^{i theta}| = |k|), hence whatever the linear check accepts the phase-aware check accepts."""
    A = z3.Const("lem_A", z3.ArraySort(z3.IntSort(), z3.ArraySort(z3.IntSort(), z3.RealSort())))
    S = z3.Const("lem_S", z3.ArraySort(z3.IntSort(), z3.ArraySort(z3.IntSort(), z3.RealSort())))
    ph = z3.Const("lem_ph", z3.ArraySort(z3.IntSort(), z3.RealSort()))
    lim = z3.Const("lem_lim", z3.ArraySort(z3.IntSort(), z3.RealSort()))
    n, m, T, i, t = z3.Ints("lem_n lem_m lem_T lem_i lem_t")
    vtol, rtol = z3.Reals("lem_vtol lem_rtol")
    cell = lambda j: ty.sel(S, j, t)
    re, im = phasor_sum(A, i, ph, n, cell, linear=False)
    lre, lim0 = phasor_sum(A, i, ph, n, cell, linear=True)
    j = z3.Int("lem_j")
    a = ty.sel(A, i, j)
    absa = z3.If(a >= 0, a, -a)
    ang = D2R(ty.sel(ph, j))
    f, g, h = a * (cell(j) * COS(ang)), a * (cell(j) * SIN(ang)), absa * cell(j)
    nonneg = FA([j], z3.Implies(z3.And(j >= 0, j < n), cell(j) >= 0))
    # A-MATH instances
    unit = FA([j], CABS((a * cell(j)) * COS(ang), (a * cell(j)) * SIN(ang)) == z3.If(a * cell(j) >= 0, a * cell(j), -(a * cell(j))))   # |k e^{i theta}| = |k|
    tri = z3.Implies(FA([j], z3.Implies(z3.And(j >= 0, j < n), CABS(f, g) <= h)), CABS(re, im) <= lre)                             # |sum z_j| <= sum h_j if |z_j| <= h_j
    assoc = FA([j], z3.And(f == (a * cell(j)) * COS(ang), g == (a * cell(j)) * SIN(ang)))
    dominated = CABS(re, im) <= lre
    return [
        ("each_summand_is_dominated", [nonneg, unit, j >= 0, j < n], CABS(f, g) <= h),
        ("phase_aware_magnitude_is_at_most_the_linear_sum", [nonneg, unit, tri, n >= 0], dominated),
        ("linear_accepts_implies_phase_aware_accepts", [dominated, CABS(lre, z3.RealVal(0)) == z3.If(lre >= 0, lre, -lre),
                                                        CABS(lre, z3.RealVal(0)) <= allowance(ty.sel(lim, i), vtol, rtol)],
         CABS(re, im) <= allowance(ty.sel(lim, i), vtol, rtol)),
    ]


REG.lemma("C06.three_checkers_agree", _agree, props=("C06",))
REG.lemma("C06.linear_relaxation_is_conservative", _linear_conservative, props=("C06",))
REG.assume("A-MATH", "triangle inequality for finite sums: (forall j<n. |f_j + i g_j| <= h_j) => |Sum f + i Sum g| <= Sum h  (Mathlib norm_sum_le_of_le); "
                     "|k cos(theta) + i k sin(theta)| = |k|  (Complex.abs_exp_ofReal_mul_I); cabs(x, 0) = |x|, cabs >= 0")
