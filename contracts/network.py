"""Contracts for acnportal/acnsim/network/charging_network.py  (C01 plug/unplug; C02/C04 update_pilots; C06/C12 later)."""
import z3
from pyvc.vtypes import FA
from pyvc.contracts_api import REG, C, RaiseSpec, LoopSpec
from pyvc.dsl import And, Or, Not, Implies, If, Eq, IsNone, AllIdx, AnyIdx
from pyvc.vtypes import Real, Int, Bool, Id, Ref, Opt, Seq, Tup, Mat, IdSort, RefSort
from pyvc import maplib

N = "acnportal.acnsim.network.charging_network.ChargingNetwork."


def evse_of(s, net, sid):
    """the EVSE registered under station id `sid` (a reference term)"""
    return net._EVSEs[sid]


def net_wf(s, net):
    """Representation invariant of the station registry: the ordered key list is exactly the domain, every registered
    EVSE is a live object stored under its own station id."""
    m = net._EVSEs._v
    k = z3.Const("nk!wf", IdSort)
    ev = lambda kk: s.field_of(z3.Select(m.arrs[0], kk), "BaseEVSE", "_station_id")
    return And(maplib.keys_wf(m),
               FA([k], z3.Implies(z3.Select(m.dom, k),
                                         z3.And(z3.Select(m.arrs[0], k) != 0, s.alloc_ref(z3.Select(m.arrs[0], k)), ev(k) == k)),
                         patterns=[z3.Select(m.arrs[0], k)]))


def occ(s, net, sid):
    """occupant (EV reference, 0 = vacant) of station sid"""
    return s.field_of(z3.Select(net._EVSEs._v.arrs[0], sid), "BaseEVSE", "_ev").ref


def station_known(net, sid_opt):
    return And(Not(sid_opt.isnone), net._EVSEs.has(sid_opt.val))


# ---------------------------------------------------------------------------- plugin / unplug / get_ev
REG.contract(
    N + "plugin", params=dict(self=Ref("ChargingNetwork", exact=True), ev=Ref("EV")),
    requires=[C("wf", lambda s: net_wf(s, s.self))],
    raises=[RaiseSpec("KeyError", lambda s: Not(station_known(s.self, s.ev._station_id)), iff=True, unchanged=True),
            RaiseSpec("StationOccupiedError", lambda s: And(station_known(s.self, s.ev._station_id),
                                                             occ(s, s.self, s.ev._station_id.val) != 0), iff=True, unchanged=True)],
    modifies=[("BaseEVSE._ev", lambda s: [s.self._EVSEs[s.ev._station_id.val]])],
    ensures=[C("C01.plugged", lambda old, new, ret: [
        ("occupant", occ(new, old.self, old.ev._station_id.val) == old.ev.ref),
        ("was_vacant", occ(old, old.self, old.ev._station_id.val) == 0),
    ])])

REG.contract(
    N + "unplug", params=dict(self=Ref("ChargingNetwork", exact=True), station_id=Opt(Id), session_id=Opt(Id)),
    requires=[C("wf", lambda s: net_wf(s, s.self))],
    raises=[RaiseSpec("KeyError", lambda s: Not(s.self._EVSEs.has(s.station_id)), iff=True, unchanged=True)],
    modifies=[("BaseEVSE._ev", lambda s: [s.self._EVSEs[s.station_id.val]]),
              ("BaseEVSE._current_pilot", lambda s: [s.self._EVSEs[s.station_id.val]]), "warnings"],
    ensures=[C("C01.unplugged", lambda old, new, ret: [
        ("session_checked", If(Or(old.session_id.isnone,
                                  And(occ(old, old.self, old.station_id.val) != 0,
                                      old.field_of(occ(old, old.self, old.station_id.val), "EV", "_session_id") == old.session_id.val)),
                               And(occ(new, old.self, old.station_id.val) == 0,
                                   Eq(new.field_of(z3.Select(old.self._EVSEs._v.arrs[0], old.station_id.val), "BaseEVSE", "_current_pilot"), 0)),
                               And(occ(new, old.self, old.station_id.val) == occ(old, old.self, old.station_id.val),
                                   new.warnings == old.warnings + 1,
                                   Eq(new.field_of(z3.Select(old.self._EVSEs._v.arrs[0], old.station_id.val), "BaseEVSE", "_current_pilot"),
                                      old.field_of(z3.Select(old.self._EVSEs._v.arrs[0], old.station_id.val), "BaseEVSE", "_current_pilot"))))),
        ("matching_session_unplugs_silently", Implies(And(Not(old.session_id.isnone), occ(old, old.self, old.station_id.val) != 0,
                                                          old.field_of(occ(old, old.self, old.station_id.val), "EV", "_session_id") == old.session_id.val),
                                                      new.warnings == old.warnings)),
    ])])

REG.contract(
    N + "get_ev", params=dict(self=Ref("ChargingNetwork", exact=True), station_id=Id), ret=Ref("EV", nullable=True),
    requires=[C("wf", lambda s: net_wf(s, s.self))],
    raises=[RaiseSpec("KeyError", lambda s: Not(s.self._EVSEs.has(s.station_id)), iff=True, unchanged=True)],
    modifies=[],
    ensures=[C("C01.get_ev", lambda old, new, ret: ret.ref == occ(old, old.self, old.station_id))])

REG.contract(
    N + "station_ids", params=dict(self=Ref("ChargingNetwork", exact=True)), ret=Seq(Id), modifies=[],
    extra=dict(returns=lambda old: old.self._EVSEs.keys, returns_props=("C10",)))     # station order is registration order


# feasibility: is_feasible / constraint_current are under contract in contracts/feasibility.py (C06)
