"""Contracts for acnportal/contrib/acnsim/network/stochastic_network.py  (C19).

The property is a representation invariant of one data structure (station registry + occupants + waiting queue) that every
public operation must preserve, plus a functional postcondition per operation (where the EV went, who was admitted, FCFS order)."""
import z3
from pyvc.vtypes import FA
from pyvc.contracts_api import REG, C, RaiseSpec, LoopSpec
from pyvc.dsl import And, Or, Not, Implies, If, Eq, IsNone, AllIdx, AnyIdx
from pyvc.vtypes import Real, Int, Bool, Id, Ref, Opt, Seq, Tup, Map, IdSort, RefSort
from pyvc import maplib
from .network import net_wf, occ

SN = "acnportal.contrib.acnsim.network.stochastic_network.StochasticNetwork."

REG.schema("StochasticNetwork", bases=["ChargingNetwork"],
           waiting_queue=Map(Id, Ref("EV"), ordered=True), early_departure=Bool, swaps=Int, never_charged=Int, early_unplug=Int)


# ---------------------------------------------------------------------------- abstraction
def rebase(s, net):
    """the same network object, read in state s"""
    return s.obj(net.ref, "StochasticNetwork")


def station(net, i):
    """station id at position i of the registration order"""
    return z3.Select(net._EVSEs._v.keys.arrs[0], i)


def n_stations(net):
    return net._EVSEs._v.keys.len


def some_station_free(s, net):
    net = rebase(s, net)
    return AnyIdx(0, n_stations(net), lambda i: occ(s, net, station(net, i)) == 0, name="fs")


def all_stations_occupied(s, net):
    net = rebase(s, net)
    return AllIdx(0, n_stations(net), lambda i: occ(s, net, station(net, i)) != 0, name="ao")


def ev_station(s, ref):
    """(is None, value) of EV._station_id of an arbitrary EV reference"""
    o = s.field_of(ref, "EV", "_station_id")
    return o.isnone, o.val


def ev_session(s, ref):
    return s.field_of(ref, "EV", "_session_id")


def waiting(net):
    return net.waiting_queue._v


def inv(s, net):
    """C19 representation invariant."""
    net = rebase(s, net)
    wq = waiting(net)
    k = z3.Const("wk!inv", IdSort)
    sid = z3.Const("sid!inv", IdSort)
    wval = lambda kk: z3.Select(wq.arrs[0], kk)
    evses = net._EVSEs._v
    none_w, _ = ev_station(s, wval(k))
    none_o, val_o = ev_station(s, occ(s, net, sid))
    return [
        ("registry_wf", net_wf(s, net)),
        ("queue_wf", maplib.keys_wf(wq)),
        # each waiting EV is a live object filed under its own session id, and has no station
        ("waiting_evs", FA([k], z3.Implies(z3.Select(wq.dom, k),
                                           z3.And(wval(k) != 0, s.alloc_ref(wval(k)), ev_session(s, wval(k)) == k, none_w)),
                           patterns=[z3.Select(wq.arrs[0], k)])),
        # each occupant is a live object that knows the station it is connected to (=> no EV at two stations, no EV both waiting and connected)
        ("occupants", FA([sid], z3.Implies(z3.And(z3.Select(evses.dom, sid), occ(s, net, sid) != 0),
                                           z3.And(s.alloc_ref(occ(s, net, sid)), z3.Not(none_o), val_o == sid)),
                         patterns=[z3.Select(evses.arrs[0], sid)])),
        # nobody waits while a station is free
        ("no_wait_while_free", Implies(wq.keys.len > 0, all_stations_occupied(s, net))),
    ]


def inv_all(s, net):
    return And(*[g for _, g in inv(s, net)])


def is_new(s, net, ev):
    """the arriving EV is nowhere in the network yet (a session is plugged in once: C01)"""
    sid = z3.Const("sid!new", IdSort)
    net = rebase(s, net)
    evses = net._EVSEs._v
    return And(Not(net.waiting_queue.has(ev._session_id)),
               FA([sid], z3.Implies(z3.Select(evses.dom, sid), occ(s, net, sid) != ev.ref), patterns=[z3.Select(evses.arrs[0], sid)]))


def evse_ev_array(s):
    return s.heap_array("BaseEVSE._ev#0", RefSort)


def other_stations_unchanged(old, new, net, sid):
    """every EVSE object other than the one registered under `sid` keeps its occupant"""
    r = z3.Const("r!osu", RefSort)
    a0, a1 = evse_ev_array(old), evse_ev_array(new)
    return FA([r], z3.Implies(r != z3.Select(net._EVSEs._v.arrs[0], sid), z3.Select(a1, r) == z3.Select(a0, r)), patterns=[z3.Select(a1, r)])


def all_stations_unchanged(old, new):
    return evse_ev_array(old) == evse_ev_array(new)


def queue_same(old, new, net):
    a, b = waiting(old.obj(net.ref, "StochasticNetwork")), waiting(new.obj(net.ref, "StochasticNetwork"))
    return And(a.dom == b.dom, a.arrs[0] == b.arrs[0], a.keys.len == b.keys.len,
               AllIdx(0, a.keys.len, lambda i: z3.Select(a.keys.arrs[0], i) == z3.Select(b.keys.arrs[0], i), name="qs"))


def _wq(s, net):
    return waiting(s.obj(net.ref, "StochasticNetwork"))


# ---------------------------------------------------------------------------- plugin
def _plugin_post(old, new, ret):
    net, ev = old.self, old.ev
    a, b = _wq(old, net), _wq(new, net)
    ka, kb = a.keys.arrs[0], b.keys.arrs[0]
    sid_none, sid = ev_station(new, ev.ref)
    sess = old.ev._session_id
    k = z3.Const("k!pp", IdSort)
    placed = And(Not(sid_none), z3.Select(net._EVSEs._v.dom, sid),
                 occ(old, net, sid) == 0, occ(new, net, sid) == ev.ref,
                 other_stations_unchanged(old, new, net, sid), queue_same(old, new, net))
    queued = And(sid_none, all_stations_unchanged(old, new),
                 b.keys.len == a.keys.len + 1, z3.Select(kb, a.keys.len) == sess,
                 AllIdx(0, a.keys.len, lambda i: z3.Select(kb, i) == z3.Select(ka, i), name="pq"),
                 z3.Select(b.dom, sess), z3.Select(b.arrs[0], sess) == ev.ref,
                 FA([k], z3.Implies(k != sess, z3.And(z3.Select(b.dom, k) == z3.Select(a.dom, k), z3.Select(b.arrs[0], k) == z3.Select(a.arrs[0], k))),
                    patterns=[z3.Select(b.arrs[0], k)]))
    return [
        ("connected_to_a_free_station_iff_one_exists", Implies(some_station_free(old, net), placed)),
        ("otherwise_appended_at_the_end_of_the_waiting_queue", Implies(Not(some_station_free(old, net)), queued)),
        ("counters_unchanged", And(new.self.swaps == old.self.swaps, new.self.never_charged == old.self.never_charged,
                                   new.self.early_unplug == old.self.early_unplug)),
    ] + [("inv_" + t, g) for t, g in inv(new, net)]


REG.contract(
    SN + "plugin", params=dict(self=Ref("StochasticNetwork", exact=True), ev=Ref("EV")),
    requires=[C("inv", lambda s: inv_all(s, s.self)), C("arriving_ev_is_new", lambda s: is_new(s, s.self, s.ev))],
    modifies=[("EV._station_id", lambda s: [s.ev]), ("BaseEVSE._ev", "ALL"), "StochasticNetwork.waiting_queue"],
    ensures=[C("C19.plugin", _plugin_post)],
)


# ---------------------------------------------------------------------------- unplug
def _unplug_cases(s):
    net = s.self
    in_queue = net.waiting_queue.has(s.session_id)
    known = net._EVSEs.has(s.station_id)
    o = occ(s, net, s.station_id.val)
    match = And(Not(s.session_id.isnone), o != 0, ev_session(s, o) == s.session_id.val)
    return in_queue, known, o, match


def _unplug_post(old, new, ret):
    net = old.self
    a, b = _wq(old, net), _wq(new, net)
    ka, kb = a.keys.arrs[0], b.keys.arrs[0]
    in_queue, known, o, match = _unplug_cases(old)
    sess = old.session_id.val
    st_id = old.station_id.val
    k = z3.Const("k!up", IdSort)
    p = maplib._kpos(ka, sess)
    head = z3.Select(ka, 0)
    head_ev = z3.Select(a.arrs[0], head)
    removed_from_queue = And(
        all_stations_unchanged(old, new), new.self.never_charged == old.self.never_charged + 1, new.self.swaps == old.self.swaps,
        b.keys.len == a.keys.len - 1, Not(z3.Select(b.dom, sess)),
        # the others keep their relative (first-come-first-served) order
        AllIdx(0, b.keys.len, lambda i: z3.Select(kb, i) == z3.If(i < p, z3.Select(ka, i), z3.Select(ka, i + 1)), name="uq"),
        FA([k], z3.Implies(k != sess, z3.And(z3.Select(b.dom, k) == z3.Select(a.dom, k), z3.Select(b.arrs[0], k) == z3.Select(a.arrs[0], k))),
           patterns=[z3.Select(b.arrs[0], k)]))
    vacated_no_waiter = And(occ(new, net, st_id) == 0, other_stations_unchanged(old, new, net, st_id), queue_same(old, new, net),
                            new.self.swaps == old.self.swaps, new.self.never_charged == old.self.never_charged)
    admitted = And(occ(new, net, st_id) == head_ev, other_stations_unchanged(old, new, net, st_id),
                   # the first-come waiting EV is admitted, the rest keep their order
                   b.keys.len == a.keys.len - 1, Not(z3.Select(b.dom, head)),
                   AllIdx(0, b.keys.len, lambda i: z3.Select(kb, i) == z3.Select(ka, i + 1), name="ua"),
                   FA([k], z3.Implies(k != head, z3.And(z3.Select(b.dom, k) == z3.Select(a.dom, k), z3.Select(b.arrs[0], k) == z3.Select(a.arrs[0], k))),
                      patterns=[z3.Select(b.arrs[0], k)]),
                   new.self.swaps == old.self.swaps + 1, new.self.never_charged == old.self.never_charged)
    nothing = And(all_stations_unchanged(old, new), queue_same(old, new, net), new.self.swaps == old.self.swaps,
                  new.self.never_charged == old.self.never_charged)
    r = z3.Const("r!sid", RefSort)
    sid0 = [old.heap_array(f"EV._station_id#{c}", srt) for c, srt in ((0, z3.BoolSort()), (1, IdSort))]
    sid1 = [new.heap_array(f"EV._station_id#{c}", srt) for c, srt in ((0, z3.BoolSort()), (1, IdSort))]
    only_admitted = FA([r], z3.Implies(z3.Not(z3.And(z3.Not(in_queue), match, a.keys.len > 0, r == head_ev)),
                                       z3.And(*[z3.Select(x1, r) == z3.Select(x0, r) for x0, x1 in zip(sid0, sid1)])),
                       patterns=[z3.Select(sid1[0], r)])
    return [
        ("waiting_ev_leaves_the_queue_and_counts_as_never_charged", Implies(in_queue, removed_from_queue)),
        ("departure_frees_the_station_when_nobody_waits", Implies(And(Not(in_queue), match, a.keys.len == 0), vacated_no_waiter)),
        ("departure_admits_the_first_waiting_ev", Implies(And(Not(in_queue), match, a.keys.len > 0), admitted)),
        ("stale_unplug_changes_nothing", Implies(And(Not(in_queue), Not(match)), nothing)),
        ("early_unplug_unchanged", new.self.early_unplug == old.self.early_unplug),
        ("only_the_admitted_ev_learns_a_new_station", only_admitted),
    ] + [("inv_" + t, g) for t, g in inv(new, net)]


REG.contract(
    SN + "unplug", params=dict(self=Ref("StochasticNetwork", exact=True), station_id=Opt(Id), session_id=Opt(Id)),
    requires=[C("inv", lambda s: inv_all(s, s.self))],
    raises=[RaiseSpec("KeyError", lambda s: And(Not(s.self.waiting_queue.has(s.session_id)), Not(s.self._EVSEs.has(s.station_id))),
                      iff=True, unchanged=True),
            RaiseSpec("ValueError", lambda s: And(Not(s.self.waiting_queue.has(s.session_id)), s.self._EVSEs.has(s.station_id), s.session_id.isnone),
                      iff=True, unchanged=True)],
    modifies=[("EV._station_id", "ALL"), ("BaseEVSE._ev", "ALL"), ("BaseEVSE._current_pilot", "ALL"), "StochasticNetwork.waiting_queue",
              "StochasticNetwork.swaps", "StochasticNetwork.never_charged"],
    ensures=[C("C19.unplug", _unplug_post)],
)

# ---------------------------------------------------------------------------- available_evses
REG.contract(
    SN + "available_evses", params=dict(self=Ref("StochasticNetwork", exact=True)), ret=Seq(Id), modifies=[],
    requires=[C("wf", lambda s: net_wf(s, s.self))],
    ensures=[C("C19.available", lambda old, new, ret: [
        ("only_free_registered_stations", AllIdx(0, ret.len, lambda i: And(z3.Select(old.self._EVSEs._v.dom, ret[i]), occ(old, old.self, ret[i]) == 0), name="av")),
        ("empty_iff_all_occupied", (ret.len == 0) == all_stations_occupied(old, old.self)),
    ])],
)


# ---------------------------------------------------------------------------- post_charging_update
def _pcu_inv(s):
    net = s.self
    wq = waiting(net)
    evs = s.fully_charged_evs
    j = z3.Int("j!pcu")
    e = z3.Select(evs.v.arrs[0], j)
    none_e, sid_e = ev_station(s, e)
    same_queue = And(wq.dom == s.wq0_dom, wq.arrs[0] == s.wq0_val, wq.keys.len == s.wq0_len,
                     AllIdx(0, wq.keys.len, lambda i: z3.Select(wq.keys.arrs[0], i) == z3.Select(s.wq0_keys, i), name="pq"))
    return [("inv_" + t, g) for t, g in inv(s, net)] + [
        ("counters", And(s.self.early_unplug >= s.early0, s.self.never_charged >= s.never0, s.self.swaps >= s.swaps0)),
        # the EVs still to be handled are connected somewhere (so unplug cannot raise KeyError)
        ("remaining_evs_have_registered_stations", FA([j], z3.Implies(z3.And(j >= s._k, j < evs.len),
                                                                       z3.And(e != 0, s.alloc_ref(e), z3.Not(none_e), z3.Select(net._EVSEs._v.dom, sid_e))),
                                                      patterns=[z3.Select(evs.v.arrs[0], j)])),
        ("untouched_while_nobody_waits", Implies(s.wq0_len == 0, And(evse_ev_array(s) == s.ev_arr0, same_queue))),
    ]


REG.contract(
    SN + "post_charging_update", params=dict(self=Ref("StochasticNetwork", exact=True)),
    requires=[C("inv", lambda s: inv_all(s, s.self))],
    modifies=[("EV._station_id", "ALL"), ("BaseEVSE._ev", "ALL"), ("BaseEVSE._current_pilot", "ALL"), "StochasticNetwork.waiting_queue",
              "StochasticNetwork.swaps", "StochasticNetwork.never_charged", "StochasticNetwork.early_unplug"],
    ensures=[C("C19.post_charging_update", lambda old, new, ret: [("inv_" + t, g) for t, g in inv(new, old.self)] + [
        ("nothing_happens_without_early_departure", Implies(Not(old.self.early_departure),
                                                            And(all_stations_unchanged(old, new), queue_same(old, new, old.self)))),
        ("nothing_happens_when_nobody_waits", Implies(_wq(old, old.self).keys.len == 0, And(all_stations_unchanged(old, new), queue_same(old, new, old.self)))),
    ])],
    loops={0: LoopSpec(invariant=_pcu_inv,
                       modifies=[("EV._station_id", "ALL"), ("BaseEVSE._ev", "ALL"), ("BaseEVSE._current_pilot", "ALL")] +
                                [("StochasticNetwork." + f, lambda s: [s.self]) for f in ("waiting_queue", "swaps", "never_charged", "early_unplug")],
                       ghost=lambda s: dict(early0=s.self.early_unplug, never0=s.self.never_charged, swaps0=s.self.swaps,
                                            ev_arr0=evse_ev_array(s), wq0_dom=waiting(s.self).dom, wq0_val=waiting(s.self).arrs[0],
                                            wq0_keys=waiting(s.self).keys.arrs[0], wq0_len=waiting(s.self).keys.len))},
)
