"""Contracts for acnportal/algorithms  (C07 / C08: the search procedures of the sorting algorithms).

Feasibility is the *algorithm-side predicate*: FEAS(rates, infrastructure) is the value of
utils.infrastructure_constraints_feasible on a 1-D rate vector (an uninterpreted predicate over the vector's contents and the
infrastructure object; that it equals the phasor definition is C06's business and is only monitored so far)."""
import z3
from pyvc.vtypes import FA
from pyvc.contracts_api import REG, C, RaiseSpec, LoopSpec
from pyvc.dsl import And, Or, Not, Implies, If, Eq, AllIdx, AnyIdx, IsNone, With
from pyvc.vtypes import Real, Int, Bool, Id, Ref, Opt, Seq, Map, RefSort
from pyvc import vtypes as ty

U = "acnportal.algorithms.utils."
SA = "acnportal.algorithms.sorted_algorithms.SortedSchedulingAlgo."
ArrIReal = z3.ArraySort(z3.IntSort(), z3.RealSort())
FEAS = z3.Function("FEAS", ArrIReal, z3.IntSort(), RefSort, z3.BoolSort())


def infra_shapes(s, inf):
    """constraint matrix M x N, M limits, N phase angles (InfrastructureInfo._validate)"""
    cm = inf.constraint_matrix
    return And(cm.rows == inf.constraint_limits.len, cm.cols == inf.phases.len, cm.rows >= 0, cm.cols >= 0)


def feas_callable(s, sch, inf):
    """precondition of every feasibility query: consistent shapes, one rate per station"""
    return And(infra_shapes(s, inf), sch.len == inf.phases.len)


def feas(seq, infra):
    v = seq.v
    return FEAS(v.arrs[0], v.len, infra.ref)


def feas_with(seq, idx, val, infra):
    """FEAS of the vector with position idx replaced by val"""
    v = seq.v
    return FEAS(z3.Store(v.arrs[0], ty.to_z3num(idx), ty.to_real(val)), v.len, infra.ref)


# utils.infrastructure_constraints_feasible is under contract in contracts/feasibility.py (C06): its result under the default arguments is FEAS


# ---------------------------------------------------------------------------- discrete search
def _dmf_inv(s):
    al, sch, idx, inf = s.allowable_pilots, s.schedule, s.station_index, s.infrastructure
    k = s.feasible_idx
    j = z3.Int("dj!inv")
    return [
        ("index_in_range", And(k >= 0, k < al.len)),
        ("trial_is_schedule_with_level_k", And(s.new_schedule.len == sch.len,
                                               s.new_schedule.v.arrs[0] == z3.Store(sch.v.arrs[0], idx, z3.Select(al.v.arrs[0], k)))),
        ("levels_above_k_are_infeasible", FA([j], z3.Implies(z3.And(j > k, j < al.len),
                                                                    z3.Not(feas_with(sch, idx, z3.Select(al.v.arrs[0], j), inf))),
                                                    patterns=[z3.Select(al.v.arrs[0], j)])),
    ]


def _dmf_post(old, new, ret):
    al, sch, idx, inf = old.allowable_pilots, old.schedule, old.station_index, old.infrastructure
    j = z3.Int("dj!post")
    k = z3.Int("dk!post")
    is_level = z3.Exists([k], z3.And(k >= 0, k < al.len, z3.Select(al.v.arrs[0], k) == ret, feas_with(sch, idx, ret, inf),
                                     FA([j], z3.Implies(z3.And(j > k, j < al.len), z3.Not(feas_with(sch, idx, z3.Select(al.v.arrs[0], j), inf))),
                                               patterns=[z3.Select(al.v.arrs[0], j)])))
    none = z3.And(ret == 0, FA([j], z3.Implies(z3.And(j >= 0, j < al.len), z3.Not(feas_with(sch, idx, z3.Select(al.v.arrs[0], j), inf))),
                                      patterns=[z3.Select(al.v.arrs[0], j)]))
    return [
        ("C08.largest_feasible_allowable_level_or_zero_if_none", z3.Or(is_level, none)),
        ("C07.result_feasible_unless_no_level_is", Implies(Not(none), feas_with(sch, idx, ret, inf))),
    ]


REG.contract(
    SA + "discrete_max_feasible_rate",
    params=dict(station_index=Int, allowable_pilots=Seq(Real), schedule=Seq(Real), infrastructure=Ref("InfrastructureInfo")), ret=Real, modifies=[],
    requires=[C("args", lambda s: And(s.station_index >= 0, s.station_index < s.schedule.len, s.allowable_pilots.len >= 1)),
              C("shapes", lambda s: feas_callable(s, s.schedule, s.infrastructure))],
    raises=[RaiseSpec("ValueError", lambda s: Not(feas(s.schedule, s.infrastructure)), iff=True, unchanged=True)],
    ensures=[C("search", _dmf_post, props=("C07", "C08"))],
    loops={0: LoopSpec(invariant=_dmf_inv, decreases=lambda s: s.feasible_idx + 1)},
)

# ---------------------------------------------------------------------------- continuous search (bisection)
BIS = SA + "max_feasible_rate.<locals>.bisection"


def _bis_post(old, new, ret):
    sch, inf, idx = old.schedule, old.infrastructure, old._index
    w = z3.Real("bw!post")
    return [
        ("C07.result_feasible", feas_with(sch, idx, ret, inf)),
        ("within_bracket", Implies(old._lb < old._ub, And(old._lb <= ret, ret <= old._ub))),
        ("C08.infeasible_point_within_eps_above", Implies(old._lb < old._ub,
            z3.Exists([w], z3.And(ret < w, w <= ret + old.eps, z3.Not(feas_with(sch, idx, w, inf)))))),
        ("empty_bracket_returns_lower_bound", Implies(old._lb >= old._ub, Eq(ret, old._lb))),
    ]


REG.contract(
    BIS, params=dict(_index=Int, _lb=Real, _ub=Real, _schedule=Seq(Real)), ret=Real, modifies=[],
    requires=[C("bracket", lambda s: And(s._index >= 0, s._index < s.schedule.len, s.eps > 0,
                                         feas_with(s.schedule, s._index, s._lb, s.infrastructure),
                                         Implies(s._lb < s._ub, Not(feas_with(s.schedule, s._index, s._ub, s.infrastructure))))),
              C("shapes", lambda s: feas_callable(s, s.schedule, s.infrastructure))],
    ensures=[C("bisection", _bis_post, props=("C07", "C08"))],
    extra=dict(closure=dict(schedule=Seq(Real), infrastructure=Ref("InfrastructureInfo"), eps=Real)),
)


def mfr_clauses(sch, idx, inf, ub, lb, eps, ret, tag=""):
    """postcondition of max_feasible_rate as a formula over (schedule, index, bounds, result): reused by the allocation loop's step contract"""
    w = z3.Real("bw!mfr" + tag)
    ub_ok = feas_with(sch, idx, ub, inf)
    return [
        ("C07.result_feasible", feas_with(sch, idx, ret, inf)),
        ("C08.upper_bound_when_feasible", Implies(ub_ok, Eq(ret, ub))),
        ("C08.otherwise_within_eps_of_an_infeasible_point", Implies(And(Not(ub_ok), lb < ub),
            And(lb <= ret, ret <= ub, z3.Exists([w], z3.And(ret < w, w <= ret + eps, z3.Not(feas_with(sch, idx, w, inf))))))),
        ("C07.lower_bound_when_it_exceeds_an_infeasible_upper_bound", Implies(And(Not(ub_ok), lb >= ub), Eq(ret, lb))),
    ]


def _mfr_post(old, new, ret):
    return mfr_clauses(old.schedule, old.station_index, old.infrastructure, old.ub, old.lb, old.eps, ret)


REG.contract(
    SA + "max_feasible_rate",
    params=dict(station_index=Int, ub=Real, schedule=Seq(Real), infrastructure=Ref("InfrastructureInfo"), eps=Real, lb=Real), ret=Real, modifies=[],
    requires=[C("args", lambda s: And(s.station_index >= 0, s.station_index < s.schedule.len, s.eps > 0,
                                      # the caller has placed the session at its lower bound before the search
                                      Eq(s.schedule[s.station_index], s.lb))),
              C("shapes", lambda s: feas_callable(s, s.schedule, s.infrastructure))],
    raises=[RaiseSpec("ValueError", lambda s: Not(feas(s.schedule, s.infrastructure)), iff=True, unchanged=True)],
    ensures=[C("search", _mfr_post, props=("C07", "C08"))],
)


# ---------------------------------------------------------------------------- lemma: along one coordinate the feasible set is an interval
def _convexity():
    """|sum_j a_j s_j e^{i phi_j}|^2 <= L^2 reads, as a function of one station's current x with the others fixed,
    q(x) = alpha x^2 + beta x + gamma <= 0 with alpha = a_k^2 >= 0.  Hence: feasible at r, infeasible at some w > r  =>  infeasible at
    every u >= w.  With the bisection postcondition (an infeasible point within eps above the result) this is 'within eps of the
    largest feasible pilot'."""
    al, be, ga, r, w, u = z3.Reals("cx_alpha cx_beta cx_gamma cx_r cx_w cx_u")
    q = lambda x: al * x * x + be * x + ga
    return [("infeasible_beyond_an_infeasible_point_above_a_feasible_one",
             [al >= 0, q(r) <= 0, q(w) > 0, r < w, u >= w], q(u) > 0),
            ("so_the_largest_feasible_point_is_within_eps",
             [al >= 0, q(r) <= 0, q(w) > 0, r < w, w <= r + z3.Real("cx_eps"), q(u) <= 0, u >= r], u - r < z3.Real("cx_eps"))]


REG.lemma("C08.feasible_set_along_one_coordinate_is_an_interval", _convexity, props=("C08",))


# ============================================================================ the allocation loops (C07 / C08)
REG.schema("SortedSchedulingAlgo", bases=["BaseAlgorithm"], estimate_max_rate=Bool, uninterrupted_charging=Bool, allow_overcharging=Bool,
           max_rate_estimator=Ref("UpperBoundEstimatorBase", nullable=True))
REG.schema("RoundRobin", bases=["SortedSchedulingAlgo"], continuous_inc=Real)
IFACE = "acnportal.acnsim.interface.Interface."
II = "acnportal.acnsim.interface.InfrastructureInfo."

RAPF = z3.Function("RAPF", z3.RealSort(), z3.RealSort(), z3.RealSort(), z3.RealSort(), z3.RealSort())   # remaining demand in amp-periods


def net_index(net, sid):
    """position of a station in the network's registration order"""
    from pyvc import maplib
    return maplib._kpos(net._EVSEs.keys.v.arrs[0], sid)


def rap(s, iface, sess):
    """remaining demand of a session in A*periods: (requested - delivered) kWh * 1000 / V * 60 / period, V = voltage of its station"""
    sim = iface._simulator
    net = sim.network
    v = z3.Select(net._voltages.v.arrs[0], net_index(net, sess.station_id))
    return RAPF(sess.requested_energy, sess.energy_delivered, v, sim.period)


def rapf_def(a, b, v, p):
    return RAPF(a, b, v, p) == (a - b) * 1000 / v * 60 / p


def infra_wf(s, inf):
    """shape invariant of InfrastructureInfo (established by its constructor's _validate) + the station index dictionary"""
    n = inf.station_ids.len
    d = inf._station_ids_dict._v
    i = z3.Int("i!iwf")
    k = z3.Const("k!iwf", ty.IdSort)
    sid = lambda ii: z3.Select(inf.station_ids.v.arrs[0], ii)
    return And(infra_shapes(s, inf), n >= 0, inf.phases.len == n, inf.voltages.len == n, inf.max_pilot.len == n, inf.min_pilot.len == n,
               inf.allowable_pilots.len == n, inf.is_continuous.len == n,
               FA([i], z3.Implies(z3.And(i >= 0, i < n), z3.And(z3.Select(d.dom, sid(i)), z3.Select(d.arrs[0], sid(i)) == i)),
                  patterns=[sid(i)]),
               FA([k], z3.Implies(z3.Select(d.dom, k), z3.And(z3.Select(d.arrs[0], k) >= 0, z3.Select(d.arrs[0], k) < n,
                                                               sid(z3.Select(d.arrs[0], k)) == k)), patterns=[z3.Select(d.arrs[0], k)]))


def st_index(inf, sess_station):
    return z3.Select(inf._station_ids_dict._v.arrs[0], sess_station)


def sess_at(s, q, j):
    """view of the SessionInfo object at position j of a session list"""
    return s.obj(z3.Select(q.v.arrs[0], j), "SessionInfo")


def sessions_ok(s, q, inf, name="so"):
    """every listed session is a live object at a registered station with at least one period of rate bounds; one session per station"""
    j, j2 = z3.Int("j!" + name), z3.Int("j2!" + name)
    e, e2 = sess_at(s, q, j), sess_at(s, q, j2)
    return And(FA([j], z3.Implies(z3.And(j >= 0, j < q.len),
                                  z3.And(e.ref != 0, s.alloc_ref(e.ref), z3.Select(inf._station_ids_dict._v.dom, e.station_id),
                                         e.min_rates.len >= 1, e.max_rates.len >= 1)), patterns=[z3.Select(q.v.arrs[0], j)]),
               FA([j, j2], z3.Implies(z3.And(j >= 0, j < j2, j2 < q.len), e.station_id != e2.station_id),
                  patterns=[z3.MultiPattern(z3.Select(q.v.arrs[0], j), z3.Select(q.v.arrs[0], j2))]))


def iface_ok(s, iface, q, name="io"):
    """the interface sits on a well-formed network that knows every listed session's station, with non-zero voltages and period"""
    from .network import net_wf
    from .feasibility import net_shapes
    net = iface._simulator.network
    n = net._EVSEs.keys.len
    j = z3.Int("j!" + name)
    e = sess_at(s, q, j)
    return And(net_wf(s, net), net_shapes(s, net), net.max_pilot_signals.len == n, net.min_pilot_signals.len == n, net.allowable_rates.len == n,
               net.is_continuous.len == n, net._voltages.len == n, net._phase_angles.len == n, iface._simulator.period != 0,
               FA([j], z3.Implies(z3.And(j >= 0, j < q.len),
                                  z3.And(z3.Select(net._EVSEs._v.dom, e.station_id), ty.sel(net._voltages.v.arrs[0], net_index(net, e.station_id)) != 0)),
                  patterns=[z3.Select(q.v.arrs[0], j)]))


def lb_of(sess):
    m = z3.Select(sess.min_rates.v.arrs[0], 0)
    return z3.If(m > 0, m, z3.RealVal(0))


def ub_of(s, iface, sess):
    a, b = z3.Select(sess.max_rates.v.arrs[0], 0), rap(s, iface, sess)
    return z3.If(b < a, b, a)


def preprocessed(s, q, inf, iface, name="pp"):
    """what run_preprocessing leaves behind: every session's lower bound is at most its upper bound, and at a finite-rate station the lower
    bound is itself one of the station's allowable levels (0, or the station's minimum pilot under uninterrupted charging)"""
    j, m = z3.Int("j!" + name), z3.Int("m!" + name)
    e = sess_at(s, q, j)
    idx = st_index(inf, e.station_id)
    ap = inf.allowable_pilots.v
    return FA([j], z3.Implies(z3.And(j >= 0, j < q.len),
                              z3.And(lb_of(e) <= ub_of(s, iface, e),
                                     z3.Or(z3.Select(inf.is_continuous.v.arrs[0], idx),
                                           z3.Exists([m], z3.And(m >= 0, m < z3.Select(ap.arrs[1], idx), z3.Select(z3.Select(ap.arrs[0], idx), m) == lb_of(e)))))),
              patterns=[z3.Select(q.v.arrs[0], j)])


from pyvc.seqlib import SORTP, SORTQ


def is_permutation(ret, evs):
    j, j2, i = z3.Int("j!perm"), z3.Int("j2!perm"), z3.Int("i!perm")
    ra, ea = ret.v.arrs[0], evs.v.arrs[0]
    P, Q = (lambda x: SORTP(ra, x)), (lambda x: SORTQ(ra, x))
    return And(ret.len == evs.len,
               FA([j], z3.Implies(z3.And(j >= 0, j < ret.len), z3.And(P(j) >= 0, P(j) < evs.len, z3.Select(ra, j) == z3.Select(ea, P(j)), Q(P(j)) == j)),
                  patterns=[z3.Select(ra, j)]),
               FA([i], z3.Implies(z3.And(i >= 0, i < evs.len), z3.And(Q(i) >= 0, Q(i) < ret.len, P(Q(i)) == i, z3.Select(ra, Q(i)) == z3.Select(ea, i))),
                  patterns=[Q(i), z3.Select(ea, i)]))


REG.contract(
    "callable:SortedSchedulingAlgo._sort_fn", params=dict(evs=Seq(Ref("SessionInfo")), iface=Ref("Interface")), ret=Seq(Ref("SessionInfo")), modifies=[],
    assumed="the sort function is supplied by the user: it returns a permutation of the sessions it is given and writes nothing (the five sort "
            "functions of the repository are verified against this contract and their ordering separately)",
    ensures=[C("permutation", lambda old, new, ret: is_permutation(ret, old.evs))])


def zero_unless_served(s, sch, q, inf, upto, name):
    """a station whose entry is non-zero is the station of one of the first `upto` sessions of the queue"""
    i, j = z3.Int("i!" + name), z3.Int("j!" + name)
    return FA([i], z3.Implies(z3.And(i >= 0, i < sch.len, z3.Select(sch.v.arrs[0], i) != 0),
                              z3.Exists([j], z3.And(j >= 0, j < upto, st_index(inf, sess_at(s, q, j).station_id) == i))),
              patterns=[z3.Select(sch.v.arrs[0], i)])


def _sa_loop0_inv(s):
    q, inf, sch = s.queue, s.infrastructure, s.schedule
    j = z3.Int("j!l0")
    e = sess_at(s, q, j)
    return [
        ("queue_is_a_valid_session_list", sessions_ok(s, q, inf, "q0")),
        ("queue_is_preprocessed", preprocessed(s, q, inf, s.self._interface, "q0p")),
        ("queue_stations_known_to_the_network", iface_ok(s, s.self._interface, q, "q0i")),
        ("length", sch.len == inf.station_ids.len),
        ("served_sessions_at_their_lower_bound", FA([j], z3.Implies(z3.And(j >= 0, j < s._k),
                                                                   z3.Select(sch.v.arrs[0], st_index(inf, e.station_id)) == lb_of(e)),
                                                    patterns=[z3.Select(q.v.arrs[0], j)])),
        ("zero_elsewhere", zero_unless_served(s, sch, q, inf, s._k, "l0z")),
    ]


def _sa_loop1_inv(s):
    q, inf, sch = s.queue, s.infrastructure, s.schedule
    iface = s.self._interface
    j = z3.Int("j!l1")
    e = sess_at(s, q, j)
    val = z3.Select(sch.v.arrs[0], st_index(inf, e.station_id))
    lb, ub = lb_of(e), ub_of(s, iface, e)
    return [
        ("queue_is_a_valid_session_list", sessions_ok(s, q, inf, "q1")),
        ("queue_is_preprocessed", preprocessed(s, q, inf, iface, "q1p")),
        ("queue_stations_known_to_the_network", iface_ok(s, iface, q, "q1i")),
        ("length", sch.len == inf.station_ids.len),
        ("C07.feasible_after_every_grant", feas(sch, inf)),
        ("pending_sessions_at_their_lower_bound", FA([j], z3.Implies(z3.And(j >= s._k, j < q.len), val == lb), patterns=[z3.Select(q.v.arrs[0], j)])),
        ("C07.granted_within_bounds", FA([j], z3.Implies(z3.And(j >= 0, j < s._k),
                                                         z3.And(val >= lb, val <= ub)),
                                         patterns=[z3.Select(q.v.arrs[0], j)])),
        ("C07.zero_elsewhere", zero_unless_served(s, sch, q, inf, q.len, "l1z")),
        ("C07.finite_rate_entries_are_levels_or_zero", granted_levels(s, q, inf, sch, 0, q.len, "l1l")),
    ]


def _sa_step(head, end):
    """C08: what one iteration of the allocation loop does, relative to the grants already made (the schedule at the loop head)"""
    q, inf = head.queue, head.infrastructure
    iface = head.self._interface
    e = head.session
    idx = st_index(inf, e.station_id)
    sch0, sch1 = head.schedule, end.schedule
    r = z3.Select(sch1.v.arrs[0], idx)
    lb, ub = lb_of(e), ub_of(head, iface, e)
    cont = z3.Select(inf.is_continuous.v.arrs[0], idx)
    ap = inf.allowable_pilots.v
    ap_vals, ap_len = z3.Select(ap.arrs[0], idx), z3.Select(ap.arrs[1], idx)
    m, m2 = z3.Int("m!step"), z3.Int("m2!step")
    level = lambda mm: z3.Select(ap_vals, mm)
    in_range = lambda x: z3.And(lb <= x, x <= ub)
    is_level = z3.Exists([m], z3.And(m >= 0, m < ap_len, level(m) == r, in_range(r), feas_with(sch0, idx, r, inf)))
    higher_infeasible = FA([m2], z3.Implies(z3.And(m2 >= 0, m2 < ap_len, in_range(level(m2)), level(m2) > r), z3.Not(feas_with(sch0, idx, level(m2), inf))),
                           patterns=[z3.Select(ap_vals, m2)])
    none_feasible = FA([m2], z3.Implies(z3.And(m2 >= 0, m2 < ap_len, in_range(level(m2))), z3.Not(feas_with(sch0, idx, level(m2), inf))),
                       patterns=[z3.Select(ap_vals, m2)])
    return [
        ("C08.only_this_sessions_entry_changes", And(sch1.len == sch0.len, sch1.v.arrs[0] == z3.Store(sch0.v.arrs[0], idx, r))),
        ("C08.served_in_queue_order", end._k == head._k + 1),
    ] + [("continuous/" + t, Implies(cont, g)) for t, g in mfr_clauses(sch0, idx, inf, ub, lb, z3.RealVal("0.01"), r, tag="st")] + [
        ("C08.finite_rate_station_gets_its_largest_feasible_level", Implies(Not(cont), z3.Or(z3.And(is_level, higher_infeasible), z3.And(r == 0, none_feasible)))),
    ]


def lower_bound_vector_infeasible(s, q, inf):
    """the vector that puts every listed session at its lower bound and every other station at 0 is infeasible"""
    v = z3.Const("v!lbv", ArrIReal)
    j, i, j2 = z3.Int("j!lbv"), z3.Int("i!lbv"), z3.Int("j2!lbv")
    e = sess_at(s, q, j)
    n = inf.station_ids.len
    return z3.Exists([v], z3.And(
        FA([j], z3.Implies(z3.And(j >= 0, j < q.len), z3.Select(v, st_index(inf, e.station_id)) == lb_of(e)), patterns=[z3.Select(q.v.arrs[0], j)]),
        FA([i], z3.Implies(z3.And(i >= 0, i < n, z3.Select(v, i) != 0),
                           z3.Exists([j2], z3.And(j2 >= 0, j2 < q.len, st_index(inf, sess_at(s, q, j2).station_id) == i))), patterns=[z3.Select(v, i)]),
        z3.Not(FEAS(v, n, inf.ref))))


def level_or_zero(inf, idx, val):
    """val is 0 or one of the allowable pilot levels of station idx"""
    m = z3.Int("m!loz")
    ap = inf.allowable_pilots.v
    return z3.Or(val == 0, z3.Exists([m], z3.And(m >= 0, m < z3.Select(ap.arrs[1], idx), z3.Select(z3.Select(ap.arrs[0], idx), m) == val)))


def granted_levels(s, q, inf, sch, lo, hi, name):
    """sessions lo <= j < hi of the list at a finite-rate station hold 0 or one of the station's allowable levels"""
    j = z3.Int("j!" + name)
    e = sess_at(s, q, j)
    idx = st_index(inf, e.station_id)
    return FA([j], z3.Implies(z3.And(j >= lo, j < hi, z3.Not(z3.Select(inf.is_continuous.v.arrs[0], idx))),
                              level_or_zero(inf, idx, z3.Select(sch.v.arrs[0], idx))), patterns=[z3.Select(q.v.arrs[0], j)])


def _sa_post(old, new, ret):
    """C07 for one greedy allocation, stated over the sessions as they were handed in (whatever order the sort function put them in)"""
    inf = old.infrastructure
    q = old.active_sessions
    iface = old.self._interface
    j = z3.Int("j!sap")
    e = sess_at(old, q, j)
    val = z3.Select(ret.v.arrs[0], st_index(inf, e.station_id))
    return [
        ("C07.schedule_feasible", feas(ret, inf)),
        ("one_entry_per_station", ret.len == inf.station_ids.len),
        ("C07.every_session_between_its_lower_bound_and_min_of_upper_bound_and_remaining_demand",
         FA([j], z3.Implies(z3.And(j >= 0, j < q.len), z3.And(val >= lb_of(e), val <= ub_of(old, iface, e))), patterns=[z3.Select(q.v.arrs[0], j)])),
        ("C07.finite_rate_stations_get_an_allowable_level_or_zero", granted_levels(old, q, inf, ret, 0, q.len, "sapl")),
        ("C07.stations_without_a_session_get_zero", zero_unless_served(old, ret, q, inf, q.len, "sapz")),
    ]


def sorted_strictly(seqseq, idx):
    """the allowable-pilot list of station idx is strictly increasing (C13: FiniteRatesEVSE advertises a sorted duplicate-free list)"""
    vals, n = z3.Select(seqseq.arrs[0], idx), z3.Select(seqseq.arrs[1], idx)
    a, b = z3.Int("a!ss"), z3.Int("b!ss")
    return FA([a, b], z3.Implies(z3.And(a >= 0, a < b, b < n), z3.Select(vals, a) < z3.Select(vals, b)),
              patterns=[z3.MultiPattern(z3.Select(vals, a), z3.Select(vals, b))])


def all_levels_sorted(inf):
    i = z3.Int("i!als")
    ap = inf.allowable_pilots.v
    a, b = z3.Int("a!als"), z3.Int("b!als")
    vals, n = (lambda ii: z3.Select(ap.arrs[0], ii)), (lambda ii: z3.Select(ap.arrs[1], ii))
    return FA([i, a, b], z3.Implies(z3.And(i >= 0, i < ap.len, a >= 0, a < b, b < n(i)), z3.Select(vals(i), a) < z3.Select(vals(i), b)),
              patterns=[z3.MultiPattern(z3.Select(vals(i), a), z3.Select(vals(i), b))])


REG.contract(
    SA + "sorting_algorithm",
    params=dict(self=Ref("SortedSchedulingAlgo"), active_sessions=Seq(Ref("SessionInfo")), infrastructure=Ref("InfrastructureInfo")),
    ret=Seq(Real),
    modifies=[("InfrastructureInfo." + f, "FRESH") for f in ("constraint_matrix", "constraint_limits", "phases", "voltages", "constraint_ids", "station_ids",
                                                              "_station_ids_dict", "max_pilot", "min_pilot", "allowable_pilots", "is_continuous")] + ["alloc"],
    requires=[C("interface_registered", lambda s: Not(IsNone(s.self._interface))),
              C("infrastructure_wf", lambda s: infra_wf(s, s.infrastructure)),
              C("levels_sorted", lambda s: all_levels_sorted(s.infrastructure)),
              C("sessions", lambda s: sessions_ok(s, s.active_sessions, s.infrastructure)),
              C("preprocessed", lambda s: preprocessed(s, s.active_sessions, s.infrastructure, s.self._interface)),
              C("interface", lambda s: iface_ok(s, s.self._interface, s.active_sessions))],
    raises=[RaiseSpec("ValueError", lambda s: lower_bound_vector_infeasible(s, s.active_sessions, s.infrastructure), iff=False, unchanged=True)],
    ensures=[C("greedy", _sa_post, props=("C07",))],
    loops={0: LoopSpec(invariant=_sa_loop0_inv),
           1: LoopSpec(invariant=_sa_loop1_inv, step=_sa_step)},
)


# ============================================================================ the five priority orders (C08)
SORTMOD = "acnportal.algorithms.sorted_algorithms."


def net_max_pilot(s, iface, station):
    net = iface._simulator.network
    return z3.Select(net.max_pilot_signals.v.arrs[0], net_index(net, station))


def ordered_by(old, ret, key, decreasing=False):
    i, j = z3.Int("i!ord"), z3.Int("j!ord")
    ki, kj = key(sess_at(old, ret, i)), key(sess_at(old, ret, j))
    return FA([i, j], z3.Implies(z3.And(i >= 0, i < j, j < ret.len), (ki >= kj) if decreasing else (ki <= kj)),
              patterns=[z3.MultiPattern(z3.Select(ret.v.arrs[0], i), z3.Select(ret.v.arrs[0], j))])


def _sort_contract(name, key, decreasing, requires=()):
    REG.contract(
        SORTMOD + name, params=dict(evs=Seq(Ref("SessionInfo")), iface=Ref("Interface")), ret=Seq(Ref("SessionInfo")),
        modifies=[("InfrastructureInfo." + f, "FRESH") for f in ("constraint_matrix", "constraint_limits", "phases", "voltages", "constraint_ids", "station_ids",
                                                                  "_station_ids_dict", "max_pilot", "min_pilot", "allowable_pilots", "is_continuous")] + ["alloc"],
        requires=list(requires),
        # C10: the served order is a function of the priority keys, not of the order in which the sessions were listed (up to ties)
        ensures=[C("C08.permutation_of_the_sessions", lambda old, new, ret: is_permutation(ret, old.evs), props=("C08", "C10")),
                 C("C08.priority_order", lambda old, new, ret: ordered_by(old, ret, lambda e: key(old, e), decreasing), props=("C08", "C10"))])


def laxity_key(s, e):
    iface = s.iface
    return (z3.ToReal(e.estimated_departure - iface._simulator._iteration)
            - rap(s, iface, e) / net_max_pilot(s, iface, e.station_id))


def rpt_key(s, e):
    iface = s.iface
    return rap(s, iface, e) / net_max_pilot(s, iface, e.station_id)


def max_pilots_nonzero(s):
    j = z3.Int("j!mpz")
    return FA([j], z3.Implies(z3.And(j >= 0, j < s.evs.len), net_max_pilot(s, s.iface, sess_at(s, s.evs, j).station_id) != 0),
              patterns=[z3.Select(s.evs.v.arrs[0], j)])


_sort_contract("first_come_first_served", lambda s, e: e.arrival, False)
_sort_contract("last_come_first_served", lambda s, e: e.arrival, True)
_sort_contract("earliest_deadline_first", lambda s, e: e.estimated_departure, False)
_sort_contract("least_laxity_first", laxity_key, False, requires=[C("max_pilot_nonzero", max_pilots_nonzero), C("interface", lambda s: iface_ok(s, s.iface, s.evs))])
_sort_contract("largest_remaining_processing_time", rpt_key, True, requires=[C("max_pilot_nonzero", max_pilots_nonzero), C("interface", lambda s: iface_ok(s, s.iface, s.evs))])


def _appended_if(cond, seq_view, x):
    """the sequence with x appended when cond holds, unchanged otherwise"""
    v = seq_view.v
    return ty.SeqV(v.elem, [z3.If(cond, z3.Store(v.arrs[0], v.len, ty.to_z3num(x)), v.arrs[0])], z3.If(cond, v.len + 1, v.len))


# ============================================================================ preprocessing (C07)
PRE = "acnportal.algorithms.preprocessing."
UTL = "acnportal.algorithms.utils."

REG.contract(
    UTL + "remaining_amp_periods", params=dict(session=Ref("SessionInfo"), infrastructure=Ref("InfrastructureInfo"), period=Real), ret=Real, modifies=[],
    requires=[C("known_station_nonzero_voltage_and_period", lambda s: And(
        infra_wf(s, s.infrastructure), s.infrastructure._station_ids_dict.has(s.session.station_id), s.period != 0,
        ty.sel(s.infrastructure.voltages.v.arrs[0], st_index(s.infrastructure, s.session.station_id)) != 0))],
    extra=dict(returns=lambda old: (old.session.requested_energy - old.session.energy_delivered) * 1000
               / ty.sel(old.infrastructure.voltages.v.arrs[0], st_index(old.infrastructure, old.session.station_id)) * 60 / old.period,
               returns_props=("C07",)))


def threshold_of(inf, sess, period):
    """energy delivered by one period at the station's minimum pilot [kWh]"""
    idx = st_index(inf, sess.station_id)
    return ty.sel(inf.min_pilot.v.arrs[0], idx) * ty.sel(inf.voltages.v.arrs[0], idx) / (60 / period) / 1000


def _unfinished(s, inf, sess, period):
    return (sess.requested_energy - sess.energy_delivered) > threshold_of(inf, sess, period)


def _rfs_inv(s):
    """ghost: src[a] = input position of the a-th kept session; rank[i] = position among the kept sessions of input session i (-1 if dropped)"""
    inp, out, src, rank, inf = s.active_sessions, s.modified_sessions, s.src, s.rank, s.infrastructure
    a, b, i = z3.Int("a!rfs"), z3.Int("b!rfs"), z3.Int("i!rfs")
    sa = lambda x: ty.sel(src.v.arrs[0], x)
    rk = lambda x: ty.sel(rank.v.arrs[0], x)
    return [
        ("ghost_lengths", And(src.len == out.len, rank.len == s._k)),
        ("kept_sessions_are_unfinished_input_sessions", FA([a], z3.Implies(z3.And(a >= 0, a < out.len), z3.And(
            sa(a) >= 0, sa(a) < s._k, ty.sel(out.v.arrs[0], a) == ty.sel(inp.v.arrs[0], sa(a)), _unfinished(s, inf, sess_at(s, inp, sa(a)), s.period))),
            patterns=[ty.sel(out.v.arrs[0], a)])),
        ("input_order_is_kept", FA([a, b], z3.Implies(z3.And(a >= 0, a < b, b < out.len), sa(a) < sa(b)), patterns=[z3.MultiPattern(sa(a), sa(b))])),
        ("every_unfinished_session_seen_so_far_is_kept", FA([i], z3.Implies(z3.And(i >= 0, i < s._k, _unfinished(s, inf, sess_at(s, inp, i), s.period)),
            z3.And(rk(i) >= 0, rk(i) < out.len, sa(rk(i)) == i)), patterns=[rk(i)])),
    ]


def _rfs_post(old, new, ret):
    inp, inf = old.active_sessions, old.infrastructure
    a, b, i = z3.Int("a!rfp"), z3.Int("b!rfp"), z3.Int("i!rfp")
    from pyvc.symex import Unsupported as _Uns
    try:
        src, rank = new.src, new.rank
    except _Uns:
        # at a call site the callee's ghost loop variables do not exist: the clauses are taken without their proof hints
        plain = lambda g: g.goal if isinstance(g, With) else g
        class _NoGhost:
            pass
        src = rank = None
    if src is None:
        return [
            ("C07.kept_sessions_are_unfinished_input_sessions", FA([a], z3.Implies(z3.And(a >= 0, a < ret.len), z3.Exists([i], z3.And(
                i >= 0, i < inp.len, ty.sel(ret.v.arrs[0], a) == ty.sel(inp.v.arrs[0], i), _unfinished(old, inf, sess_at(old, inp, i), old.period)))),
                patterns=[ty.sel(ret.v.arrs[0], a)])),
            ("C07.every_unfinished_session_is_kept", FA([i], z3.Implies(z3.And(i >= 0, i < inp.len, _unfinished(old, inf, sess_at(old, inp, i), old.period)),
                z3.Exists([a], z3.And(a >= 0, a < ret.len, ty.sel(ret.v.arrs[0], a) == ty.sel(inp.v.arrs[0], i)))), patterns=[ty.sel(inp.v.arrs[0], i)])),
            ("still_a_valid_session_list", sessions_ok(old, ret, inf, "rfo")),
        ]
    sa = lambda x: ty.sel(src.v.arrs[0], x)
    rk = lambda x: ty.sel(rank.v.arrs[0], x)
    ghost_kept = FA([a], z3.Implies(z3.And(a >= 0, a < ret.len), z3.And(sa(a) >= 0, sa(a) < inp.len, ty.sel(ret.v.arrs[0], a) == ty.sel(inp.v.arrs[0], sa(a)),
                                                                         _unfinished(old, inf, sess_at(old, inp, sa(a)), old.period))), patterns=[ty.sel(ret.v.arrs[0], a)])
    ghost_all = FA([i], z3.Implies(z3.And(i >= 0, i < inp.len, _unfinished(old, inf, sess_at(old, inp, i), old.period)),
                                   z3.And(rk(i) >= 0, rk(i) < ret.len, ty.sel(ret.v.arrs[0], rk(i)) == ty.sel(inp.v.arrs[0], i))), patterns=[rk(i)])
    ghost_order = FA([a, b], z3.Implies(z3.And(a >= 0, a < b, b < ret.len), sa(a) < sa(b)), patterns=[z3.MultiPattern(sa(a), sa(b))])
    return [
        ("C07.kept_sessions_are_unfinished_input_sessions", With(FA([a], z3.Implies(z3.And(a >= 0, a < ret.len), z3.Exists([i], z3.And(
            i >= 0, i < inp.len, ty.sel(ret.v.arrs[0], a) == ty.sel(inp.v.arrs[0], i), _unfinished(old, inf, sess_at(old, inp, i), old.period)))),
            patterns=[ty.sel(ret.v.arrs[0], a)]), [ghost_kept])),
        ("C07.every_unfinished_session_is_kept", With(FA([i], z3.Implies(z3.And(i >= 0, i < inp.len, _unfinished(old, inf, sess_at(old, inp, i), old.period)),
            z3.Exists([a], z3.And(a >= 0, a < ret.len, ty.sel(ret.v.arrs[0], a) == ty.sel(inp.v.arrs[0], i)))), patterns=[ty.sel(inp.v.arrs[0], i)]), [ghost_all])),
        ("still_a_valid_session_list", With(sessions_ok(old, ret, inf, "rfo"), [ghost_kept, ghost_order])),
    ]


REG.contract(
    PRE + "remove_finished_sessions",
    params=dict(active_sessions=Seq(Ref("SessionInfo")), infrastructure=Ref("InfrastructureInfo"), period=Real), ret=Seq(Ref("SessionInfo")), modifies=[],
    requires=[C("infrastructure_wf", lambda s: infra_wf(s, s.infrastructure)), C("sessions", lambda s: sessions_ok(s, s.active_sessions, s.infrastructure)),
              C("period_nonzero", lambda s: s.period != 0)],
    ensures=[C("C07.remove_finished_sessions", _rfs_post)],
    loops={0: LoopSpec(invariant=_rfs_inv, locals=dict(modified_sessions=Seq(Ref("SessionInfo"))),
                       ghost=lambda s: dict(src=[], rank=[]), ghost_vars=dict(src=Seq(Int), rank=Seq(Int)),
                       ghost_step=lambda head, end: dict(
                           src=_appended_if(end.modified_sessions.len > head.modified_sessions.len, head.src, head._k),
                           rank=_appended_if(z3.BoolVal(True), head.rank, z3.If(end.modified_sessions.len > head.modified_sessions.len, head.modified_sessions.len, -1))))},
)


# ---------------------------------------------------------------------------- enforce_pilot_limit
def _mr(s, ref):
    """(value array, length) of SessionInfo.max_rates of an arbitrary session reference in state s"""
    v = s.field_of(ref, "SessionInfo", "max_rates").v
    return v.arrs[0], v.len


def _epl_inv(s):
    q, inf = s.active_sessions, s.infrastructure
    j, t, r = z3.Int("j!epl"), z3.Int("t!epl"), z3.Const("r!epl", RefSort)
    e = sess_at(s, q, j)
    new_vals, new_len = _mr(s, e.ref)
    old_vals, old_len = z3.Select(s.mr0_vals, e.ref), z3.Select(s.mr0_len, e.ref)
    cap = ty.sel(inf.max_pilot.v.arrs[0], st_index(inf, e.station_id))
    rv, rl = _mr(s, r)
    listed = z3.Exists([j], z3.And(j >= 0, j < q.len, ty.sel(q.v.arrs[0], j) == r))
    return [
        ("processed_sessions_are_capped_at_their_stations_max_pilot", FA([j, t], z3.Implies(z3.And(j >= 0, j < s._k, t >= 0, t < old_len),
            z3.And(new_len == old_len, ty.sel(new_vals, t) == z3.If(ty.sel(old_vals, t) <= cap, ty.sel(old_vals, t), cap))))),
        ("processed_lengths_kept", FA([j], z3.Implies(z3.And(j >= 0, j < s._k), new_len == old_len), patterns=[ty.sel(q.v.arrs[0], j)])),
        ("pending_sessions_untouched", FA([j], z3.Implies(z3.And(j >= s._k, j < q.len), z3.And(new_vals == old_vals, new_len == old_len)), patterns=[ty.sel(q.v.arrs[0], j)])),
        ("other_sessions_untouched", FA([r], z3.Implies(z3.Not(listed), z3.And(rv == z3.Select(s.mr0_vals, r), rl == z3.Select(s.mr0_len, r))))),
    ]


def _epl_post(old, new, ret):
    q, inf = old.active_sessions, old.infrastructure
    j, t = z3.Int("j!epp"), z3.Int("t!epp")
    e = sess_at(old, q, j)
    old_vals, old_len = _mr(old, e.ref)
    new_vals, new_len = _mr(new, e.ref)
    cap = ty.sel(inf.max_pilot.v.arrs[0], st_index(inf, e.station_id))
    return [
        ("same_list", And(ret.len == q.len, ret.v.arrs[0] == q.v.arrs[0])),
        ("C07.every_upper_bound_is_capped_at_the_stations_max_pilot", FA([j, t], z3.Implies(z3.And(j >= 0, j < q.len, t >= 0, t < old_len),
            ty.sel(new_vals, t) == z3.If(ty.sel(old_vals, t) <= cap, ty.sel(old_vals, t), cap)))),
        ("lengths_kept", FA([j], z3.Implies(z3.And(j >= 0, j < q.len), new_len == old_len), patterns=[ty.sel(q.v.arrs[0], j)])),
    ]


REG.contract(
    PRE + "enforce_pilot_limit", params=dict(active_sessions=Seq(Ref("SessionInfo")), infrastructure=Ref("InfrastructureInfo")), ret=Seq(Ref("SessionInfo")),
    requires=[C("infrastructure_wf", lambda s: infra_wf(s, s.infrastructure)), C("sessions", lambda s: sessions_ok(s, s.active_sessions, s.infrastructure))],
    modifies=[("SessionInfo.max_rates", "ALL")],
    ensures=[C("C07.enforce_pilot_limit", _epl_post)],
    loops={0: LoopSpec(invariant=_epl_inv, modifies=[("SessionInfo.max_rates", "ALL")],
                       ghost=lambda s: dict(mr0_vals=s.heap_array("SessionInfo.max_rates#0", z3.ArraySort(z3.IntSort(), z3.RealSort())),
                                            mr0_len=s.heap_array("SessionInfo.max_rates#1", z3.IntSort())))},
)


# ---------------------------------------------------------------------------- reconcile_max_and_min
def _rates(s, ref, field):
    v = s.field_of(ref, "SessionInfo", field).v
    return v.arrs[0], v.len


def _rmm_post(old, new, ret):
    t = z3.Int("t!rmm")
    mx0, n = _rates(old, old.session.ref, "max_rates")
    mn0, _ = _rates(old, old.session.ref, "min_rates")
    mx1, n1 = _rates(new, old.session.ref, "max_rates")
    mn1, m1 = _rates(new, old.session.ref, "min_rates")
    conflict = ty.sel(mx0, t) < ty.sel(mn0, t)
    return [
        ("same_session", ret.ref == old.session.ref), ("lengths_kept", And(n1 == n, m1 == n)),
        ("C07.conflicts_resolved_in_favour_of_the_chosen_bound", FA([t], z3.Implies(z3.And(t >= 0, t < n), z3.And(
            ty.sel(mx1, t) == z3.If(z3.And(conflict, old.choose_min), ty.sel(mn0, t), ty.sel(mx0, t)),
            ty.sel(mn1, t) == z3.If(z3.And(conflict, z3.Not(old.choose_min)), ty.sel(mx0, t), ty.sel(mn0, t)))))),
        ("upper_bound_never_below_lower_bound_afterwards", FA([t], z3.Implies(z3.And(t >= 0, t < n), ty.sel(mx1, t) >= ty.sel(mn1, t)))),
    ]


REG.contract(
    PRE + "reconcile_max_and_min", params=dict(session=Ref("SessionInfo"), choose_min=Bool), ret=Ref("SessionInfo"),
    requires=[C("equal_lengths", lambda s: s.session.max_rates.len == s.session.min_rates.len)],
    modifies=[("SessionInfo.max_rates", lambda s: [s.session]), ("SessionInfo.min_rates", lambda s: [s.session])],
    ensures=[C("C07.reconcile_max_and_min", _rmm_post)])


# ---------------------------------------------------------------------------- apply_upper_bound_estimate
REG.schema("UpperBoundEstimatorBase", _interface=Ref("Interface", nullable=True))
REG.contract(
    "acnportal.algorithms.upper_bound_estimator.UpperBoundEstimatorBase.get_maximum_rates",
    params=dict(self=Ref("UpperBoundEstimatorBase"), sessions=Seq(Ref("SessionInfo"))), ret=Map(Id, Real), modifies=[],
    assumed="the rate estimator is user code: it returns some mapping session id -> upper bound (A) and writes nothing the algorithm reads",
    ensures=[])

REG.contract(
    PRE + "expand_max_min_rates", params=dict(active_sessions=Seq(Ref("SessionInfo"))), ret=Seq(Ref("SessionInfo")), modifies=[],
    ensures=[C("vectors_stay_as_they_are", lambda old, new, ret: And(ret.len == old.active_sessions.len, ret.v.arrs[0] == old.active_sessions.v.arrs[0]))],
    loops={0: LoopSpec(invariant=lambda s: [])})


def _bound_for(bounds, e):
    """(has a bound, the bound) the estimator gives for this SESSION (looked up by session id)"""
    m = bounds._v if hasattr(bounds, "_v") else bounds
    return z3.Select(m.dom, e.session_id), z3.Select(m.arrs[0], e.session_id)


def _capped(old_max_t, has, b, min_t):
    c = z3.If(z3.And(has, b < old_max_t), b, old_max_t)          # min(old upper bound, estimator bound or infinity)
    return z3.If(c < min_t, min_t, c)                            # never below the session's lower bound


def _aub_inv(s):
    q = s.active_sessions
    j, t, r = z3.Int("j!aub"), z3.Int("t!aub"), z3.Const("r!aub", RefSort)
    e = sess_at(s, q, j)
    new_vals, new_len = _rates(s, e.ref, "max_rates")
    mn_vals, mn_len = _rates(s, e.ref, "min_rates")
    old_vals, old_len = z3.Select(s.mr0_vals, e.ref), z3.Select(s.mr0_len, e.ref)
    has, b = _bound_for(s.upper_bounds, e)
    rv, rl = _rates(s, r, "max_rates")
    rmv, rml = _rates(s, r, "min_rates")
    listed = z3.Exists([j], z3.And(j >= 0, j < q.len, ty.sel(q.v.arrs[0], j) == r))
    return [
        ("same_list", And(s.new_sessions.len == q.len, s.new_sessions.v.arrs[0] == q.v.arrs[0])),
        ("lower_bounds_untouched", FA([r, t], z3.And(rml == z3.Select(s.mn0_len, r),
                                                     z3.Implies(z3.And(t >= 0, t < rml), ty.sel(rmv, t) == ty.sel(z3.Select(s.mn0_vals, r), t))))),
        ("processed_sessions_capped", FA([j, t], z3.Implies(z3.And(j >= 0, j < s._k, t >= 0, t < old_len),
            ty.sel(new_vals, t) == _capped(ty.sel(old_vals, t), has, b, ty.sel(mn_vals, t))))),
        ("processed_lengths_kept", FA([j], z3.Implies(z3.And(j >= 0, j < s._k), new_len == old_len), patterns=[ty.sel(q.v.arrs[0], j)])),
        ("pending_sessions_untouched", FA([j], z3.Implies(z3.And(j >= s._k, j < q.len), z3.And(new_vals == old_vals, new_len == old_len)), patterns=[ty.sel(q.v.arrs[0], j)])),
        ("other_sessions_untouched", FA([r], z3.Implies(z3.Not(listed), z3.And(rv == z3.Select(s.mr0_vals, r), rl == z3.Select(s.mr0_len, r))))),
    ]


def _aub_post(old, new, ret):
    q = old.active_sessions
    j, t = z3.Int("j!aup"), z3.Int("t!aup")
    e = sess_at(old, q, j)
    old_vals, old_len = _rates(old, e.ref, "max_rates")
    mn_vals, _ = _rates(old, e.ref, "min_rates")
    new_vals, new_len = _rates(new, e.ref, "max_rates")
    has, b = _bound_for(new.ret_get_maximum_rates, e)
    return [
        ("same_list", And(ret.len == q.len, ret.v.arrs[0] == q.v.arrs[0])),
        ("C07.upper_bound_is_min_of_old_bound_and_the_estimators_bound_for_that_session_but_not_below_the_lower_bound",
         FA([j, t], z3.Implies(z3.And(j >= 0, j < q.len, t >= 0, t < old_len), ty.sel(new_vals, t) == _capped(ty.sel(old_vals, t), has, b, ty.sel(mn_vals, t))))),
        ("lengths_kept", FA([j], z3.Implies(z3.And(j >= 0, j < q.len), new_len == old_len), patterns=[ty.sel(q.v.arrs[0], j)])),
    ]


def _rates_aligned(s, q):
    j = z3.Int("j!ra")
    e = sess_at(s, q, j)
    return FA([j], z3.Implies(z3.And(j >= 0, j < q.len), z3.And(e.ref != 0, s.alloc_ref(e.ref), e.max_rates.len == e.min_rates.len)), patterns=[ty.sel(q.v.arrs[0], j)])


def _objects_distinct(q):
    j, j2 = z3.Int("j!od"), z3.Int("j2!od")
    return FA([j, j2], z3.Implies(z3.And(j >= 0, j < j2, j2 < q.len), ty.sel(q.v.arrs[0], j) != ty.sel(q.v.arrs[0], j2)),
              patterns=[z3.MultiPattern(ty.sel(q.v.arrs[0], j), ty.sel(q.v.arrs[0], j2))])


REG.contract(
    PRE + "apply_upper_bound_estimate", params=dict(ub_estimator=Ref("UpperBoundEstimatorBase"), active_sessions=Seq(Ref("SessionInfo"))), ret=Seq(Ref("SessionInfo")),
    requires=[C("sessions", lambda s: And(_rates_aligned(s, s.active_sessions), _objects_distinct(s.active_sessions)))],
    modifies=[("SessionInfo.max_rates", "ALL"), ("SessionInfo.min_rates", "ALL")],
    ensures=[C("C07.apply_upper_bound_estimate", _aub_post)],
    loops={0: LoopSpec(invariant=_aub_inv, modifies=[("SessionInfo.max_rates", "ALL"), ("SessionInfo.min_rates", "ALL")],
                       ghost=lambda s: dict(mr0_vals=s.heap_array("SessionInfo.max_rates#0", z3.ArraySort(z3.IntSort(), z3.RealSort())),
                                            mr0_len=s.heap_array("SessionInfo.max_rates#1", z3.IntSort()),
                                            mn0_vals=s.heap_array("SessionInfo.min_rates#0", z3.ArraySort(z3.IntSort(), z3.RealSort())),
                                            mn0_len=s.heap_array("SessionInfo.min_rates#1", z3.IntSort())))},
)


# ============================================================================ the uncontrolled baseline (C08)
UC = "acnportal.algorithms.uncontrolled_charging.UncontrolledCharging."
REG.schema("UncontrolledCharging", bases=["BaseAlgorithm"])


def _uc_spec(s, iface, q, upto, m):
    """the mapping m holds, for each of the first `upto` sessions, the one-element list [max pilot of the session's station] under the session's
    station id, and has no other key"""
    j = z3.Int("j!uc")
    k = z3.Const("k!uc", ty.IdSort)
    e = sess_at(s, q, j)
    net = iface._simulator.network
    mp = ty.sel(net.max_pilot_signals.v.arrs[0], net_index(net, e.station_id))
    mv = m._v
    return [
        ("C08.every_active_session_gets_exactly_its_stations_maximum_pilot",
         FA([j], z3.Implies(z3.And(j >= 0, j < upto), z3.And(z3.Select(mv.dom, e.station_id), z3.Select(mv.arrs[1], e.station_id) == 1,
                                                            z3.Select(z3.Select(mv.arrs[0], e.station_id), 0) == mp)), patterns=[z3.Select(q.v.arrs[0], j)])),
        ("C08.no_other_station_gets_anything",
         FA([k], z3.Implies(z3.Select(mv.dom, k), z3.Exists([j], z3.And(j >= 0, j < upto, e.station_id == k))), patterns=[z3.Select(mv.dom, k)])),
    ]


def _uc_pre(s):
    from .interface import net_info_wf
    net = s.self._interface._simulator.network
    return And(Not(IsNone(s.self._interface)), iface_ok(s, s.self._interface, s.active_sessions, "uci"), net_info_wf(s, net))


REG.contract(
    UC + "schedule", params=dict(self=Ref("UncontrolledCharging"), active_sessions=Seq(Ref("SessionInfo"))), ret=Map(Id, Seq(Real), ordered=True),
    requires=[C("interface_registered_on_a_network_that_knows_the_sessions_stations", _uc_pre),
              C("sessions_live", lambda s: AllIdx(0, s.active_sessions.len, lambda j: And(s.active_sessions[j].ref != 0, s.alloc_ref(s.active_sessions[j].ref)), name="ucl"))],
    modifies=[("InfrastructureInfo." + f, "FRESH") for f in ("constraint_matrix", "constraint_limits", "phases", "voltages", "constraint_ids", "station_ids",
                                                              "_station_ids_dict", "max_pilot", "min_pilot", "allowable_pilots", "is_continuous")] + ["alloc"],
    ensures=[C("C08.uncontrolled", lambda old, new, ret: _uc_spec(old, old.self._interface, old.active_sessions, old.active_sessions.len, ret), props=("C08",))],
    loops={0: LoopSpec(invariant=lambda s: [(t, g) for t, g in _uc_spec(s, s.self._interface, s.active_sessions, s._k, s.schedule)]
                       + [("wf", _uc_pre(s)), ("keys_wf", __import__("pyvc.maplib", fromlist=["x"]).keys_wf(s.schedule._v))],
                       locals=dict(schedule=Map(Id, Seq(Real), ordered=True)),
                       modifies=[("InfrastructureInfo." + f, "FRESH") for f in ("constraint_matrix", "constraint_limits", "phases", "voltages", "constraint_ids",
                                                                                 "station_ids", "_station_ids_dict", "max_pilot", "min_pilot", "allowable_pilots",
                                                                                 "is_continuous")] + ["alloc"])},
)


# ============================================================================ post-processing: the array schedule as a mapping (C07 / C04)
POST = "acnportal.algorithms.postprocessing."


def _fas_spec(s, inf, arr, upto, m):
    i = z3.Int("i!fas")
    k = z3.Const("k!fas", ty.IdSort)
    sid = ty.sel(inf.station_ids.v.arrs[0], i)
    mv = m._v
    return [
        ("every_station_gets_the_one_element_list_holding_its_entry",
         FA([i], z3.Implies(z3.And(i >= 0, i < upto), z3.And(z3.Select(mv.dom, sid), z3.Select(mv.arrs[1], sid) == 1,
                                                            z3.Select(z3.Select(mv.arrs[0], sid), 0) == ty.sel(arr.v.arrs[0], i))),
            patterns=[sid])),
        ("only_registered_stations_are_keys", FA([k], z3.Implies(z3.Select(mv.dom, k), z3.Exists([i], z3.And(i >= 0, i < upto, sid == k))), patterns=[z3.Select(mv.dom, k)])),
    ]


REG.contract(
    POST + "format_array_schedule", params=dict(array_schedule=Seq(Real), infrastructure=Ref("InfrastructureInfo")), ret=Map(Id, Seq(Real), ordered=True), modifies=[],
    requires=[C("infrastructure_wf", lambda s: infra_wf(s, s.infrastructure))],
    raises=[RaiseSpec("InvalidScheduleError", lambda s: s.infrastructure.station_ids.len != s.array_schedule.len, iff=True, unchanged=True)],
    ensures=[C("C07.format", lambda old, new, ret: _fas_spec(old, old.infrastructure, old.array_schedule, old.infrastructure.station_ids.len, ret), props=("C07", "C04"))],
    loops={0: LoopSpec(invariant=lambda s: _fas_spec(s, s.infrastructure, s.array_schedule, s._k, s.schedule)
                       + [("keys_wf", __import__("pyvc.maplib", fromlist=["x"]).keys_wf(s.schedule._v))],
                       locals=dict(schedule=Map(Id, Seq(Real), ordered=True)))},
)


# ============================================================================ SortedSchedulingAlgo.schedule: the composition for the plain greedy configuration (C07)
REG.contract(
    "acnportal.algorithms.base_algorithm.BaseAlgorithm.interface", params=dict(self=Ref("BaseAlgorithm")), ret=Ref("Interface"), modifies=[],
    raises=[RaiseSpec("ValueError", lambda s: IsNone(s.self._interface), iff=True, unchanged=True)],
    ensures=[C("registered_interface", lambda old, new, ret: ret.ref == old.self._interface.ref)])


def raw_sessions_ok(s, q, net):
    """what Interface.active_sessions hands to schedule(): live SessionInfo objects at registered stations, one per station, with at least one period of
    rate bounds, a non-positive first minimum rate (the constructor's default 0) and a non-negative first maximum rate"""
    j, j2 = z3.Int("j!raw"), z3.Int("j2!raw")
    e, e2 = sess_at(s, q, j), sess_at(s, q, j2)
    return And(FA([j], z3.Implies(z3.And(j >= 0, j < q.len),
                                  z3.And(e.ref != 0, s.alloc_ref(e.ref), z3.Select(net._EVSEs._v.dom, e.station_id), e.min_rates.len >= 1, e.max_rates.len >= 1,
                                         z3.Select(e.min_rates.v.arrs[0], 0) <= 0, z3.Select(e.max_rates.v.arrs[0], 0) >= 0)), patterns=[z3.Select(q.v.arrs[0], j)]),
               FA([j, j2], z3.Implies(z3.And(j >= 0, j < j2, j2 < q.len), z3.And(e.station_id != e2.station_id, e.ref != e2.ref)),
                  patterns=[z3.MultiPattern(z3.Select(q.v.arrs[0], j), z3.Select(q.v.arrs[0], j2))]))


def advertised_ok(s, sim):
    """what the network's cached station descriptions satisfy (C13: every EVSE class advertises a non-negative maximum / minimum pilot, a finite-rate
    EVSE a strictly increasing list that contains 0; established by ChargingNetwork._update_info_store): needed by the greedy allocation"""
    net = sim.network
    n = net._EVSEs.keys.len
    i, a, b, m = z3.Int("i!adv"), z3.Int("a!adv"), z3.Int("b!adv"), z3.Int("m!adv")
    ap = net.allowable_rates.v
    vals, ln = (lambda ii: z3.Select(ap.arrs[0], ii)), (lambda ii: z3.Select(ap.arrs[1], ii))
    return And(sim.period > 0,
               FA([i], z3.Implies(z3.And(i >= 0, i < n), z3.And(ty.sel(net.max_pilot_signals.v.arrs[0], i) >= 0, ty.sel(net.min_pilot_signals.v.arrs[0], i) >= 0,
                                                                ty.sel(net._voltages.v.arrs[0], i) > 0))),
               FA([i, a, b], z3.Implies(z3.And(i >= 0, i < n, a >= 0, a < b, b < ln(i)), z3.Select(vals(i), a) < z3.Select(vals(i), b)),
                  patterns=[z3.MultiPattern(z3.Select(vals(i), a), z3.Select(vals(i), b))]),
               FA([i], z3.Implies(z3.And(i >= 0, i < n, z3.Not(ty.sel(net.is_continuous.v.arrs[0], i))),
                                  z3.Exists([m], z3.And(m >= 0, m < ln(i), z3.Select(vals(i), m) == 0)))))


def rap_sign_axiom():
    """consequence of the definition of RAPF (proved as lemma C07.remaining_amp_periods_are_non_negative_for_unmet_demand): unmet demand at a positive
    voltage and period length is a non-negative number of amp-periods"""
    a, b, v, p = z3.Reals("a!rs b!rs v!rs p!rs")
    return FA([a, b, v, p], z3.Implies(z3.And(a - b >= 0, v > 0, p > 0), RAPF(a, b, v, p) >= 0), patterns=[RAPF(a, b, v, p)])


def _rap_sign_lemma():
    a, b, v, p = z3.Reals("lem_a lem_b lem_v lem_p")
    return [("from_the_definition", [rapf_def(a, b, v, p), a - b >= 0, v > 0, p > 0], RAPF(a, b, v, p) >= 0)]


REG.lemma("C07.remaining_amp_periods_are_non_negative_for_unmet_demand", _rap_sign_lemma, props=("C07",))


def _sched_post(old, new, ret):
    iface = old.self._interface
    net = iface._simulator.network
    n = net._EVSEs.keys.len
    i = z3.Int("i!sch")
    mv = ret._v
    sid = ty.sel(net._EVSEs.keys.v.arrs[0], i)
    vec = z3.Lambda([i], z3.Select(z3.Select(mv.arrs[0], sid), 0))
    j = z3.Int("j!sch")
    e = sess_at(old, old.active_sessions, j)
    has_session = z3.Exists([j], z3.And(j >= 0, j < old.active_sessions.len, e.station_id == sid))
    a = z3.Const("a!sch", ArrIReal)
    inf = z3.Const("inf!sch", RefSort)
    ii = new.obj(inf, "InfrastructureInfo")
    net_lim, net_ph = net.magnitudes, net._phase_angles
    same_table = And(ii.constraint_limits.len == net_lim.len, ii.phases.len == net_ph.len, ii.station_ids.len == n,
                     FA([i], z3.Implies(z3.And(i >= 0, i < net_lim.len), ty.sel(ii.constraint_limits.v.arrs[0], i) == ty.sel(net_lim.v.arrs[0], i))),
                     FA([i], z3.Implies(z3.And(i >= 0, i < n), z3.And(ty.sel(ii.phases.v.arrs[0], i) == ty.sel(net_ph.v.arrs[0], i),
                                                                     ty.sel(ii.station_ids.v.arrs[0], i) == sid))))
    ub = lambda: None
    vj = z3.Select(z3.Select(mv.arrs[0], e.station_id), 0)
    capped = z3.If(ty.sel(net.max_pilot_signals.v.arrs[0], net_index(net, e.station_id)) < z3.Select(old.field_of(e.ref, "SessionInfo", "max_rates").v.arrs[0], 0),
                   ty.sel(net.max_pilot_signals.v.arrs[0], net_index(net, e.station_id)), z3.Select(old.field_of(e.ref, "SessionInfo", "max_rates").v.arrs[0], 0))
    return [
        ("C07.the_pilots_are_a_vector_the_algorithm_side_check_accepts_for_a_description_equal_to_the_networks",
         z3.Exists([a, inf], z3.And(FEAS(a, n, inf), inf != 0, same_table, FA([i], z3.Implies(z3.And(i >= 0, i < n), z3.Select(z3.Select(mv.arrs[0], sid), 0) == z3.Select(a, i)))))),
        ("C07.no_session_gets_more_than_its_remaining_demand_its_rate_bound_or_its_stations_maximum_pilot",
         FA([j], z3.Implies(z3.And(j >= 0, j < old.active_sessions.len), z3.And(vj >= 0, vj <= z3.If(rap(old, iface, e) >= 0, rap(old, iface, e), z3.RealVal(0)), vj <= capped)), patterns=[z3.Select(old.active_sessions.v.arrs[0], j)])),
        ("C07.a_finite_rate_station_gets_zero_or_one_of_its_advertised_levels",
         FA([j], z3.Implies(z3.And(j >= 0, j < old.active_sessions.len, z3.Not(ty.sel(net.is_continuous.v.arrs[0], net_index(net, e.station_id)))),
                            z3.Or(vj == 0, z3.Exists([z3.Int("m!schl")], z3.And(z3.Int("m!schl") >= 0, z3.Int("m!schl") < z3.Select(net.allowable_rates.v.arrs[1], net_index(net, e.station_id)),
                                                                                z3.Select(z3.Select(net.allowable_rates.v.arrs[0], net_index(net, e.station_id)), z3.Int("m!schl")) == vj)))),
            patterns=[z3.Select(old.active_sessions.v.arrs[0], j)])),
        ("C07.one_pilot_for_every_registered_station", FA([i], z3.Implies(z3.And(i >= 0, i < n), z3.And(z3.Select(mv.dom, sid), z3.Select(mv.arrs[1], sid) == 1)), patterns=[sid])),
        ("C07.stations_without_an_active_session_get_zero", FA([i], z3.Implies(z3.And(i >= 0, i < n, z3.Not(has_session)), z3.Select(vec, i) == 0), patterns=[sid])),
    ]


REG.contract(
    SA + "schedule", params=dict(self=Ref("SortedSchedulingAlgo"), active_sessions=Seq(Ref("SessionInfo"))), ret=Map(Id, Seq(Real), ordered=True),
    requires=[C("plain_greedy_configuration", lambda s: And(Not(IsNone(s.self._interface)), Not(s.self.estimate_max_rate), Not(s.self.uninterrupted_charging),
                                                            Not(s.self.allow_overcharging))),
              C("network", lambda s: iface_ok(s, s.self._interface, s.active_sessions, "schi")),
              C("info", lambda s: __import__("contracts.interface", fromlist=["x"]).net_info_wf(s, s.self._interface._simulator.network)),
              C("sessions", lambda s: raw_sessions_ok(s, s.active_sessions, s.self._interface._simulator.network)),
              C("network_advertises_sane_values", lambda s: advertised_ok(s, s.self._interface._simulator)),
              C("definitions", lambda s: __import__("pyvc.dsl", fromlist=["Given"]).Given(z3.BoolVal(True), [rap_sign_axiom()]))],
    raises=[RaiseSpec("ValueError", lambda s: True, iff=False, unchanged=False)],
    modifies=[("InfrastructureInfo." + f, "FRESH") for f in ("constraint_matrix", "constraint_limits", "phases", "voltages", "constraint_ids", "station_ids",
                                                              "_station_ids_dict", "max_pilot", "min_pilot", "allowable_pilots", "is_continuous")]
             + [("SessionInfo.max_rates", "ALL"), ("SessionInfo.min_rates", "ALL"), "alloc", "warnings"],
    ensures=[C("C07.schedule", _sched_post, props=("C07",))],
)
