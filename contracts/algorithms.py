"""Contracts for acnportal/algorithms  (C07 / C08: the search procedures of the sorting algorithms).

Feasibility is the *algorithm-side predicate*: FEAS(rates, infrastructure) is the value of
utils.infrastructure_constraints_feasible on a 1-D rate vector (an uninterpreted predicate over the vector's contents and the
infrastructure object; that it equals the phasor definition is C06's business and is only monitored so far)."""
import z3
from pyvc.vtypes import FA
from pyvc.contracts_api import REG, C, RaiseSpec, LoopSpec
from pyvc.dsl import And, Or, Not, Implies, If, Eq, AllIdx, AnyIdx
from pyvc.vtypes import Real, Int, Bool, Id, Ref, Opt, Seq, RefSort
from pyvc import vtypes as ty

U = "acnportal.algorithms.utils."
SA = "acnportal.algorithms.sorted_algorithms.SortedSchedulingAlgo."
ArrIReal = z3.ArraySort(z3.IntSort(), z3.RealSort())
FEAS = z3.Function("FEAS", ArrIReal, z3.IntSort(), RefSort, z3.BoolSort())


def feas(seq, infra):
    v = seq.v
    return FEAS(v.arrs[0], v.len, infra.ref)


def feas_with(seq, idx, val, infra):
    """FEAS of the vector with position idx replaced by val"""
    v = seq.v
    return FEAS(z3.Store(v.arrs[0], ty.to_z3num(idx), ty.to_real(val)), v.len, infra.ref)


REG.contract(
    U + "infrastructure_constraints_feasible",
    params=dict(rates=Seq(Real), infrastructure=Ref("InfrastructureInfo")), ret=Bool, modifies=[],
    assumed="numpy body not verified here: the result is treated as the abstract algorithm-side feasibility predicate FEAS(rates, infrastructure) "
            "(a function of the vector's contents and the infrastructure object only, default tolerances)",
    ensures=[C("is_FEAS", lambda old, new, ret: ret == feas(old.rates, old.infrastructure))])


# ---------------------------------------------------------------------------- discrete search
def _dmf_inv(s):
    al, sch, idx, inf = s.allowable_pilots, s.schedule, s.station_index, s.infrastructure
    k = s.feasible_idx
    j = z3.Int("dj!inv")
    return [
        ("index_in_range", And(k >= 0, k < al.len)),
        ("trial_is_schedule_with_level_k", And(s.new_schedule.len == sch.len,
                                               s.new_schedule.v.arrs[0] == z3.Store(sch.v.arrs[0], idx, z3.Select(al.v.arrs[0], k)))),
        ("levels_above_k_are_infeasible", FA([j], z3.Implies(z3.And(j > k, j < al.len),
                                                                    z3.Not(feas_with(sch, idx, z3.Select(al.v.arrs[0], j), inf))),
                                                    patterns=[z3.Select(al.v.arrs[0], j)])),
    ]


def _dmf_post(old, new, ret):
    al, sch, idx, inf = old.allowable_pilots, old.schedule, old.station_index, old.infrastructure
    j = z3.Int("dj!post")
    k = z3.Int("dk!post")
    is_level = z3.Exists([k], z3.And(k >= 0, k < al.len, z3.Select(al.v.arrs[0], k) == ret, feas_with(sch, idx, ret, inf),
                                     FA([j], z3.Implies(z3.And(j > k, j < al.len), z3.Not(feas_with(sch, idx, z3.Select(al.v.arrs[0], j), inf))),
                                               patterns=[z3.Select(al.v.arrs[0], j)])))
    none = z3.And(ret == 0, FA([j], z3.Implies(z3.And(j >= 0, j < al.len), z3.Not(feas_with(sch, idx, z3.Select(al.v.arrs[0], j), inf))),
                                      patterns=[z3.Select(al.v.arrs[0], j)]))
    return [
        ("C08.largest_feasible_allowable_level_or_zero_if_none", z3.Or(is_level, none)),
        ("C07.result_feasible_unless_no_level_is", Implies(Not(none), feas_with(sch, idx, ret, inf))),
    ]


REG.contract(
    SA + "discrete_max_feasible_rate",
    params=dict(station_index=Int, allowable_pilots=Seq(Real), schedule=Seq(Real), infrastructure=Ref("InfrastructureInfo")), ret=Real, modifies=[],
    requires=[C("args", lambda s: And(s.station_index >= 0, s.station_index < s.schedule.len, s.allowable_pilots.len >= 1))],
    raises=[RaiseSpec("ValueError", lambda s: Not(feas(s.schedule, s.infrastructure)), iff=True, unchanged=True)],
    ensures=[C("search", _dmf_post, props=("C07", "C08"))],
    loops={0: LoopSpec(invariant=_dmf_inv, decreases=lambda s: s.feasible_idx + 1)},
)

# ---------------------------------------------------------------------------- continuous search (bisection)
BIS = SA + "max_feasible_rate.<locals>.bisection"


def _bis_post(old, new, ret):
    sch, inf, idx = old.schedule, old.infrastructure, old._index
    w = z3.Real("bw!post")
    return [
        ("C07.result_feasible", feas_with(sch, idx, ret, inf)),
        ("within_bracket", And(old._lb <= ret, ret <= old._ub)),
        ("C08.infeasible_point_within_eps_above", z3.Exists([w], z3.And(ret < w, w <= ret + old.eps, z3.Not(feas_with(sch, idx, w, inf))))),
    ]


REG.contract(
    BIS, params=dict(_index=Int, _lb=Real, _ub=Real, _schedule=Seq(Real)), ret=Real, modifies=[],
    requires=[C("bracket", lambda s: And(s._index >= 0, s._index < s.schedule.len, s._lb < s._ub, s.eps > 0,
                                         feas_with(s.schedule, s._index, s._lb, s.infrastructure),
                                         Not(feas_with(s.schedule, s._index, s._ub, s.infrastructure))))],
    ensures=[C("bisection", _bis_post, props=("C07", "C08"))],
    extra=dict(closure=dict(schedule=Seq(Real), infrastructure=Ref("InfrastructureInfo"), eps=Real)),
)


def _mfr_post(old, new, ret):
    sch, inf, idx = old.schedule, old.infrastructure, old.station_index
    w = z3.Real("bw!mfr")
    return [
        ("C07.result_feasible", feas_with(sch, idx, ret, inf)),
        ("C08.upper_bound_when_feasible", Implies(feas_with(sch, idx, old.ub, inf), Eq(ret, old.ub))),
        ("C08.otherwise_within_eps_of_an_infeasible_point", Implies(Not(feas_with(sch, idx, old.ub, inf)),
            And(old.lb <= ret, ret <= old.ub, z3.Exists([w], z3.And(ret < w, w <= ret + old.eps, z3.Not(feas_with(sch, idx, w, inf))))))),
    ]


REG.contract(
    SA + "max_feasible_rate",
    params=dict(station_index=Int, ub=Real, schedule=Seq(Real), infrastructure=Ref("InfrastructureInfo"), eps=Real, lb=Real), ret=Real, modifies=[],
    requires=[C("args", lambda s: And(s.station_index >= 0, s.station_index < s.schedule.len, s.eps > 0, s.lb <= s.ub,
                                      # the caller has placed the session at its lower bound before the search
                                      Eq(s.schedule[s.station_index], s.lb)))],
    raises=[RaiseSpec("ValueError", lambda s: Not(feas(s.schedule, s.infrastructure)), iff=True, unchanged=True)],
    ensures=[C("search", _mfr_post, props=("C07", "C08"))],
)


# ---------------------------------------------------------------------------- lemma: along one coordinate the feasible set is an interval
def _convexity():
    """|sum_j a_j s_j e^{i phi_j}|^2 <= L^2 reads, as a function of one station's current x with the others fixed,
    q(x) = alpha x^2 + beta x + gamma <= 0 with alpha = a_k^2 >= 0.  Hence: feasible at r, infeasible at some w > r  =>  infeasible at
    every u >= w.  With the bisection postcondition (an infeasible point within eps above the result) this is 'within eps of the
    largest feasible pilot'."""
    al, be, ga, r, w, u = z3.Reals("cx_alpha cx_beta cx_gamma cx_r cx_w cx_u")
    q = lambda x: al * x * x + be * x + ga
    return [("infeasible_beyond_an_infeasible_point_above_a_feasible_one",
             [al >= 0, q(r) <= 0, q(w) > 0, r < w, u >= w], q(u) > 0),
            ("so_the_largest_feasible_point_is_within_eps",
             [al >= 0, q(r) <= 0, q(w) > 0, r < w, w <= r + z3.Real("cx_eps"), q(u) <= 0, u >= r], u - r < z3.Real("cx_eps"))]


REG.lemma("C08.feasible_set_along_one_coordinate_is_an_interval", _convexity, props=("C08",))
