"""Contracts for acnportal/acnsim/analysis  (C18): every function against its first-principles definition on the recorded trajectory."""
import z3
from pyvc.vtypes import FA
from pyvc.contracts_api import REG, C, RaiseSpec, LoopSpec
from pyvc.dsl import And, Or, Not, Implies, If, Eq, IsNone, AllIdx, AnyIdx
from pyvc.vtypes import Real, Int, Bool, Id, Ref, Opt, Seq, Tup, Map, Mat, IdSort, RefSort
from pyvc import vtypes as ty
from pyvc.nplib import SUM, MAXF
from .tariff import price, schedules_wf, exactly_one, applies, sched

A = "acnportal.acnsim.analysis."


def rates(sim):
    return sim.charging_rates


def col_sum(sim, t, weight=None):
    """sum over stations i of (weight_i x) recorded rate[i][t]"""
    i = z3.Int(ty.fresh_name("ci"))
    R = rates(sim)
    term = ty.sel(R.arr, i, t) if weight is None else ty.sel(weight, i) * ty.sel(R.arr, i, t)
    return SUM(z3.Lambda([i], term), R.rows)


def _agg_current(old):
    t = z3.Int(ty.fresh_name("t"))
    return ty.SeqV(ty.Real, [z3.Lambda([t], col_sum(old.sim, t))], rates(old.sim).cols)


def _agg_power(old):
    t = z3.Int(ty.fresh_name("t"))
    return ty.SeqV(ty.Real, [z3.Lambda([t], col_sum(old.sim, t, old.sim.network._voltages.v.arrs[0]) / 1000)], rates(old.sim).cols)


REG.contract(A + "aggregate_current", params=dict(sim=Ref("Simulator")), ret=Seq(Real), modifies=[],
             extra=dict(returns=_agg_current, returns_props=("C18",)))      # station sums, one entry per recorded period
REG.contract(A + "aggregate_power", params=dict(sim=Ref("Simulator")), ret=Seq(Real), modifies=[],
             requires=[C("one_voltage_per_station", lambda s: s.sim.network._voltages.len == s.sim.charging_rates.rows)],
             extra=dict(returns=_agg_power, returns_props=("C18",)))        # station sums weighted by each station's voltage, in kW


def ev_at(s, sim, k):
    """the k-th session of the history (insertion order)"""
    h = sim.ev_history._v
    return s.obj(z3.Select(h.arrs[0], ty.sel(h.keys.arrs[0], k)), "EV")


def hist_sum(s, sim, field):
    k = z3.Int(ty.fresh_name("hk"))
    return SUM(z3.Lambda([k], getattr(ev_at(s, sim, k), field)), sim.ev_history.keys.len)


REG.contract(A + "total_energy_delivered", params=dict(sim=Ref("Simulator")), ret=Real, modifies=[],
             extra=dict(returns=lambda old: hist_sum(old, old.sim, "_energy_delivered"), returns_props=("C18",)))
REG.contract(A + "total_energy_requested", params=dict(sim=Ref("Simulator")), ret=Real, modifies=[],
             extra=dict(returns=lambda old: hist_sum(old, old.sim, "_requested_energy"), returns_props=("C18",)))
REG.contract(A + "proportion_of_energy_delivered", params=dict(sim=Ref("Simulator")), ret=Real, modifies=[],
             requires=[C("something_requested", lambda s: hist_sum(s, s.sim, "_requested_energy") != 0)],
             extra=dict(returns=lambda old: hist_sum(old, old.sim, "_energy_delivered") / hist_sum(old, old.sim, "_requested_energy"), returns_props=("C18",)))


def _met_count(old):
    from pyvc.seqlib import filter_maps
    k = z3.Int(ty.fresh_name("mk"))
    e = ev_at(old, old.sim, k)
    cond = (e._requested_energy - e._energy_delivered) < old.threshold
    _, m, _, _ = filter_maps(k, old.sim.ev_history.keys.len, cond)
    return m


REG.contract(A + "proportion_of_demands_met", params=dict(sim=Ref("Simulator"), threshold=Real), ret=Real, modifies=[],
             requires=[C("some_session", lambda s: s.sim.ev_history.keys.len > 0)],
             extra=dict(returns=lambda old: z3.ToReal(_met_count(old)) / z3.ToReal(old.sim.ev_history.keys.len), returns_props=("C18",),
                        canonical_filters=True))     # number of sessions whose remaining demand is strictly below the threshold / number of sessions


# ---------------------------------------------------------------------------- costs
def _tariff_of(s):
    """the tariff object the cost functions use: the argument, else the simulator's signal"""
    sim = s.sim
    return If(s.tariff.ref == 0, z3.Select(sim.signals._v.arrs[0], ty.id_const("tariff")), s.tariff.ref)


def _cost_wf(s):
    t = s.obj(_tariff_of(s), "TimeOfUseTariff")
    has = Or(s.tariff.ref != 0, z3.Select(s.sim.signals._v.dom, ty.id_const("tariff")))
    return And(s.sim.network._voltages.len == s.sim.charging_rates.rows,
               Implies(has, And(t.ref != 0, s.alloc_ref(t.ref), schedules_wf(s, t))))


def _no_tariff(s):
    return And(s.tariff.ref == 0, Not(z3.Select(s.sim.signals._v.dom, ty.id_const("tariff"))))


def _period_price_total(s):
    k = z3.Int("k!ect")
    sim = s.sim
    t = s.obj(_tariff_of(s), "TimeOfUseTariff")
    return FA([k], z3.Implies(z3.And(k >= 0, k < sim.charging_rates.cols), exactly_one(s, t, sim.start.theta + (sim.period * 60) * z3.ToReal(k))))


def _ec_post(old, new, ret):
    """energy cost = sum over recorded periods k of price(start + k x period) x aggregate power_k x period/60"""
    sim = old.sim
    t = old.obj(_tariff_of(old), "TimeOfUseTariff")
    T = sim.charging_rates.cols
    pr = z3.Const("ec!prices", z3.ArraySort(z3.IntSort(), z3.RealSort()))
    k = z3.Int("k!ec")
    V = sim.network._voltages.v.arrs[0]
    # witness: the price vector the tariff returned for (start, T, period) - its entries are the per-period lookups (get_tariffs' contract)
    prv = new.ret_get_tariffs
    pr = prv.v.arrs[0]
    return [("one_price_per_recorded_period", prv.len == T),
            ("price_k_is_the_lookup_at_start_plus_k_periods",
             FA([k], z3.Implies(z3.And(k >= 0, k < T), price(old, t, sim.start.theta + (sim.period * 60) * z3.ToReal(k), ty.sel(pr, k))))),
            ("cost_is_sum_of_price_times_power_times_dt", ret == SUM(z3.Lambda([k], ty.sel(pr, k) * (col_sum(sim, k, V) / 1000)), T) * (sim.period / 60))]


REG.contract(
    A + "energy_cost", params=dict(sim=Ref("Simulator"), tariff=Ref("TimeOfUseTariff", nullable=True)), ret=Real,
    modifies=["alloc", ("datetime.theta", "FRESH")],
    requires=[C("wf", _cost_wf)],
    raises=[RaiseSpec("ValueError", lambda s: Or(_no_tariff(s), Not(_period_price_total(s))), iff=True, unchanged=False)],
    ensures=[C("C17.energy_cost_is_sum_of_price_times_power_times_dt", _ec_post, props=("C17", "C18"))])


def _dc_post(old, new, ret):
    sim = old.sim
    t = old.obj(_tariff_of(old), "TimeOfUseTariff")
    T = sim.charging_rates.cols
    k, j = z3.Int("k!dc"), z3.Int("t!dc")
    V = sim.network._voltages.v.arrs[0]
    power = z3.Lambda([j], col_sum(sim, j, V) / 1000)
    rate = new.ret_get_demand_charge          # ghost witness: the demand rate the tariff returned for the start instant
    return [("rate_is_the_demand_charge_of_the_schedule_in_effect_at_the_start",
             z3.Exists([k], z3.And(k >= 0, k < t._schedule.len, applies(old, sched(old, t, k), sim.start.theta), sched(old, t, k).demand_charge == rate))),
            ("charge_is_rate_times_peak_aggregate_power", ret == rate * MAXF(power, T))]


REG.contract(
    A + "demand_charge", params=dict(sim=Ref("Simulator"), tariff=Ref("TimeOfUseTariff", nullable=True)), ret=Real,
    modifies=[],
    requires=[C("wf", _cost_wf), C("some_period_recorded", lambda s: s.sim.charging_rates.cols >= 1)],
    raises=[RaiseSpec("ValueError", lambda s: Or(_no_tariff(s), Not(exactly_one(s, s.obj(_tariff_of(s), "TimeOfUseTariff"), s.sim.start.theta))), iff=True, unchanged=True)],
    ensures=[C("C17.demand_charge_is_rate_times_peak_power", _dc_post, props=("C17", "C18"))])


# analysis.constraint_currents / current_unbalance / datetimes_array: not under contract (the name-keyed dictionary built from two selections did not
# discharge within budget); the selection and ordering itself is proved on ChargingNetwork.constraint_current (C06 / C12), the rest is monitored.




# ---------------------------------------------------------------------------- datetimes_array (C18)
def _dta_post(old, new, ret):
    """one timestamp per completed period; entry i shows the start's wall-clock reading (time zone dropped) plus i periods: entries are spaced by exactly
    period x 60 seconds, fractional periods included"""
    from pyvc.timelib import WALL
    sim = old.sim
    i = z3.Int("i!dta")
    th = lambda r: new.field_of(r, "datetime", "theta")
    return [
        ("C18.one_timestamp_per_completed_period", ret.len == sim._iteration),
        ("C18.entry_i_is_the_naive_start_plus_i_periods",
         FA([i], z3.Implies(z3.And(i >= 0, i < sim._iteration), th(z3.Select(ret.v.arrs[0], i)) == WALL(sim.start.theta) + (sim.period * z3.ToReal(i)) * 60),
            patterns=[z3.Select(ret.v.arrs[0], i)])),
        ("C18.warns_exactly_when_events_are_still_pending", new.warnings - old.warnings == If(sim.event_queue._queue.len == 0, 0, 1)),
    ]


REG.contract(
    A + "datetimes_array", params=dict(sim=Ref("Simulator")), ret=Seq(Ref("datetime")),
    requires=[C("completed_periods", lambda s: s.sim._iteration >= 0)],
    modifies=["alloc", ("datetime.theta", "FRESH"), "warnings"],
    ensures=[C("C18.datetimes_array", _dta_post, props=("C18",))],
)
