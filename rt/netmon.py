"""Function-level run-time contract monitors for the network layer: feasibility (C06), constraint bookkeeping (C12),
site models (C16), analysis functions (C18).  Bounded stand-ins; same result format as rt.drivers.sim_monitor."""
from __future__ import annotations

import cmath
import math
import random
import time
import warnings

import numpy as np

from .drivers import write_replay, harness_fault

PHASES = [30, -90, 150]


class Finding(Exception):
    """raised inside a monitor helper when the code under test returned something the contract forbids"""

    def __init__(self, tag, detail):
        super().__init__(f"{tag}: {detail}")
        self.tag, self.detail = tag, detail


def _mk_bad(prop, monitor, viol):
    def bad(tag, detail, extra=None):
        if len(viol) < 5:
            rp = write_replay(prop, f"netmon_{tag}_{len(viol)}.json", dict(kind="fn_monitor", module="rt.netmon", monitor=monitor, property=prop,
                                                                          clause=tag, detail=detail, extra=extra))
            viol.append(dict(what=f"{tag}: {detail}"[:300], replay=rp))
    return bad


def replay(doc):
    r = globals()[doc["monitor"]](dict(prop=doc["property"]))
    hit = [v for v in r["violations"] if v["what"].startswith(doc["clause"])]
    return bool(hit), "\n".join(v["what"] for v in hit) or "clause holds on this tree"


# ============================================================================ shared: random networks
def rand_network(r, n=None, m=None, allow_empty=True):
    from acnportal import acnsim
    net = acnsim.ChargingNetwork(violation_tolerance=r.choice([1e-5, 1e-5, 1e-3]), relative_tolerance=r.choice([1e-7, 1e-7, 1e-4]))
    n = n or r.randint(1, 5)
    ids = [f"st{k}" if r.random() < 0.7 else f"A{9 - k}" for k in range(n)]
    phases, volts = [], []
    for s in ids:
        ph, v = r.choice(PHASES + [0]), r.choice([208, 240])
        net.register_evse(acnsim.EVSE(s, max_rate=64), v, ph)
        phases.append(ph)
        volts.append(v)
    rows = []
    m = r.randint(0 if allow_empty else 1, 4) if m is None else m
    for c in range(m):
        members = r.sample(ids, r.randint(1, n))
        coeffs = {x: r.choice([1, 1, -1, 0.25, -0.25, 2]) for x in members}
        lim = r.choice([10, 20, 40, 100])
        net.add_constraint(acnsim.Current(dict(coeffs)), lim, name=f"c{c}")
        rows.append((f"c{c}", coeffs, lim))
    return net, ids, phases, volts, rows


def spec_currents(ids, phases, rows, S, linear=False):
    """first-principles aggregate current of every row and period (complex)"""
    T = len(S[0]) if len(S) else 0
    out = []
    for name, coeffs, lim in rows:
        cur = []
        for t in range(T):
            if linear:
                cur.append(complex(sum(abs(coeffs.get(s, 0)) * S[k][t] for k, s in enumerate(ids))))
            else:
                cur.append(sum(coeffs.get(s, 0) * S[k][t] * cmath.exp(1j * math.radians(phases[k])) for k, s in enumerate(ids)))
        out.append(cur)
    return out


def spec_feasible(ids, phases, rows, S, vt, rt, linear=False):
    cur = spec_currents(ids, phases, rows, S, linear)
    margin = float("inf")
    for (name, coeffs, lim), row in zip(rows, cur):
        for c in row:
            margin = min(margin, lim + max(vt, rt * lim) - abs(c))
    return margin >= 0, margin


# ============================================================================ C06
def feasibility_monitor(task):
    from acnportal import acnsim, algorithms
    from acnportal.acnsim.interface import Interface
    from acnportal.algorithms.utils import infrastructure_constraints_feasible
    from datetime import datetime
    prop, tier, seed0 = task["prop"], task.get("tier", "quick"), int(task.get("seed", 0))
    n = 150 if tier == "quick" else 4000
    t0 = time.time()
    evals = 0
    viol, distinct = [], set()
    bad = _mk_bad(prop, "feasibility_monitor", viol)
    for k in range(n):
        r = random.Random(seed0 * 100003 + k)
        net, ids, phases, volts, rows = rand_network(r)
        if r.random() < 0.3:
            # a rejected add_constraint (unknown station) must leave every checker usable and unchanged
            try:
                net.add_constraint(acnsim.Current({"nope": 1, ids[0]: 1}), 5, name="rejected")
            except KeyError:
                pass
        sim = acnsim.Simulator(net, None, acnsim.EventQueue(), datetime(2020, 1, 1), period=5, verbose=False)
        iface = Interface(sim)
        try:
            info = iface.infrastructure_info()
        except Exception as e:
            bad("network_usable_by_schedulers", f"infrastructure_info on a network with {len(rows)} constraints: {type(e).__name__}: {e}")
            continue
        T = r.randint(1, 4)
        base = [[r.choice([0, 0, 8, 16, 32, r.uniform(0, 40)]) for _ in range(T)] for _ in ids]
        vt_net, rt_net = net.violation_tolerance, net.relative_tolerance
        tol_cases = [(None, None), (0.0, 0.0), (1e-5, 1e-7), (0.5, 0.0)]
        mags_before = np.array(net.magnitudes, dtype=float).copy()
        for (vt, rt) in tol_cases:
            evt, ert = (vt_net if vt is None else vt), (rt_net if rt is None else rt)
            # schedules within a few tolerances of the binding limit: scale the base schedule onto the boundary
            S_list = [base]
            ok0, margin0 = spec_feasible(ids, phases, rows, base, evt, ert)
            if rows and any(any(x > 0 for x in row) for row in base):
                cur = spec_currents(ids, phases, rows, base)
                ratios = [(lim + max(evt, ert * lim)) / abs(c) for (nm, cf, lim), rw in zip(rows, cur) for c in rw if abs(c) > 1e-9]
                if ratios:
                    a = min(ratios)
                    for eps in (-3e-6, -1e-7, 1e-7, 3e-6, 1e-3):
                        S_list.append([[x * a * (1 + eps) for x in row] for row in base])
            for S in S_list:
                ok, margin = spec_feasible(ids, phases, rows, S, evt, ert)
                if abs(margin) < 1e-9 * max(1.0, max((lim for _, _, lim in rows), default=1.0)):
                    continue        # exactly on the boundary: decided by rounding, outside the real-arithmetic reading
                Sm = np.array(S, dtype=float)
                evals += 1
                distinct.add((len(ids), len(rows), T, vt, rt))
                kw = {} if vt is None else dict(violation_tolerance=vt, relative_tolerance=rt)
                got_net = bool(net.is_feasible(Sm, **kw))
                d = {s: list(map(float, S[i])) for i, s in enumerate(ids)}
                items = list(d.items()); r.shuffle(items)
                got_if = bool(iface.is_feasible(dict(items), **kw))
                got_alg = bool(infrastructure_constraints_feasible(Sm, info, violation_tolerance=evt, relative_tolerance=ert))
                if got_net != ok:
                    bad("network_check_matches_phasor_definition", f"net says {got_net}, definition {ok} (margin {margin}) tol=({vt},{rt})", dict(seed=k))
                if got_if != ok:
                    bad("interface_check_matches_phasor_definition", f"interface says {got_if}, definition {ok} (margin {margin}) tol=({vt},{rt})", dict(seed=k))
                if got_alg != ok:
                    bad("algorithm_check_matches_phasor_definition", f"algorithm side says {got_alg}, definition {ok} (margin {margin}) tol=({evt},{ert})", dict(seed=k))
                # linear relaxation is conservative for non-negative schedules
                lin_net = bool(net.is_feasible(Sm, linear=True, **kw))
                lin_alg = bool(infrastructure_constraints_feasible(Sm, info, linear=True, violation_tolerance=evt, relative_tolerance=ert))
                okl, ml = spec_feasible(ids, phases, rows, S, evt, ert, linear=True)
                if (lin_net and not ok) or (lin_alg and not ok):
                    bad("linear_relaxation_is_conservative", f"linear accepts (net {lin_net}, alg {lin_alg}) what the phase-aware check rejects (margin {margin})", dict(seed=k))
                if abs(ml) > 1e-9 and (lin_net != okl or lin_alg != okl):
                    bad("linear_check_is_sum_of_abs_coefficients", f"net {lin_net} alg {lin_alg} definition {okl} (margin {ml})", dict(seed=k))
        if not np.array_equal(mags_before, np.array(net.magnitudes, dtype=float)):
            bad("feasibility_queries_do_not_change_the_network", f"limits {mags_before} -> {np.array(net.magnitudes)}", dict(seed=k))
        if not rows:
            for S in ([[1e9] * 2 for _ in ids],):
                if not (net.is_feasible(np.array(S)) and iface.is_feasible({s: S[i] for i, s in enumerate(ids)}) and infrastructure_constraints_feasible(np.array(S), info)):
                    bad("constraint_free_network_accepts_everything", "rejected a schedule without constraints")
        if not iface.is_feasible({}):
            bad("empty_schedule_is_feasible", "")
        if rows:
            # the description handed to schedulers follows the network: re-rate the last constraint under the SAME name after the interface has
            # been queried, then the algorithm side (fresh infrastructure_info) must agree with the network on a schedule between the two limits
            nm, cf, lim = rows[-1]
            if lim > 1e-6 and any(abs(v) > 1e-9 for v in cf.values()):
                new_lim = lim * 0.5
                net.update_constraint(nm, acnsim.Current(dict(cf)), new_lim)
                info2 = iface.infrastructure_info()
                rows2 = rows[:-1] + [(nm, cf, new_lim)]
                S1 = [[r.uniform(0, 40)] for _ in ids]
                cur = spec_currents(ids, phases, [rows2[-1]], S1)[0][0]
                if abs(cur) > 1e-9:
                    a = 0.75 * lim / abs(cur)           # aggregate current on the re-rated link: between the new and the old limit
                    S2 = [[x[0] * a] for x in S1]
                    ok2, margin2 = spec_feasible(ids, phases, rows2, S2, net.violation_tolerance, net.relative_tolerance)
                    if abs(margin2) > 1e-9:
                        evals += 1
                        g_net = bool(net.is_feasible(np.array(S2, dtype=float)))
                        g_alg = bool(infrastructure_constraints_feasible(np.array(S2, dtype=float), info2,
                                                                         violation_tolerance=net.violation_tolerance, relative_tolerance=net.relative_tolerance))
                        lims2 = [float(x) for x in info2.constraint_limits]
                        if g_net != ok2 or g_alg != ok2 or abs(lims2[-1] - new_lim) > 1e-12:
                            bad("checkers_agree_after_a_constraint_is_re_rated", f"net {g_net} algorithm side {g_alg} definition {ok2}; limits seen by schedulers {lims2}, "
                                f"network {[float(x) for x in net.magnitudes]}", dict(seed=k))
    return dict(label=task.get("label", "feasibility_monitor"),
                bound=f"{n} seeded networks (1-5 stations, phases 30/-90/150/0, 0-4 mixed-sign constraints incl. fractional coefficients, network tolerances varied, "
                      f"a rejected add_constraint beforehand in 30%), 1-4 periods, schedules scaled to (1 +- {{1e-7, 3e-6, 1e-3}}) x the binding limit, "
                      f"explicit tolerances None / 0 / defaults / 0.5",
                evaluations=evals, distinct_nontrivial=len(distinct), violations=viol, wall_s=round(time.time() - t0, 2))


# ============================================================================ C12
def constraint_monitor(task):
    from acnportal import acnsim
    from acnportal.acnsim.network.charging_network import EVSERegistrationError
    prop, tier, seed0 = task["prop"], task.get("tier", "quick"), int(task.get("seed", 0))
    n = 200 if tier == "quick" else 5000
    t0 = time.time()
    evals = 0
    viol, distinct = [], set()
    bad = _mk_bad(prop, "constraint_monitor", viol)

    def rand_current(r, ids, depth=0):
        """a Current built with the algebra, together with its coefficient map"""
        C = acnsim.Current
        kind = r.choice(["dict", "list", "str", "sum", "diff", "mul", "rmul"]) if depth < 3 else r.choice(["dict", "list", "str"])
        if kind == "dict":
            m = {s: r.choice([1, -1, 0.5, 2]) for s in r.sample(ids, r.randint(1, len(ids)))}
            return C(dict(m)), dict(m)
        if kind == "list":
            l = r.sample(ids, r.randint(1, len(ids)))
            return C(list(l)), {s: 1 for s in l}
        if kind == "str":
            s = r.choice(ids)
            return C(s), {s: 1}
        a, ma = rand_current(r, ids, depth + 1)
        if kind in ("mul", "rmul"):
            c = r.choice([2, 0.25, -1, 3])
            out = a * c if kind == "mul" else c * a
            if not isinstance(out, C):
                raise Finding("algebra_results_are_currents", f"scalar multiple of a Current is a {type(out).__name__}")
            return out, {s: v * c for s, v in ma.items()}
        b, mb = rand_current(r, ids, depth + 1)
        sgn = 1 if kind == "sum" else -1
        out = (a + b) if kind == "sum" else (a - b)
        if not isinstance(out, C):
            raise Finding("algebra_results_are_currents", f"{'sum' if sgn > 0 else 'difference'} of two Currents is a {type(out).__name__}")
        keys = list(ma) + [s for s in mb if s not in ma]
        return out, {s: ma.get(s, 0) + sgn * mb.get(s, 0) for s in keys}

    for k in range(n):
        r = random.Random(seed0 * 100003 + k)
        net = acnsim.ChargingNetwork()
        ids = []
        for j in range(r.randint(1, 5)):
            s = f"s{j}" if r.random() < 0.6 else f"Z{9 - j}"
            net.register_evse(acnsim.EVSE(s, max_rate=32), r.choice([208, 240]), r.choice(PHASES))
            ids.append(s)
        model = []            # rows: [name, coeff map, limit]
        ops = []
        for step in range(r.randint(2, 12)):
            op = r.choice(["add", "add", "add_unknown", "remove", "update", "register", "query", "dup"])
            ops.append(op)
            evals += 1
            try:
                if op == "add" or (op == "dup" and not model):
                    cur, m = rand_current(r, ids)
                    if not isinstance(cur, acnsim.Current):
                        bad("algebra_results_are_currents", f"{type(cur).__name__}")
                        break
                    got = {s: float(cur[s]) for s in cur.index}
                    if any(abs(got.get(s, 0) - float(v)) > 1e-12 for s, v in m.items()) or set(got) != set(m):
                        bad("current_algebra_is_pointwise_with_absent_as_zero", f"got {got} want {m}")
                    name = r.choice([None, f"n{step}"])
                    lim = r.choice([10, 40, 99.5])
                    nm = name if name is not None else f"_const_{len(model)}"
                    if nm in [x[0] for x in model]:
                        nm += "_v2"
                    with warnings.catch_warnings():
                        warnings.simplefilter("ignore")
                        net.add_constraint(cur, lim, name=name)
                    model.append([nm, m, lim])
                elif op == "dup":
                    cur, m = rand_current(r, ids)
                    nm0 = model[0][0]
                    with warnings.catch_warnings():
                        warnings.simplefilter("ignore")
                        net.add_constraint(cur, 7, name=nm0)
                    model.append([nm0 + "_v2", m, 7])
                elif op == "add_unknown":
                    before = _net_digest(net)
                    try:
                        net.add_constraint(acnsim.Current({ids[0]: 1, "ghost": 2}), 5, name=f"bad{step}")
                        bad("unknown_station_rejected", "no KeyError")
                    except KeyError:
                        pass
                    if _net_digest(net) != before:
                        bad("rejected_constraint_leaves_network_unchanged", f"{before} -> {_net_digest(net)}")
                elif op == "remove" and model:
                    i = r.randrange(len(model))
                    nm = model[i][0]
                    net.remove_constraint(nm)
                    j = [x[0] for x in model].index(nm)
                    model.pop(j)
                elif op == "update" and model:
                    i = r.randrange(len(model))
                    nm = model[i][0]
                    cur, m = rand_current(r, ids)
                    new_name = r.choice([None, f"u{step}"])
                    lim = r.choice([15, 55])
                    j = [x[0] for x in model].index(nm)
                    model.pop(j)
                    nn = new_name if new_name is not None else nm
                    if nn in [x[0] for x in model]:
                        nn += "_v2"
                    with warnings.catch_warnings():
                        warnings.simplefilter("ignore")
                        net.update_constraint(nm, cur, lim, new_name=new_name)
                    model.append([nn, m, lim])
                elif op == "register":
                    s = f"late{step}"
                    if net.constraint_matrix is not None:
                        try:
                            net.register_evse(acnsim.EVSE(s), 208, 30)
                            bad("no_registration_once_constraints_exist", "register_evse succeeded")
                        except EVSERegistrationError:
                            pass
                    else:
                        net.register_evse(acnsim.EVSE(s, max_rate=32), 208, r.choice(PHASES))
                        ids.append(s)
                elif op == "query" and model:
                    T = r.randint(1, 4)
                    S = [[r.uniform(0, 32) for _ in range(T)] for _ in ids]
                    names = [x[0] for x in model]
                    sub = r.sample(names, r.randint(1, len(names)))
                    tix = r.sample(range(T), r.randint(1, T))
                    phases = [float(net._phase_angles[i]) for i in range(len(ids))]
                    rows = [(a, b, c) for a, b, c in model]
                    full = spec_currents(ids, phases, rows, S)
                    got = net.constraint_current(np.array(S), constraints=sub, time_indices=tix)
                    want = [[full[i][t] for t in tix] for i, (nm, _, _) in enumerate(rows) if nm in sub]
                    if got.shape != (len(want), len(tix)) or not np.allclose(got, np.array(want), rtol=1e-9, atol=1e-9):
                        bad("subset_query_returns_rows_in_network_order_and_requested_columns", f"subset {sub} (network order {names}) columns {tix}")
            except Finding as f:
                bad(f.tag, f.detail)
                break
            except Exception as e:
                if harness_fault(e):
                    raise
                bad("no_exception", f"op {op}: {type(e).__name__}: {e}")
                break
            # Align after every operation
            why = _aligned(net, ids, model)
            if why:
                bad("matrix_limits_names_aligned", f"after {ops}: {why}")
                break
        distinct.add(tuple(ops))
    return dict(label=task.get("label", "constraint_monitor"),
                bound=f"{n} seeded sequences (2-12 steps) of add / add with duplicate name / add with unknown station / remove / update / register / subset query on "
                      f"1-5 stations, Currents built by nested +, -, scalar * (depth <= 3) from dict / list / str",
                evaluations=evals, distinct_nontrivial=len(distinct), violations=viol, wall_s=round(time.time() - t0, 2))


def _net_digest(net):
    return (None if net.constraint_matrix is None else np.array(net.constraint_matrix, dtype=float).tolist(), np.array(net.magnitudes, dtype=float).tolist(),
            list(net.constraint_index), list(net.station_ids))


def _aligned(net, ids, model):
    if list(net.station_ids) != ids:
        return f"station order {net.station_ids} != registration order {ids}"
    if list(net.constraint_index) != [x[0] for x in model]:
        return f"names {net.constraint_index} != {[x[0] for x in model]}"
    mags = [float(x) for x in net.magnitudes]
    if mags != [float(x[2]) for x in model]:
        return f"limits {mags} != {[x[2] for x in model]}"
    if net.constraint_matrix is None:
        return None if not model else "matrix is None but constraints exist"
    M = np.array(net.constraint_matrix, dtype=float)
    if M.shape != (len(model), len(ids)):
        return f"shape {M.shape} != {(len(model), len(ids))}"
    for i, (nm, m, lim) in enumerate(model):
        for j, s in enumerate(ids):
            w = float(m.get(s, 0))
            if not (abs(M[i, j] - w) <= 1e-12 * max(1, abs(w))):
                return f"row {nm} station {s}: matrix {M[i, j]} coefficient {w}"
    return None


# ============================================================================ C18
def analysis_monitor(task):
    from datetime import timedelta
    from acnportal.acnsim import analysis
    from . import scen
    prop, tier, seed0 = task["prop"], task.get("tier", "quick"), int(task.get("seed", 0))
    n = 60 if tier == "quick" else 1500
    t0 = time.time()
    evals = 0
    viol, distinct = [], set()
    bad = _mk_bad(prop, "analysis_monitor", viol)
    for k in range(n):
        r = random.Random(seed0 * 100003 + k)
        scn = scen.gen(seed0 * 1000 + k, scheduler=dict(kind=r.choice(["uncontrolled", "scripted"]), seed=k))
        while len(scn["constraints"]) < 2 and len(scn["stations"]) >= 1:
            ids_ = [s["id"] for s in scn["stations"]]
            scn["constraints"].append(dict(name=f"x{len(scn['constraints'])}", coeffs={i: r.choice([1, -1, 0.5]) for i in r.sample(ids_, r.randint(1, len(ids_)))}, limit=500))
        with warnings.catch_warnings():
            warnings.simplefilter("ignore")
            sim = scen.build(scn)
            sim.run()
        net = sim.network
        ids = list(net.station_ids)
        T = sim._iteration
        R = np.array(sim.charging_rates, dtype=float)
        W = R.shape[1]
        volts = [float(v) for v in net._voltages]
        phases = [float(p) for p in net._phase_angles]
        evals += 1
        distinct.add((len(ids), T, len(scn["constraints"])))
        ac = analysis.aggregate_current(sim)
        if not np.allclose(ac, [sum(R[i, t] for i in range(len(ids))) for t in range(W)], rtol=1e-12, atol=1e-12):
            bad("aggregate_current_is_station_sum", "")
        ap = analysis.aggregate_power(sim)
        if not np.allclose(ap, [sum(volts[i] * R[i, t] / 1000 for i in range(len(ids))) for t in range(W)], rtol=1e-12, atol=1e-12):
            bad("aggregate_power_is_voltage_weighted_sum", "")
        rows = [(c["name"], c["coeffs"], c["limit"]) for c in scn["constraints"]]
        full = spec_currents(ids, phases, rows, R.tolist())
        names = [c["name"] for c in scn["constraints"]]
        for trial in range(3):
            req = r.sample(names, r.randint(1, len(names))) + (["not-a-constraint"] if r.random() < 0.3 else [])
            r.shuffle(req)
            for flag in (False, True):
                got = analysis.constraint_currents(sim, return_magnitudes=flag, constraint_ids=req)
                evals += 1
                if set(got.keys()) != set(x for x in req if x in names):
                    bad("constraint_currents_keys_are_the_requested_existing_names", f"requested {req}: keys {list(got)}")
                    continue
                for nm in got:
                    want = np.array(full[names.index(nm)])
                    g = np.array(got[nm])
                    # flag semantics as implemented (False -> magnitudes, True -> complex), values from first principles
                    ok = np.allclose(g, np.abs(want), rtol=1e-9, atol=1e-9) if not flag else np.allclose(g, want, rtol=1e-9, atol=1e-9)
                    if not ok:
                        bad("constraint_currents_under_the_right_names", f"requested order {req} (network order {names}): values under '{nm}' are not that constraint's currents")
        got_all = analysis.constraint_currents(sim)
        if list(got_all.keys()) != names:
            bad("constraint_currents_default_is_all", f"{list(got_all)}")
        evs = list(sim.ev_history.values())
        td = sum(e.energy_delivered for e in evs)
        tr = sum(e.requested_energy for e in evs)
        if abs(analysis.total_energy_delivered(sim) - td) > 1e-9 or abs(analysis.total_energy_requested(sim) - tr) > 1e-9:
            bad("energy_totals", "")
        if tr > 0 and abs(analysis.proportion_of_energy_delivered(sim) - td / tr) > 1e-12:
            bad("proportion_of_energy_delivered", "")
        for th in (0.1, 0.0, 1e-9, 5.0) + tuple(e.requested_energy - e.energy_delivered for e in evs[:2]):
            want = sum(1 for e in evs if e.requested_energy - e.energy_delivered < th) / len(evs)
            evals += 1
            if abs(analysis.proportion_of_demands_met(sim, threshold=th) - want) > 1e-12:
                bad("proportion_of_demands_met_counts_strictly_below_threshold", f"threshold {th}: {analysis.proportion_of_demands_met(sim, threshold=th)} vs {want}")
        if len(names) >= 3:
            tri = r.sample(names, 3)
            mags = np.array([np.abs(np.array(full[names.index(x)])) for x in tri])
            with np.errstate(divide="ignore", invalid="ignore"):
                mean = mags.mean(axis=0)
                want = (mags.max(axis=0) - mean) / mean
                got = analysis.current_unbalance(sim, tri, unbalance_type="NEMA")
            if not np.allclose(np.nan_to_num(got, nan=-1, posinf=-2), np.nan_to_num(want, nan=-1, posinf=-2), rtol=1e-9, atol=1e-9):
                bad("nema_unbalance", f"{tri}")
        dts = analysis.datetimes_array(sim)
        want = [np.datetime64(sim.start.replace(tzinfo=None)) + np.timedelta64(int(round(sim.period * 60 * i * 1000)), "ms") for i in range(T)]
        if len(dts) != T or any(abs((np.datetime64(a) - b) / np.timedelta64(1, "ms")) > 1 for a, b in zip(dts, want)):
            bad("datetimes_one_per_period_spaced_by_period", f"len {len(dts)} iteration {T}")
    return dict(label=task.get("label", "analysis_monitor"),
                bound=f"{n} completed seeded simulations (heterogeneous voltages, >= 2 three-phase constraints), every subset/ordering trial of requested constraint ids "
                      f"incl. unknown names, thresholds incl. exact remaining demands",
                evaluations=evals, distinct_nontrivial=len(distinct), violations=viol, wall_s=round(time.time() - t0, 2))


# ============================================================================ C16: site models
CC_POD = ["CA-322", "CA-493", "CA-496", "CA-320", "CA-495", "CA-321", "CA-323", "CA-494"]
AV_POD = ["CA-324", "CA-325", "CA-326", "CA-327", "CA-489", "CA-490", "CA-491", "CA-492"]


def site_topology(site, ids):
    """Physical description used as the oracle (from the site documentation, not from the constraint matrix):
    transformers = {name: (stations behind it, capacity parameter name)}, single-phase-group pods and three-line panels with ratings."""
    if site == "caltech":
        return dict(transformers={"T": (list(ids), "transformer_cap")}, pods={"CC pod": (CC_POD, 80), "AV pod": (AV_POD, 80)}, panels={})
    if site == "office001":
        return dict(transformers={"T": (list(ids), "transformer_cap")}, pods={}, panels={})
    f1 = [s for s in ids if s.startswith("AG-1F")]
    f3 = [s for s in ids if s.startswith("AG-3F")]
    f4 = [s for s in ids if s.startswith("AG-4F")]
    sp1 = [f"AG-1F{k}" for k in (11, 12, 13, 14)]
    sp2 = [f"AG-1F0{k}" for k in (1, 2, 3, 4, 5, 6)]
    return dict(transformers={"T1": (f1, "first_transformer_cap"), "T34": (f3 + f4, "third_fourth_transformer_cap")}, pods={},
                panels={"1F SP1": (sp1, 100), "1F SP2": (sp2, 100), "3F panel": (f3, 225), "4F panel": (f4, 225)})


def line_currents(group, ids, phases, s):
    """|I_a|, |I_b|, |I_c| of a delta-connected group: I_a = I_ab - I_ca, I_b = I_bc - I_ab, I_c = I_ca - I_bc (phasors)"""
    def ph(angle):
        return sum(s[ids.index(x)] * cmath.exp(1j * math.radians(angle)) for x in group if phases[ids.index(x)] == angle)
    ab, bc, ca = ph(30), ph(-90), ph(150)
    return abs(ab - ca), abs(bc - ab), abs(ca - bc)


def sites_monitor(task):
    from acnportal.acnsim import sites
    prop, tier, seed0 = task["prop"], task.get("tier", "quick"), int(task.get("seed", 0))
    t0 = time.time()
    evals = 0
    viol, distinct = [], set()
    bad = _mk_bad(prop, "sites_monitor", viol)
    r = random.Random(seed0)
    builders = {
        "caltech": lambda basic, caps: sites.caltech_acn(basic_evse=basic, transformer_cap=caps[0]),
        "jpl": lambda basic, caps: sites.jpl_acn(basic_evse=basic, first_transformer_cap=caps[0], third_fourth_transformer_cap=caps[1]),
        "office001": lambda basic, caps: sites.office001_acn(basic_evse=basic, transformer_cap=caps[0]),
    }
    cap_sets = {"caltech": [(150,), (80,), (300,)], "jpl": [(45, 150), (30, 75), (100, 400)], "office001": [(150,), (40,)]}
    n_dir = 25 if tier == "quick" else 400
    for site, mk in builders.items():
        for basic in (False, True):
            for caps in (cap_sets[site] if tier != "quick" else cap_sets[site][:2]):
                with warnings.catch_warnings():
                    warnings.simplefilter("ignore")
                    import io, contextlib
                    with contextlib.redirect_stdout(io.StringIO()):
                        net = mk(basic, caps)
                ids = list(net.station_ids)
                phases = [float(p) for p in net._phase_angles]
                maxr = [float(x) for x in net.max_pilot_signals]
                topo = site_topology(site, ids)
                capval = dict(zip([v[1] for v in topo["transformers"].values()], caps))
                evals += 1
                if any(p not in (30.0, -90.0, 150.0) for p in phases):
                    bad("every_evse_has_a_line_to_line_phase_angle", f"{site}: {sorted(set(phases))}")
                covered = set(x for grp, _ in topo["transformers"].values() for x in grp)
                if covered != set(ids):
                    bad("every_evse_is_behind_a_transformer", f"{site}: {sorted(set(ids) - covered)}")
                A = np.array(net.constraint_matrix, dtype=float)
                names = list(net.constraint_index)
                sec = [i for i, nm in enumerate(names) if "Secondary" in nm]
                for j, s_ in enumerate(ids):
                    if not any(abs(A[i, j]) > 0 for i in sec):
                        bad("every_evse_is_covered_by_a_transformer_constraint", f"{site}: {s_}")
                mags_before = np.array(net.magnitudes, dtype=float).copy()
                # directions: balanced, one per constraint row, per phase group of every transformer / panel / pod, random
                dirs = [[1.0] * len(ids)]
                for i in range(A.shape[0]):
                    dirs.append([1.0 if abs(A[i, j]) > 0 else 0.0 for j in range(len(ids))])
                    dirs.append([1.0 if abs(A[i, j]) > 0 else 0.15 for j in range(len(ids))])
                groups = list(topo["transformers"].values()) + [(g, None) for g, _ in topo["panels"].values()] + [(g, None) for g, _ in topo["pods"].values()]
                for grp, _ in groups:
                    for ang in PHASES:
                        dirs.append([1.0 if (x in grp and phases[j] == ang) else 0.0 for j, x in enumerate(ids)])
                        dirs.append([1.0 if (x in grp and phases[j] != ang) else 0.0 for j, x in enumerate(ids)])
                    dirs.append([1.0 if x in grp else 0.0 for x in ids])
                for _ in range(n_dir):
                    dirs.append([r.choice([0, 0, 1, r.random()]) for _ in ids])
                for d in dirs:
                    if not any(d):
                        continue
                    top = [d[j] * maxr[j] for j in range(len(ids))]
                    lo, hi = 0.0, 1.0
                    if net.is_feasible(np.array(top).reshape(-1, 1)):
                        lo = 1.0
                    else:
                        for _ in range(30):
                            mid = (lo + hi) / 2
                            if net.is_feasible(np.array([x * mid for x in top]).reshape(-1, 1)):
                                lo = mid
                            else:
                                hi = mid
                    s = [x * lo for x in top]
                    evals += 1
                    distinct.add((site, basic, caps, tuple(round(x, 3) for x in d)))
                    for tn, (grp, capname) in topo["transformers"].items():
                        cap = capval[capname]
                        L = cap * 1000 / 3 / 120
                        tau = max(net.violation_tolerance, net.relative_tolerance * L)
                        power = sum(120 * math.sqrt(3) * s[ids.index(x)] for x in grp)
                        if power > cap * 1000 + 360 * tau + 1e-6 * cap * 1000:
                            bad("feasible_schedule_keeps_transformer_power_within_rating", f"{site} basic={basic} {tn} cap {cap} kW: feasible schedule draws {power / 1000:.3f} kW")
                        ia, ib, ic = line_currents(grp, ids, phases, s)
                        if max(ia, ib, ic) > L + tau + 1e-6 * L:
                            bad("feasible_schedule_keeps_transformer_line_currents_within_rating", f"{site} {tn}: {max(ia, ib, ic):.3f} A > {L:.3f} A")
                    for pn, (grp, rating) in topo["panels"].items():
                        ia, ib, ic = line_currents(grp, ids, phases, s)
                        if max(ia, ib, ic) > rating * (1 + 1e-6) + 1e-4:
                            bad("feasible_schedule_keeps_panel_within_rating", f"{site} {pn}: line currents {ia:.2f}/{ib:.2f}/{ic:.2f} A > {rating} A")
                    for pn, (grp, rating) in topo["pods"].items():
                        tot = sum(s[ids.index(x)] for x in grp)
                        if tot > rating * (1 + 1e-6) + 1e-4:
                            bad("feasible_schedule_keeps_pod_within_rating", f"{site} {pn}: {tot:.2f} A > {rating} A")
                if not np.array_equal(mags_before, np.array(net.magnitudes, dtype=float)):
                    bad("feasibility_queries_do_not_change_the_limits", f"{site}: limits drifted by up to {np.max(np.abs(np.array(net.magnitudes) - mags_before))}")
    return dict(label=task.get("label", "sites_monitor"),
                bound=f"3 sites x basic/real EVSEs x 2-3 capacity settings; per network: the balanced direction, two directions per constraint row, the phase groups of every "
                      f"transformer / panel / pod, {n_dir} random directions - each scaled by bisection to the largest multiple the real network reports feasible",
                evaluations=evals, distinct_nontrivial=len(distinct), violations=viol, wall_s=round(time.time() - t0, 2))
