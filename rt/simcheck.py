"""Run-time contract monitor for whole simulations (the labelled *bounded* stand-in, DESIGN 4.4).

`observe(sim)` wraps the real methods (class attributes are monkey-patched for the duration of the run, so bound
references resolve through the wrappers; evaluation counts are recorded), runs the real `Simulator.run()` and then
evaluates the simulation-level clauses of C01-C05 natively.  Every clause is returned as (property, tag, ok, detail).
Nothing here is counted as proved."""
from __future__ import annotations

import copy
import math
import warnings
from contextlib import contextmanager

import numpy as np

TOL = 1e-9


def close(a, b, tol=TOL):
    a, b = float(a), float(b)
    return abs(a - b) <= tol * max(1.0, abs(a), abs(b))


class Obs:
    def __init__(self):
        self.calls = {}                 # wrapper evaluation counts
        self.sched = []                 # (t, schedule dict as returned)
        self.set_pilot = []             # (t, station_id, pilot, voltage, period, occupant session or None)
        self.occ = {}                   # t -> {station: session or None}  at update_pilots
        self.views = []                 # per scheduler invocation: what the interface showed vs. truth
        self.warnings = []
        self.exceptions = []

    def hit(self, k):
        self.calls[k] = self.calls.get(k, 0) + 1


@contextmanager
def patched(obj, name, fn):
    orig = getattr(obj, name)
    setattr(obj, name, fn(orig))
    try:
        yield
    finally:
        setattr(obj, name, orig)


def digest(sim):
    """Deep, comparable snapshot of everything the simulation owns (not the scheduler)."""
    net = sim.network
    d = dict(
        iteration=sim._iteration, resolve=sim._resolve, last=sim._last_schedule_update, peak=float(sim.peak),
        pilots=sim.pilot_signals.copy(), rates=sim.charging_rates.copy(),
        cm=None if net.constraint_matrix is None else np.array(net.constraint_matrix, dtype=float).copy(),
        mags=np.array(net.magnitudes, dtype=float).copy(), cidx=list(net.constraint_index),
        volts=np.array(net._voltages, dtype=float).copy(), phases=np.array(net._phase_angles, dtype=float).copy(),
        ids=list(net.station_ids), maxp=np.array(net.max_pilot_signals, dtype=float).copy(),
        minp=np.array(net.min_pilot_signals, dtype=float).copy(),
        allow=[np.array(a, dtype=float).copy() for a in net.allowable_rates], cont=np.array(net.is_continuous).copy(),
        evses={k: (type(e).__name__, e._current_pilot, None if e._ev is None else e._ev._session_id,
                   tuple(sorted((a, repr(v)) for a, v in e.__dict__.items() if a not in ("_ev",))))
               for k, e in net._EVSEs.items()},
        evs={k: ev_digest(ev) for k, ev in sim.ev_history.items()},
        queue=sorted((ts, type(e).__name__, getattr(getattr(e, "ev", None), "_session_id", None)) for ts, e in sim.event_queue._queue),
        history=[(e.timestamp, type(e).__name__, getattr(getattr(e, "ev", None), "_session_id", None)) for e in sim.event_history],
    )
    return d


def ev_digest(ev):
    b = ev._battery
    return (ev._arrival, ev._departure, ev._estimated_departure, ev._session_id, ev._station_id, ev._requested_energy,
            ev._energy_delivered, ev._current_charging_rate, type(b).__name__, b._capacity, b._current_charge, b._init_charge,
            b._max_power, b._current_charging_power)


def same_digest(a, b):
    if a.keys() != b.keys():
        return "keys"
    for k in a:
        x, y = a[k], b[k]
        if isinstance(x, np.ndarray):
            if x.shape != y.shape or not np.array_equal(x, y):
                return k
        elif isinstance(x, list) and x and isinstance(x[0], np.ndarray):
            if len(x) != len(y) or any(not np.array_equal(p, q) for p, q in zip(x, y)):
                return k
        elif x != y and not (x is None and y is None):
            return k
    return None


def mutate_everything(x, depth=0):
    """Scribble over every mutable thing reachable from x (what a hostile scheduler could do)."""
    if depth > 4:
        return
    if isinstance(x, np.ndarray):
        try:
            x[...] = -12345
        except (ValueError, TypeError):
            pass
        return
    if isinstance(x, list):
        for y in list(x):
            mutate_everything(y, depth + 1)
        x.append("bogus")
        return
    if isinstance(x, dict):
        for y in list(x.values()):
            mutate_everything(y, depth + 1)
        x["bogus"] = -1
        return
    if isinstance(x, tuple):
        for y in x:
            mutate_everything(y, depth + 1)
        return
    if hasattr(x, "__dict__") and not isinstance(x, type):
        for k, v in list(vars(x).items()):
            mutate_everything(v, depth + 1)
            if isinstance(v, (int, float)) and not isinstance(v, bool):
                try:
                    setattr(x, k, -777)
                except Exception:
                    pass
            elif isinstance(v, str):
                try:
                    setattr(x, k, "bogus")
                except Exception:
                    pass


def observe(sim, scn, mutate=True, run=True):
    """Run the real simulation under observation.  -> Obs"""
    from acnportal.acnsim.models.evse import BaseEVSE
    from acnportal.acnsim.network.charging_network import ChargingNetwork
    obs = Obs()
    net = sim.network

    def w_set_pilot(orig):
        def f(self, pilot, voltage, period):
            obs.hit("set_pilot")
            occ = None if self._ev is None else self._ev._session_id
            before = None if self._ev is None else (self._ev._energy_delivered, self._ev._battery._current_charge)
            obs.set_pilot.append((sim._iteration, self._station_id, float(pilot), float(voltage), float(period), occ, before))
            return orig(self, pilot, voltage, period)
        return f

    def w_update_pilots(orig):
        def f(self, pilots, i, period):
            obs.hit("update_pilots")
            obs.occ[i] = {k: (None if e._ev is None else e._ev._session_id) for k, e in self._EVSEs.items()}
            return orig(self, pilots, i, period)
        return f

    sch = sim.scheduler
    orig_run = sch.run

    def run_wrapper():
        obs.hit("scheduler.run")
        t = sim._iteration
        iface = sch.interface
        before = digest(sim)
        view = dict(t=t)
        try:
            view["occ"] = {k: (None if e._ev is None else e._ev._session_id) for k, e in net._EVSEs.items()}
            view["current_time"] = iface.current_time
            view["current_datetime"] = iface.current_datetime
            view["period"] = iface.period
            sess = iface.active_sessions()
            view["sessions"] = [(s.station_id, s.session_id, s.requested_energy, s.energy_delivered, s.arrival, s.departure,
                                 s.estimated_departure, s.current_time) for s in sess]
            view["last_rate"] = dict(iface.last_actual_charging_rate)
            view["last_pilot"] = dict(iface.last_applied_pilot_signals)
            view["prev_peak"] = iface.get_prev_peak()
            info = iface.infrastructure_info()
            view["info"] = dict(cm=np.array(info.constraint_matrix, dtype=float).copy(), lim=np.array(info.constraint_limits, dtype=float).copy(),
                                phases=np.array(info.phases, dtype=float).copy(), volts=np.array(info.voltages, dtype=float).copy(),
                                cids=list(info.constraint_ids), sids=list(info.station_ids), maxp=np.array(info.max_pilot, dtype=float).copy(),
                                minp=np.array(info.min_pilot, dtype=float).copy(),
                                allow=[np.array(a, dtype=float).copy() for a in info.allowable_pilots], cont=np.array(info.is_continuous).copy())
            view["acc"] = {sid: ([float(x) for x in iface.allowable_pilot_signals(sid)[1]], float(iface.max_pilot_signal(sid)),
                                 float(iface.min_pilot_signal(sid)), float(iface.evse_voltage(sid)), float(iface.evse_phase(sid)),
                                 bool(iface.allowable_pilot_signals(sid)[0]))
                           for sid in net.station_ids}
            view["truth_active"] = [(e._station_id, ev._session_id, ev._requested_energy, ev._energy_delivered, ev._arrival,
                                     ev._departure, ev._estimated_departure)
                                    for e in net._EVSEs.values() for ev in [e._ev]
                                    if ev is not None and ev._requested_energy - ev._energy_delivered > 1e-3]
            if mutate:
                cons = iface.get_constraints()
                for thing in (sess, info, cons, view_objects(iface), iface._active_evs):
                    mutate_everything(thing)
                view["isolation"] = same_digest(before, digest(sim))
        except Exception as e:                      # an accessor that raises is itself a finding for C05/C06
            view["accessor_exception"] = f"{type(e).__name__}: {e}"
        obs.views.append(view)
        out = orig_run()
        obs.sched.append((t, copy.deepcopy(out)))
        if mutate and isinstance(out, dict):
            pass
        return out

    sch.run = run_wrapper
    with patched(BaseEVSE, "set_pilot", w_set_pilot), patched(ChargingNetwork, "update_pilots", w_update_pilots), \
            warnings.catch_warnings(record=True) as wlist:
        warnings.simplefilter("always")
        try:
            if run:
                sim.run()
        except InterruptedError:
            raise
        except Exception as e:
            obs.exceptions.append(f"{type(e).__name__}: {e}")
        finally:
            sch.run = orig_run
        obs.warnings = [str(w.message) for w in wlist if issubclass(w.category, UserWarning) and not issubclass(w.category, DeprecationWarning)]
    return obs


def view_objects(iface):
    return [iface.last_applied_pilot_signals, iface.last_actual_charging_rate]


# ------------------------------------------------------------------------------------------- clauses
def expected_occupant(scn, station, t, shift=0):
    for s in scn["sessions"]:
        if s["station"] == station and s["arrival"] + shift <= t < s["departure"] + shift:
            return s["sid"]
    return None


def clauses(sim, scn, obs, shift=0):
    """-> list of (property, tag, ok, detail)"""
    out = []

    def add(prop, tag, ok, detail=""):
        out.append((prop, tag, bool(ok), detail if not ok else ""))

    net = sim.network
    ids = list(net.station_ids)
    idx = {s: k for k, s in enumerate(ids)}
    T = sim._iteration
    period = sim.period
    volts = {s: float(net._voltages[idx[s]]) for s in ids}
    sess = {s["sid"]: s for s in scn["sessions"]}
    add("C01", "no_exception", not obs.exceptions, "; ".join(obs.exceptions))
    if obs.exceptions:
        return out
    # ---------------- C01
    prec = {"UnplugEvent": 0, "PluginEvent": 10, "RecomputeEvent": 20}
    hist = [(e.timestamp, prec.get(type(e).__name__, 99), type(e).__name__, getattr(getattr(e, "ev", None), "_session_id", None))
            for e in sim.event_history]
    add("C01", "history_sorted_time_then_precedence", all(hist[i][:2] <= hist[i + 1][:2] for i in range(len(hist) - 1)), str(hist))
    for sid, s in sess.items():
        pl = [h for h in hist if h[2] == "PluginEvent" and h[3] == sid]
        un = [h for h in hist if h[2] == "UnplugEvent" and h[3] == sid]
        add("C01", "plugged_once_at_arrival", len(pl) == 1 and pl[0][0] == s["arrival"] + shift, f"{sid}: {pl}")
        add("C01", "unplugged_once_at_departure", len(un) == 1 and un[0][0] == s["departure"] + shift, f"{sid}: {un}")
    add("C01", "queue_empty_at_end", sim.event_queue.empty() and len(sim.event_queue) == 0)
    add("C01", "all_vacant_at_end", all(e._ev is None for e in net._EVSEs.values()),
        str({k: e._ev._session_id for k, e in net._EVSEs.items() if e._ev is not None}))
    last_ts = max(h[0] for h in hist) if hist else -1
    add("C01", "ends_one_period_after_last_event", T == last_ts + 1, f"iteration={T} last event ts={last_ts}")
    add("C01", "every_period_simulated_once", sorted(obs.occ.keys()) == list(range(min(obs.occ) if obs.occ else 0, T)) and
        obs.calls.get("update_pilots", 0) == len(obs.occ), f"{sorted(obs.occ.keys())} T={T}")
    for t, occ in obs.occ.items():
        for s in ids:
            exp = expected_occupant(scn, s, t, shift)
            add("C01", "connected_exactly_in_[arrival,departure)", occ.get(s) == exp, f"t={t} station={s} occupant={occ.get(s)} expected={exp}")
    # ---------------- C04: ghost overlay of the submitted schedules
    G = {}
    ok_sched = True
    for t, sc in obs.sched:
        if not isinstance(sc, dict):
            continue
        if len(sc) == 0:
            continue
        L = len(next(iter(sc.values())))
        for tau in range(t, t + L):
            for s in ids:
                G[(s, tau)] = float(sc[s][tau - t]) if s in sc else 0.0
    for s in ids:
        for t in range(T):
            want = G.get((s, t), 0.0)
            got = float(sim.pilot_signals[idx[s], t])
            add("C04", "recorded_pilot_is_schedule_overlay", close(got, want), f"station={s} t={t} recorded={got} schedules say {want}")
    applied = {(sid, t): p for (t, sid, p, v, per, occ, before) in obs.set_pilot}
    n_sp = {}
    for (t, sid, *_rest) in obs.set_pilot:
        n_sp[(sid, t)] = n_sp.get((sid, t), 0) + 1
    for s in ids:
        for t in obs.occ:
            add("C04", "applied_pilot_is_schedule_overlay", (s, t) in applied and close(applied[(s, t)], G.get((s, t), 0.0)) and n_sp.get((s, t)) == 1,
                f"station={s} t={t} applied={applied.get((s, t))} x{n_sp.get((s, t))} schedules say {G.get((s, t), 0.0)}")
    for (t, sid, p, v, per, occ, before) in obs.set_pilot:
        add("C04", "set_pilot_gets_station_voltage_and_period", close(v, volts[sid]) and close(per, period), f"{sid} t={t} v={v} period={per}")
    # ---------------- C02 / C03
    R = sim.charging_rates
    for sid, ev in sim.ev_history.items():
        s = sess[sid]
        k = idx[s["station"]]
        want = sum(float(R[k, t]) * volts[s["station"]] / 1000 * period / 60 for t in range(s["arrival"] + shift, min(s["departure"] + shift, T)))
        add("C02", "delivered_equals_sum_rate_x_V_x_dt", close(ev._energy_delivered, want, 1e-8), f"{sid}: reported {ev._energy_delivered} ledger {want}")
        gain = ev._battery._current_charge - ev._battery._init_charge
        add("C02", "delivered_equals_battery_gain", close(ev._energy_delivered, gain, 1e-8), f"{sid}: reported {ev._energy_delivered} battery gained {gain}")
        if scn["scheduler"]["kind"] in ("sorted", "rr"):
            add("C07", "never_more_than_requested", ev._energy_delivered <= ev._requested_energy * (1 + 1e-9) + 1e-9, f"{sid}: {ev._energy_delivered} > {ev._requested_energy}")
    for s in ids:
        for t in range(T):
            r, p = float(R[idx[s], t]), float(sim.pilot_signals[idx[s], t])
            if expected_occupant(scn, s, t, shift) is None:
                add("C02", "vacant_station_records_zero", r == 0.0, f"station={s} t={t} rate={r}")
            add("C03", "0<=rate<=pilot", -1e-9 <= r <= p + 1e-9 * max(1, abs(p)), f"station={s} t={t} rate={r} pilot={p}")
    agg = R[:, :T].sum(axis=0) if T else np.array([])
    add("C02", "peak_is_max_aggregate_current", close(sim.peak, max([0.0] + [float(a) for a in agg]), 1e-8), f"peak={sim.peak} max agg={agg.max() if T else 0}")
    tot = sum(ev._energy_delivered for ev in sim.ev_history.values())
    integ = sum(float(R[idx[s], t]) * volts[s] / 1000 * period / 60 for s in ids for t in range(T))
    add("C02", "total_energy_is_integral_of_power", close(tot, integ, 1e-8), f"sum of EV energies {tot} integral {integ}")
    try:
        from acnportal.acnsim import analysis
        add("C02", "analysis.total_energy_delivered", close(analysis.total_energy_delivered(sim), tot, 1e-8))
        ap = analysis.aggregate_power(sim)
        add("C02", "analysis.aggregate_power_integral", close(float(np.sum(ap[:T])) * period / 60, integ, 1e-8), f"{float(np.sum(ap[:T])) * period / 60} vs {integ}")
        add("C02", "analysis.aggregate_current", np.allclose(analysis.aggregate_current(sim)[:T], agg, rtol=1e-9, atol=1e-12))
    except Exception as e:
        add("C02", "analysis_callable", False, f"{type(e).__name__}: {e}")
    # the same ledger on the simulation as it comes back from JSON (what a user analyses later is often a stored run): rows are looked up through the
    # LOADED network's own station order and voltages
    try:
        import warnings as _w
        with _w.catch_warnings():
            _w.simplefilter("ignore")
            sim2 = type(sim).from_json(sim.to_json())
    except Exception:
        sim2 = None           # serialisability itself is C09's business
    if sim2 is not None:
        ids2 = list(sim2.network.station_ids)
        idx2 = {s: k for k, s in enumerate(ids2)}
        R2 = sim2.charging_rates
        for sid, ev in sim2.ev_history.items():
            s = sess.get(sid)
            if s is None or s["station"] not in idx2:
                add("C02", "restored_run_keeps_its_sessions_and_stations", False, f"{sid}")
                continue
            k = idx2[s["station"]]
            v2 = float(sim2.network._voltages[k])
            want = sum(float(R2[k, t]) * v2 / 1000 * sim2.period / 60 for t in range(s["arrival"] + shift, min(s["departure"] + shift, T)))
            add("C02", "restored_run_delivered_equals_sum_rate_x_V_x_dt", close(ev._energy_delivered, want, 1e-8),
                f"{sid} at {s['station']}: reported {ev._energy_delivered}, ledger over the restored run {want} (station order {ids2})")
        for s_ in ids2:
            for t in range(T):
                if expected_occupant(scn, s_, t, shift) is None:
                    add("C02", "restored_run_vacant_station_records_zero", float(R2[idx2[s_], t]) == 0.0, f"station={s_} t={t} rate={float(R2[idx2[s_], t])}")
    # ---------------- C05
    mr = sim.max_recompute
    ev_times = set(h[0] for h in hist)
    called = [t for t, _ in obs.sched]
    add("C05", "at_most_once_per_period", len(called) == len(set(called)), str(called))
    last = None
    exp_calls = []
    t0 = min(obs.occ) if obs.occ else 0
    for t in range(t0, T):
        need = (t in ev_times) or (mr is not None and (last is None or t - last >= mr))
        if need:
            exp_calls.append(t)
            last = t
    add("C05", "invoked_iff_event_or_max_recompute_elapsed", called == exp_calls, f"called at {called}, required at {exp_calls} (mr={mr})")
    for v in obs.views:
        t = v["t"]
        if "accessor_exception" in v:
            add("C05", "accessors_total", False, f"t={t}: {v['accessor_exception']}")
            continue
        add("C05", "observes_current_period", v["current_time"] == t and close(v["period"], period), f"t={t}: {v['current_time']}")
        from datetime import timedelta
        add("C05", "observes_current_datetime", v["current_datetime"] == sim.start + timedelta(minutes=period) * t, f"t={t}: {v['current_datetime']}")
        add("C05", "invoked_after_the_periods_events", all(v["occ"].get(s) == expected_occupant(scn, s, t, shift) for s in ids),
            f"t={t}: occupancy at invocation {v['occ']}")
        truth = v["truth_active"]
        seen = [x[:7] for x in v["sessions"]]
        add("C05", "active_sessions_are_the_connected_unsatisfied_ones", seen == truth and all(x[7] == t for x in v["sessions"]), f"t={t}: saw {seen}, truth {truth}")
        conn = {expected_occupant(scn, s, t, shift) for s in ids} - {None}
        add("C05", "active_sessions_subset_of_connected", {x[1] for x in truth} <= conn, f"t={t}: {truth} vs connected {conn}")
        for (st_id, sid, *_r) in truth:
            arr = sess[sid]["arrival"] + shift
            if t >= 1 and arr <= t - 1:
                add("C05", "last_actual_rate_is_previous_recorded_rate", sid in v["last_rate"] and close(v["last_rate"][sid], R[idx[st_id], t - 1]),
                    f"t={t} {sid}: {v['last_rate'].get(sid)} vs recorded {R[idx[st_id], t - 1]}")
            else:
                add("C05", "new_arrival_has_no_previous_rate", close(v["last_rate"].get(sid, 0.0), 0.0), f"t={t} {sid}: {v['last_rate'].get(sid)}")
            if t >= 2 and arr <= t - 1:
                add("C05", "last_applied_pilot_is_previous_recorded_pilot", sid in v["last_pilot"] and close(v["last_pilot"][sid], sim.pilot_signals[idx[st_id], t - 1]),
                    f"t={t} {sid}: {v['last_pilot'].get(sid)} vs recorded {sim.pilot_signals[idx[st_id], t - 1]}")
            else:
                add("C05", "no_previous_pilot_for_new_or_early", sid not in v["last_pilot"], f"t={t} {sid}: {v['last_pilot']}")
        add("C05", "last_pilot_keys_are_active_sessions", set(v["last_pilot"]) <= {x[1] for x in truth}, f"t={t}: {v['last_pilot']}")
        pk = max([0.0] + [float(R[:, tau].sum()) for tau in range(t)])
        add("C05", "prev_peak_is_max_previous_aggregate", close(v["prev_peak"], pk, 1e-8), f"t={t}: {v['prev_peak']} vs {pk}")
        info = v["info"]
        cm = np.zeros((0, len(ids))) if net.constraint_matrix is None else np.array(net.constraint_matrix, dtype=float)
        ok_info = (info["sids"] == ids and info["cids"] == list(net.constraint_index) and info["cm"].shape == cm.shape and np.array_equal(info["cm"], cm)
                   and np.array_equal(info["lim"], np.array(net.magnitudes, dtype=float)) and np.array_equal(info["phases"], np.array(net._phase_angles, dtype=float))
                   and np.array_equal(info["volts"], np.array(net._voltages, dtype=float)))
        add("C05", "infrastructure_matches_network", ok_info, f"t={t}")
        for k, s in enumerate(ids):
            e = net._EVSEs[s]
            allow = [float(x) for x in e.allowable_pilot_signals]
            a = v["acc"][s]
            ok = (a[0] == allow and a[1] == float(e.max_rate) and a[2] == float(e.min_rate) and a[3] == volts[s]
                  and a[4] == float(net._phase_angles[k]) and a[5] == bool(e.is_continuous) and list(info["allow"][k]) == allow and float(info["maxp"][k]) == float(e.max_rate)
                  and float(info["minp"][k]) == float(e.min_rate) and bool(info["cont"][k]) == bool(e.is_continuous))
            add("C05", "advertised_limits_are_the_evse's", ok, f"t={t} station={s}: {a} vs allow={allow} max={e.max_rate} min={e.min_rate}")
            for val in allow + [float(e.max_rate)]:
                if math.isfinite(val):
                    add("C13", "advertised_value_is_accepted", bool(e._valid_rate(val)), f"{s}: {val}")
        if "isolation" in v:
            add("C05", "mutating_handed_out_objects_changes_nothing", v["isolation"] is None, f"t={t}: simulator field '{v['isolation']}' changed")
    # ---------------- C07 (simulation-level corollaries; meaningful under the sorted algorithms)
    if scn["scheduler"]["kind"] in ("sorted", "rr"):
        add("C07", "no_infeasible_schedule_warning", not any("Invalid schedule" in w for w in obs.warnings),
            str([w for w in obs.warnings if "Invalid schedule" in w][:1]))
    return out
